"""C04 — evidence and posterior are statistically correct on problems with known answers.

proof:  lean/NautilusVerif/Properties/C04.lean — on a finite uniform space the shells partition the cube, every shell
        term is unbiased and hence the evidence estimator, the posterior numerators and the sum of the shell volumes
        are unbiased for any bounds, any likelihood, any number of proposals (exploration discarded).   partial.
validation (labelled as such, not proof): ensembles of independent seeds on likelihoods with closed-form evidence
        (Gaussians, separated two-mode mixture, half-space zero-likelihood plateau with log-ramp, a plateau that fills whole
        shells, an unconstrained parameter, a peak on a face of the cube with a sampler pool, wrap-around peak declared
        periodic; with/without a network): Student-t tests of the mean of (log Z_hat - log Z) sqrt(n_eff), of the posterior
        mean and of sum(exp(shell_log_v)) - 1 across seeds, at a family-wise false-alarm level of 1e-9 per run.
"""
import multiprocessing as mp
import os

import numpy as np
from scipy.special import erf, logsumexp
from scipy.stats import t as student_t

import common
import runs

THEOREMS = ['C04_partition', 'C04_shell_unbiased', 'C04_Z_unbiased', 'C04_weights_consistent', 'C04_volumes_sum_to_one']
MODULE = 'NautilusVerif.Properties.C04'
FILES = ['nautilus/sampler.py', 'nautilus/bounds/union.py', 'nautilus/bounds/nautilus.py']
ALPHA = 1e-9


def phi(z):
    return 0.5 * (1 + erf(z / np.sqrt(2)))


def trunc_gauss_mass(mu, sigma):
    return sigma * np.sqrt(2 * np.pi) * (phi((1 - mu) / sigma) - phi((0 - mu) / sigma))


# ---- likelihoods with closed-form evidence (module level: picklable) ----
def ll_gauss(x, s=0.1):
    return float(-0.5 * np.sum(((x - 0.5) / s) ** 2))


def ll_two(x):
    a = -0.5 * np.sum(((x - 0.3) / 0.05) ** 2)
    b = -0.5 * np.sum(((x - 0.7) / 0.05) ** 2) + np.log(2.0)
    return float(np.logaddexp(a, b))


def ll_half(x):
    if x[0] < 0.3:
        return -np.inf
    return float(12 * (x[0] - 0.3) - 0.5 * np.sum(((x[1:] - 0.5) / 0.15) ** 2))


def ll_wrap(x):
    d = np.minimum(np.abs(x[0] - 0.02), 1 - np.abs(x[0] - 0.02))
    return float(-0.5 * (d / 0.05) ** 2 - 0.5 * np.sum(((x[1:] - 0.5) / 0.1) ** 2))


def ll_ramp90(x):
    if x[0] < 0.9:
        return -np.inf
    return float(np.log(max(x[0] - 0.9, 1e-300)))


def ll_gfree(x):
    return float(-0.5 * ((x[0] - 0.5) / 0.1) ** 2)


def ll_edge(x):
    return float(-0.5 * (x[0] / 0.1) ** 2 - 0.5 * np.sum(((x[1:] - 0.5) / 0.1) ** 2))


def family(name, d):
    if name == 'ramp90':    # the zero-likelihood plateau fills whole shells; the other coordinates are unconstrained
        return ll_ramp90, np.log(0.005), None, None
    if name == 'gfree':     # one constrained, one unconstrained parameter (outer bound keeps a unit-cube dimension)
        return ll_gfree, np.log(trunc_gauss_mass(0.5, 0.1)), None, None
    if name == 'edge':      # peak on a face of the prior cube; run with a sampler pool
        return ll_edge, np.log(trunc_gauss_mass(0.0, 0.1)) + (d - 1) * np.log(trunc_gauss_mass(0.5, 0.1)), None, None
    if name == 'gauss':
        return ll_gauss, d * np.log(trunc_gauss_mass(0.5, 0.1)), np.full(d, 0.5), None
    if name == 'two':
        m = np.log(trunc_gauss_mass(0.3, 0.05) ** d + 2 * trunc_gauss_mass(0.7, 0.05) ** d)
        mean = (0.3 * trunc_gauss_mass(0.3, 0.05) ** d + 0.7 * 2 * trunc_gauss_mass(0.7, 0.05) ** d) / np.exp(m)
        return ll_two, m, np.full(d, mean), None
    if name == 'half':
        z0 = (np.exp(12 * 0.7) - 1) / 12
        return ll_half, np.log(z0) + (d - 1) * np.log(trunc_gauss_mass(0.5, 0.15)), None, None
    if name == 'wrap':
        z0 = 0.05 * np.sqrt(2 * np.pi) * (phi(0.5 / 0.05) - phi(-0.5 / 0.05))
        return ll_wrap, np.log(z0) + (d - 1) * np.log(trunc_gauss_mass(0.5, 0.1)), None, [0]
    raise ValueError(name)


def one_run(job):
    import warnings
    warnings.filterwarnings('ignore')
    os.environ.setdefault('OMP_NUM_THREADS', '1')
    from nautilus import Sampler
    name, d, seed, nets, n_live, n_eff, discard = job
    ll, log_z, mean, periodic = family(name, d)
    kw = dict(n_dim=d, n_live=n_live, n_networks=nets, seed=seed, n_batch=50,
              neural_network_kwargs=dict(hidden_layer_sizes=(16, 8), max_iter=200))
    if periodic is not None:
        kw['periodic'] = np.array(periodic)
    if name == 'edge':
        kw['pool'] = (None, runs.PicklePool(2))
    try:
        with common.time_limit(1200):
            s = Sampler(lambda x: x, ll, **kw)
            s.run(n_eff=n_eff, discard_exploration=discard)
    except Exception as e:
        return {'error': '%s: %s' % (type(e).__name__, str(e)[:120]), 'job': list(job)}
    pts, log_w, _ = s.posterior()
    w = np.exp(log_w)
    out = {'t': float((s.log_z - log_z) * np.sqrt(s.n_eff)), 'dlogz': float(s.log_z - log_z), 'n_eff': float(s.n_eff),
           'vol': float(np.exp(logsumexp(s.shell_log_v[np.isfinite(s.shell_log_v)])) - 1.0), 'n_like': int(s.n_like)}
    if mean is not None:
        out['dmean'] = [float(x) for x in (np.sum(w[:, None] * pts, axis=0) - mean)]
    return out


def run(chk):
    chk.extra['source_digest'] = common.source_digest(FILES)
    chk.prove(MODULE, THEOREMS)
    if chk.tier == 'thorough':
        chk.leanchecker([MODULE])
    n = 48 if chk.tier == 'quick' else 192
    fams = [('gauss', 2, 0), ('two', 2, 0), ('half', 2, 0), ('wrap', 2, 0), ('gauss', 3, 1), ('ramp90', 2, 0), ('gfree', 2, 0), ('edge', 2, 0)]
    if chk.tier == 'thorough':
        fams += [('gauss', 4, 0), ('two', 3, 1), ('half', 3, 0), ('wrap', 3, 1), ('gauss', 5, 0), ('ramp90', 3, 1), ('gfree', 3, 1), ('edge', 3, 0)]
    jobs = []
    for fi, (name, d, nets) in enumerate(fams):
        for k in range(n):
            jobs.append((name, d, 1000 * (chk.seed + 1) + 100 * fi + k, nets, 300, 2000, True))
    res = common.pool_map(one_run, jobs)
    stats_list = []
    for r in res:
        if 'error' in r:
            chk.fail('run-fails:' + r['error'].split(':')[0], 'a run of the ensemble raised or did not end: %s (family %s, d=%d, seed %d)' % (
                r['error'], r['job'][0], r['job'][1], r['job'][2]), {'input': {'job': r['job']}})
    for fi, (name, d, nets) in enumerate(fams):
        rs = [r for r in res[fi * n:(fi + 1) * n] if 'error' not in r]
        if len(rs) < 3:
            continue
        series = {'evidence-bias': np.array([r['t'] for r in rs]), 'shell-volumes-sum': np.array([r['vol'] for r in rs])}
        if 'dmean' in rs[0]:
            dm = np.array([r['dmean'] for r in rs])
            for j in range(dm.shape[1]):
                series['posterior-mean-x%d' % j] = dm[:, j]
        for key, v in series.items():
            sd = float(np.std(v, ddof=1))
            tval = float(np.mean(v) / (sd / np.sqrt(len(v)))) if sd > 0 else 0.0
            stats_list.append({'family': '%s/d=%d/nets=%d' % (name, d, nets), 'test': key, 't': tval, 'mean': float(np.mean(v)), 'sd': sd,
                               'n': len(v), 'mean_dlogz': float(np.mean([r['dlogz'] for r in rs]))})
    k_tests = len(stats_list)
    tcrit = float(student_t.isf(ALPHA / k_tests / 2, n - 1))
    for st in stats_list:
        if abs(st['t']) > tcrit:
            chk.fail('systematic-offset:%s@%s' % (st['test'], st['family'].split('/')[0]),
                     '%s on %s: mean %.4g over %d seeds is %.1f standard errors from the known value (threshold %.1f at family-wise alpha %g)' % (
                         st['test'], st['family'], st['mean'], st['n'], abs(st['t']), tcrit, ALPHA),
                     {'input': {'family': st['family'], 'seeds': '%d consecutive seeds from %d' % (n, 1000 * (chk.seed + 1)), 'n_live': 300,
                                'n_eff': 2000, 'discard_exploration': True}, 'statistic': st})
    chk.count(len(jobs), len(jobs))
    chk.cov['traces_validated_against_impl'] = len(jobs)
    chk.extra['t_critical'] = tcrit
    chk.extra['statistics'] = sorted(stats_list, key=lambda s: -abs(s['t']))[:8]
    chk.extra['runs'] = len(jobs)
    chk.cov['rule'] = ('model-validation ensemble (not the proof): evaluations = independent seeded runs (n_live=300, n_eff=2000, exploration '
                       'discarded) of likelihood families with closed-form evidence; per family Student-t tests across seeds of the evidence offset '
                       'in units of the reported error, of the posterior mean and of the summed shell volumes; every run is non-trivial')
    chk.sample({'families': fams, 'seeds_per_family': n, 'example': next((r for r in res if 'error' not in r), None)})
    chk.assumptions += ['partial: unbiasedness is proved for the modelled estimator; convergence (adequate live points per mode), float rounding and '
                        'PRNG quality are validated by the ensemble only; power: the quick tier (48 seeds, critical |t| about 8) sees offsets of about 1.2 reported sigma (~2.6 % in Z), '
                        'the thorough tier (192 seeds) about 0.55 sigma (~1.2 % in Z)']
    chk.trusted += ['harness/c04.py (closed-form evidences, statistics)', 'scipy.stats / scipy.special']


def replay(doc):
    print('re-running the quick ensemble')
    chk = common.Check('C04', 'quick', int(doc.get('seed', 0)))
    run(chk)
    return bool(chk.failing)
