"""Real-sampler histories for the Core-model properties (C01, C02, C03, C10, C12).

Each history is run once in a worker process with a `corerec.Recorder` attached; at every operation boundary the
properties' own observables are evaluated on the real object (these decide VIOLATION), and the recorded
operations are replayed through the Lean model (this is the correspondence).
"""
import hashlib
import multiprocessing as mp
import os
import time as _time

import numpy as np
from scipy.special import logsumexp

import common
import corerec
import runs

TOL = 1e-9


def close(a, b, tol=TOL):
    if a is None or b is None:
        return a is None and b is None
    a, b = float(a), float(b)
    if np.isnan(a) or np.isnan(b):
        return np.isnan(a) and np.isnan(b)
    if np.isinf(a) or np.isinf(b):
        return a == b
    return abs(a - b) <= tol * max(1.0, abs(a), abs(b))


# ------------------------------------------------------------------------------------------ observables

def eval_c01(s):
    out = []
    nb = len(s.bounds)
    for i in range(nb):
        p = s.points[i]
        if len(p) == 0:
            continue
        if not np.all((p >= 0) & (p < 1)):
            out.append(('stored-point-outside-cube', 'shell %d holds a point outside [0,1)^d' % i, {'shell': i}))
        own = np.asarray(s.bounds[i].contains(p), dtype=bool)
        if not np.all(own):
            out.append(('stored-point-outside-own-bound', 'shell %d: %d of %d stored points are outside the bound of their '
                        'own shell' % (i, int(np.sum(~own)), len(p)), {'shell': i}))
        for k in range(i + 1, nb):
            inside = np.asarray(s.bounds[k].contains(p), dtype=bool)
            if np.any(inside):
                out.append(('stored-point-inside-later-bound', 'shell %d: %d of %d stored points lie inside the later '
                            'bound %d' % (i, int(np.sum(inside)), len(p), k), {'shell': i, 'bound': k}))
                break
        assoc = s.shell_association(p)
        if not np.all(assoc == i):
            out.append(('shell-association-differs', 'shell %d: shell_association gives %r for some stored points' % (
                i, sorted(set(int(x) for x in assoc if x != i))[:4]), {'shell': i}))
    if not s.explored and nb > 0 and len(s.shell_t) == len(s.points_t):
        live = np.flatnonzero(np.asarray(s.shell_t) >= 0)
        if len(live):
            t = s.points_t[live]
            if not np.all(np.asarray(s.bounds[-1].contains(t), dtype=bool)):
                out.append(('transfer-candidate-outside-newest-bound', 'an unused transfer candidate is outside the newest bound', {}))
    allp = np.concatenate(s.points) if nb else np.zeros((0, s.n_dim))
    if len(allp) and len(np.unique(allp, axis=0)) != len(allp):
        out.append(('sample-stored-twice', 'the same point is stored in two places', {}))
    return out


def visible_arrays(s):
    if s._discard_exploration and s.explored:
        start = [int(x) for x in s.shell_end_exp]
    else:
        start = [0] * len(s.points)
    return start


def eval_c02(s):
    """independent recomputation of the estimators from the stored samples"""
    out = []
    nb = len(s.bounds)
    if nb == 0:
        return out
    start = visible_arrays(s)
    n_vis = np.array([len(s.log_l[i]) - start[i] for i in range(nb)])
    for name in ('shell_n', 'shell_n_sample', 'shell_n_eff', 'shell_log_l', 'shell_log_v', 'shell_log_l_min'):
        if len(getattr(s, name)) != nb:
            out.append(('shell-array-length', '%s has %d entries for %d shells' % (name, len(getattr(s, name)), nb), {}))
            return out
    for i in range(nb):
        if not (len(s.points[i]) == len(s.log_l[i]) and (s.blobs is None or (np.ndim(s.blobs[i]) > 0 and len(s.blobs[i]) == len(s.points[i])))):
            out.append(('shell-arrays-different-lengths', 'shell %d: %d points, %d likelihoods' % (i, len(s.points[i]), len(s.log_l[i])), {'shell': i}))
    if not np.array_equal(np.asarray(s.shell_n), n_vis):
        out.append(('shell-count-stale', 'shell_n=%r but the shells hold %r visible samples' % (list(map(int, s.shell_n)), list(map(int, n_vis))), {}))
        return out
    n_prop = np.array(s.shell_n_sample, dtype=float)
    if s._discard_exploration and s.explored:
        n_prop = n_prop - np.array(s.shell_n_sample_exp, dtype=float)
    if np.any(n_vis > n_prop):
        out.append(('more-samples-than-proposals', 'a shell holds more visible samples than proposals were drawn for it: %r > %r' % (
            list(map(int, n_vis)), list(map(int, n_prop))), {}))
    log_vs, log_terms, weights_l = [], [], []
    for i in range(nb):
        if n_vis[i] == 0:
            if not (np.isneginf(s.shell_log_v[i]) or np.isnan(s.shell_log_v[i])):
                out.append(('empty-shell-volume', 'an empty shell reports volume %r' % float(s.shell_log_v[i]), {'shell': i}))
            continue
        lv = float(s.bounds[i].log_v) + np.log(n_vis[i] / n_prop[i])
        if not close(lv, s.shell_log_v[i]):
            out.append(('shell-volume-wrong', 'shell %d: volume %r, bound volume x fraction of proposals kept = %r' % (
                i, float(s.shell_log_v[i]), lv), {'shell': i}))
        ll = s.log_l[i][start[i]:]
        with np.errstate(all='ignore'):
            weights_l.append(ll + lv - np.log(n_vis[i]))
            mean_l = logsumexp(ll) - np.log(n_vis[i])
        if not close(mean_l, s.shell_log_l[i]):
            out.append(('shell-mean-likelihood-wrong', 'shell %d: %r vs recomputed %r' % (i, float(s.shell_log_l[i]), float(mean_l)), {'shell': i}))
    if not weights_l:
        return out
    lw = np.concatenate(weights_l)
    with np.errstate(all='ignore'):
        log_z = float(logsumexp(lw))
    if np.isneginf(log_z):
        return out          # all visible samples have zero likelihood: evidence undefined, excluded (DESIGN §5)
    if not close(log_z, s.log_z, 1e-8):
        out.append(('evidence-not-estimator-of-samples', 'log_z=%r, sum over stored samples of L x volume per sample = %r' % (s.log_z, log_z), {}))
    w = np.exp(lw - log_z)
    kish = float(np.sum(w) ** 2 / np.sum(w ** 2))
    if not close(kish, s.n_eff, 1e-7):
        out.append(('n_eff-not-kish', 'n_eff=%r, Kish effective sample size of the weights = %r' % (float(s.n_eff), kish), {}))
    post = s.posterior()
    if len(post[1]) != len(lw) or not np.allclose(post[1], lw - log_z, rtol=0, atol=1e-8, equal_nan=True):
        out.append(('posterior-weights-wrong', 'posterior() weights are not likelihood x per-sample volume, normalised', {}))
    elif abs(float(logsumexp(post[1]))) > 1e-8:
        out.append(('posterior-weights-not-normalised', 'posterior() weights sum to exp(%r)' % float(logsumexp(post[1])), {}))
    return out


def eval_c03(s, lk):
    """every posterior row is (point, the value the likelihood returned for it, its blob); no point twice"""
    out = []
    if not s.bounds or sum(len(p) for p in s.points) == 0:
        return out
    has_blobs = s.blobs is not None
    try:
        post = s.posterior(return_blobs=has_blobs)
    except Exception as e:
        return [('posterior-raises:' + type(e).__name__, 'posterior(return_blobs=%s) raised %s: %s' % (has_blobs, type(e).__name__, str(e)[:100]), {})]
    pts, log_l = post[0], post[2]
    value, serial = {}, {}
    for k, (arg, ll) in enumerate(lk.calls):
        value[arg] = ll
        serial.setdefault(arg, k)
    seen = set()
    for j in range(len(pts)):
        b = np.ascontiguousarray(pts[j], dtype=float).tobytes()
        if b not in value:
            out.append(('posterior-row-never-evaluated', 'row %d of posterior() is not a point the likelihood was called with' % j, {'row': j}))
            break
        v = value[b]
        if not (v == log_l[j] or (np.isnan(v) and np.isnan(log_l[j]))):
            out.append(('posterior-row-wrong-likelihood', 'row %d: log_l=%r, the likelihood returned %r for this point' % (j, float(log_l[j]), v), {'row': j}))
            break
        if has_blobs and lk.blob in ('serial', 'two', 'array'):
            bl = post[3][j]
            ser = int(bl[0]) if lk.blob in ('two', 'array') else int(bl)
            if ser >= len(lk.calls) or lk.calls[ser][0] != b:
                out.append(('posterior-row-wrong-blob', 'row %d carries the blob of another likelihood call (serial %d)' % (j, ser), {'row': j}))
                break
        if has_blobs and lk.blob == 'float' and post[3][j] != float(pts[j][0] * 2.0):
            out.append(('posterior-row-wrong-blob', 'row %d: blob %r is not the blob of this point' % (j, post[3][j]), {'row': j}))
            break
        if b in seen:
            out.append(('posterior-row-duplicated', 'an evaluated point appears twice in posterior()', {'row': j}))
            break
        seen.add(b)
    return out


def eval_c10_state(s, lk, stored_before):
    out = []
    if int(s.n_like) != stored_before + len(lk.calls):
        out.append(('n_like-differs-from-calls', 'n_like=%d but %d + %d points were passed to the likelihood' % (
            int(s.n_like), stored_before, len(lk.calls)), {}))
    return out


def fingerprint(s):
    try:
        return _fingerprint(s)
    except Exception as e:
        return 'raises:%s:%s' % (type(e).__name__, str(e)[:60])


def _fingerprint(s):
    h = hashlib.sha1()
    for k in ('shell_n', 'shell_n_sample', 'shell_n_eff', 'shell_log_l', 'shell_log_v'):
        h.update(np.ascontiguousarray(getattr(s, k)).tobytes())
    if s.bounds and sum(map(len, s.points)):
        post = s.posterior(return_blobs=s.blobs is not None)
        for a in post:
            h.update(np.ascontiguousarray(a).tobytes())
        h.update(repr((s.log_z, float(s.n_eff))).encode())
    return h.hexdigest()


# ------------------------------------------------------------------------------------------ one history

def inplace_prior(x):
    """a prior that overwrites its argument (unit cube -> [-2, 2)); allowed by the API, the sampler must pass a copy"""
    x *= 4.0
    x -= 2.0
    return x


class PhysLikelihood(runs.Likelihood):
    """likelihood defined on the physical parameters of `inplace_prior`"""

    def one(self, x):
        u = (np.asarray(x, dtype=float) + 2.0) / 4.0
        ll = runs.logl_value(self.kind, u)
        serial = self.offset + len(self.calls)
        self.calls.append((np.asarray(x, dtype=float).tobytes(), ll))
        return ll if self.blob is None else (ll, np.int64(serial))


def run_history(spec):
    """spec: dict(make=kwargs for runs.make_sampler (+ optional prior_kind, file), script=[('run', kwargs) | ('discard', b)
    | ('toggle2',) | ('resume',)]).  The first in-memory segment is recorded for the Lean replay (identity prior only);
    the properties' own observables are evaluated at every operation boundary of every segment."""
    t0 = _time.time()
    mk = dict(spec['make'])
    tick = mk.pop('tick_clock', False)
    if tick:
        # deterministic clock: every look at the clock advances it by one tick, so run(timeout=T) ends after T ticks wherever in
        # the loop body the implementation reads the clock
        import nautilus.sampler as ns_mod
        real_time = ns_mod.time
        state_t = [0]

        def fake():
            state_t[0] += 1
            return float(state_t[0])
        ns_mod.time = fake
        try:
            return run_history({'make': mk, 'script': spec['script']}) | {'spec': spec}
        finally:
            ns_mod.time = real_time
    prior_kind = mk.pop('prior_kind', None)
    use_file = mk.pop('file', False) or any(st[0] == 'resume' for st in spec['script'])
    tmp = common.scratch_dir('nvcore') if use_file else None
    ck = os.path.join(tmp, 'ck.h5') if use_file else None
    acc = {}
    try:
        return _run_history(spec, mk, prior_kind, ck, t0, acc)
    except Exception as e:
        # the sampler raised: keep what the observables had already found at the boundaries before (e.g. a corrupt state right after a resume)
        import traceback
        return {'spec': spec, 'crash': '%s: %s' % (type(e).__name__, str(e)[:200]), 'trace': traceback.format_exc()[-1500:],
                'partial_fails': acc.get('fails') or {}}
    finally:
        if tmp:
            import shutil
            shutil.rmtree(tmp, ignore_errors=True)


def _make(mk, prior_kind, ck, resume):
    import nautilus.sampler as ns
    from nautilus.bounds import NautilusBound
    kw = dict(mk)
    grid = kw.pop('grid', None)
    if grid is not None:      # mode S: the real Sampler control flow over scripted grid bounds
        return runs.make_grid_sampler(**grid)
    ns.NautilusBound = NautilusBound
    if ck:
        kw.update(filepath=ck, resume=resume)
    if prior_kind == 'inplace':
        s, lk = runs.make_sampler(prior=inplace_prior, **kw)
        lk2 = PhysLikelihood(lk.kind, blob=lk.blob, vectorized=lk.vectorized)
        s.likelihood = lk2 if not hasattr(s.likelihood, 'func') else __import__('functools').partial(lk2)
        return s, lk2
    return runs.make_sampler(**kw)


def _run_history(spec, mk, prior_kind, ck, t0, acc=None):
    s, lk = _make(mk, prior_kind, ck, False)
    replay = prior_kind is None
    rec = corerec.Recorder(s, lk) if replay else None
    fails = {p: [] for p in ('C01', 'C02', 'C03', 'C10', 'C12')}
    if acc is not None:
        acc['fails'] = fails
    stats = {'boundaries': 0, 'boundaries_with_transfers': 0, 'max_shells': 0, 'neg_inf_samples': 0, 'returns': [],
             'shells_removed_at_end_of_exploration': 0, 'resumes': 0}
    state = {'prev': None, 'iter_evals': [], 'req': None}
    cur_s = {'s': s, 'lk': lk}

    def boundary(tag):
        s, lk = cur_s['s'], cur_s['lk']
        stats['boundaries'] += 1
        stats['max_shells'] = max(stats['max_shells'], len(s.bounds))
        if len(s.shell_t) and np.any(np.asarray(s.shell_t) == -1):
            stats['boundaries_with_transfers'] += 1
        ctx = {'boundary': stats['boundaries'], 'after': tag, 'segment': stats['resumes']}
        for pid_, fn_ in (('C01', lambda: eval_c01(s)), ('C02', lambda: eval_c02(s)), ('C10', lambda: eval_c10_state(s, lk, 0))):
            try:
                for key, what, d in fn_():
                    fails[pid_].append((key, what, dict(d, **ctx)))
                    if pid_ == 'C02' and s.explored and s._discard_exploration:
                        # "turning it on shows exactly the samples drawn after exploration ended": in the discard view a statistic that
                        # is not the estimator of the visible samples is a statistic that depends on something else
                        fails['C12'].append(('discard-view-statistic:' + key, 'with discard_exploration on, ' + what, dict(d, **ctx)))
            except Exception as e:      # an accessor of the real sampler raised on a reachable state
                fails[pid_].append(('observable-raises:' + type(e).__name__, 'evaluating the observables of %s raised %s: %s' % (
                    pid_, type(e).__name__, str(e)[:120]), ctx))
        if rec is not None and cur_s['s'] is rec.s and len(s.shell_n_sample) == len(s.bounds):
            # independent count of the proposals: rows returned by bounds[i].sample() to sample_shell
            for i, b in enumerate(s.bounds):
                want = rec.drawn.get(rec.bid(b), 0)
                if int(s.shell_n_sample[i]) != want:
                    fails['C02'].append(('proposals-miscounted', 'shell %d: shell_n_sample=%d but its bound returned %d proposals to sample_shell' % (
                        i, int(s.shell_n_sample[i]), want), dict(ctx, shell=i)))
                    break
        if s.explored and s._discard_exploration and len(s.shell_end_exp) == len(s.log_l) and \
                sum(len(s.log_l[i]) - int(s.shell_end_exp[i]) for i in range(len(s.log_l))) > 0:
            # the discard view shows exactly the samples stored behind the exploration split points
            try:
                post = s.posterior(return_blobs=False)
                got = sorted(np.ascontiguousarray(r, dtype=float).tobytes() for r in np.atleast_2d(post[0]))
                want = sorted(np.ascontiguousarray(r, dtype=float).tobytes() for i in range(len(s.points)) for r in s.points[i][int(s.shell_end_exp[i]):])
                if prior_kind is None and got != want:
                    fails['C12'].append(('discard-view-shows-other-samples', 'with discard_exploration on, posterior() returns %d rows; the samples drawn after '
                                         'exploration ended are %d (different multiset)' % (len(got), len(want)), ctx))
            except Exception as e:
                fails['C12'].append(('discard-view-posterior-raises:' + type(e).__name__, 'with discard_exploration on, posterior() raised %s: %s' % (
                    type(e).__name__, str(e)[:100]), ctx))
        prev = state['prev']
        if prev is not None and not prev['explored'] and s.explored:
            stats['shells_removed_at_end_of_exploration'] = prev['n_bounds'] - len(s.bounds)
        cur = {'explored': bool(s.explored), 'bounds': [id(b) for b in s.bounds], 'n_bounds': len(s.bounds), 'sid': stats['resumes'],     # segment number (not id(s): ids of dead objects are reused)
               'arrays': [(p.copy(), l.copy(), None if s.blobs is None else s.blobs[i].copy())
                          for i, (p, l) in enumerate(zip(s.points, s.log_l))] if s.explored else None}
        if prev is not None and prev['explored']:
            if not cur['explored']:
                fails['C12'].append(('exploration-resumed', 'explored went back to False', ctx))
            if (cur['bounds'] != prev['bounds'] and cur['sid'] == prev['sid']) or cur['n_bounds'] != prev['n_bounds']:
                fails['C12'].append(('bounds-changed-after-exploration', 'the list of bounds changed after exploration had finished', ctx))
            elif cur['arrays'] is not None and prev['arrays'] is not None:
                for i, (a, b) in enumerate(zip(prev['arrays'], cur['arrays'])):
                    ok = len(b[0]) >= len(a[0]) and np.array_equal(b[0][:len(a[0])], a[0]) and \
                        np.array_equal(b[1][:len(a[1])], a[1], equal_nan=True) and \
                        (a[2] is None or np.array_equal(b[2][:len(a[2])], a[2]))
                    if not ok:
                        fails['C12'].append(('history-not-append-only', 'shell %d: earlier samples were altered, removed or reordered during the sampling phase' % i, dict(ctx, shell=i)))
                        break
            if any(len(p) == 0 for p in s.points):
                fails['C12'].append(('empty-shell-after-exploration', 'a shell without samples exists after exploration', ctx))
        if s.explored and len(s.shell_end_exp) == len(s.log_l):
            if state.get('calls_at_explored') is None:
                state['calls_at_explored'] = len(lk.calls) if (prev is not None and not prev['explored']) else None
            want = [len(s.log_l[i]) - int(s.shell_end_exp[i]) for i in range(len(s.log_l))] if s._discard_exploration \
                else [len(x) for x in s.log_l]
            if list(map(int, s.shell_n)) != want:
                fails['C12'].append(('discard-view-wrong', 'discard_exploration=%s but shell_n=%r while the shells hold %r samples in that view' % (
                    s._discard_exploration, list(map(int, s.shell_n))[:8], want[:8]), ctx))
            n0 = state.get('calls_at_explored')
            if n0 is not None and prior_kind is None:
                first = {}
                for k, (arg, ll) in enumerate(lk.calls):
                    first.setdefault(arg, k)
                for i in range(len(s.points)):
                    late = s.points[i][int(s.shell_end_exp[i]):]
                    old = [j for j, r in enumerate(late) if first.get(np.ascontiguousarray(r, dtype=float).tobytes(), 10 ** 12) < n0]
                    if old:
                        fails['C12'].append(('old-sample-appended-after-exploration', 'shell %d: %d sample(s) stored behind the exploration '
                                             'split point were evaluated before exploration ended' % (i, len(old)), dict(ctx, shell=i)))
                        break
        state['prev'] = cur

    def hook_plain(s, lk):
        """operation boundaries without a recorder (resumed or non-identity-prior segments)"""
        import types
        oab, oas = s.add_bound, s.add_samples

        def add_bound(self_, *a, **k):
            r = oab(*a, **k)
            boundary('B')
            return r

        def add_samples(self_, *a, **k):
            n0 = len(lk.calls)
            r = oas(*a, **k)
            state['iter_evals'].append(len(lk.calls) - n0)
            boundary('S')
            return r
        s.add_bound = types.MethodType(add_bound, s)
        s.add_samples = types.MethodType(add_samples, s)

    if rec is not None:
        orig_abstract = rec.abstract

        def abstract_and_check():
            st = orig_abstract()
            boundary(rec.ops[-1].split(' ')[0] if rec.ops else '?')
            return st
        rec.abstract = abstract_and_check
    else:
        hook_plain(s, lk)

    def set_discard(b):
        if rec is not None and cur_s['s'] is rec.s:
            rec.set_discard(b)
        else:
            cur_s['s'].discard_exploration = b
            boundary('D')

    for step in spec['script']:
        s_, lk_ = cur_s['s'], cur_s['lk']
        if step[0] == 'run':
            kw = dict(step[1])
            n0 = len(lk_.calls)
            nlike0 = int(s_.n_like)
            ret = s_.run(**kw)
            if rec is not None and s_ is rec.s:
                rec.sync_phase()
            stats['returns'].append(bool(ret))
            n_shell = kw.get('n_shell', 1)
            n_eff_t = kw.get('n_eff', 10000)
            pred = bool(s_.explored and np.all(s_.shell_n >= n_shell) and s_.n_eff >= n_eff_t)
            if bool(ret) != pred:
                fails['C10'].append(('run-return-value-wrong', 'run() returned %r but explored=%r, min shell_n=%r (n_shell=%d), n_eff=%r (target %r)' % (
                    ret, s_.explored, int(np.min(s_.shell_n)) if len(s_.shell_n) else None, n_shell, float(s_.n_eff), n_eff_t), {'run': kw}))
            mx = kw.get('n_like_max', np.inf)
            if np.isfinite(mx):
                if nlike0 >= mx and len(lk_.calls) != n0:
                    fails['C10'].append(('batch-started-beyond-budget', 'run(n_like_max=%r) evaluated %d points although n_like was already %d' % (mx, len(lk_.calls) - n0, nlike0), {'run': kw}))
                if nlike0 < mx and int(s_.n_like) >= mx + s_.n_batch:
                    fails['C10'].append(('budget-exceeded-by-a-batch', 'n_like=%d exceeds n_like_max=%r by a full batch' % (int(s_.n_like), mx), {'run': kw}))
                if nlike0 < mx and len(lk_.calls) - n0 >= (mx - nlike0) + s_.n_batch:
                    fails['C10'].append(('budget-exceeded-by-a-batch', 'run(n_like_max=%r) started at %d and evaluated %d points: a batch was started after the limit had been reached' % (mx, nlike0, len(lk_.calls) - n0), {'run': kw}))
                if not ret and int(s_.n_like) < mx and kw.get('timeout', np.inf) == np.inf:
                    fails['C10'].append(('stopped-below-budget', 'run() returned False with n_like=%d < n_like_max=%r and no timeout' % (int(s_.n_like), mx), {'run': kw}))
        elif step[0] == 'discard':
            set_discard(step[1])
        elif step[0] == 'toggle2':
            before = fingerprint(s_)
            d0 = bool(s_._discard_exploration)
            set_discard(not d0)
            if s_.explored and (not d0):
                vis = [len(s_.log_l[i]) - int(s_.shell_end_exp[i]) for i in range(len(s_.log_l))]
                if list(map(int, s_.shell_n)) != vis:
                    fails['C12'].append(('discard-view-wrong', 'with discard on shell_n=%r but %r samples were drawn after exploration' % (list(map(int, s_.shell_n)), vis), {}))
            set_discard(d0)
            if fingerprint(s_) != before:
                fails['C12'].append(('toggle-does-not-restore', 'switching discard_exploration twice changed a statistic or the posterior', {}))
        elif step[0] == 'resume':
            # a new sampler object resumed from the checkpoint file; the call log and the recording continue
            s2, lk2 = _make(mk, prior_kind, ck, True)
            lk2.calls = list(lk_.calls)
            stats['resumes'] += 1
            if rec is not None and s_ is rec.s:
                cur_s['s'], cur_s['lk'] = s2, lk2
                rec.rebind(s2, lk2)          # records `R` and the abstraction of the resumed sampler (-> boundary('R'))
            else:
                hook_plain(s2, lk2)
                cur_s['s'], cur_s['lk'] = s2, lk2
                boundary('R')
    s_, lk_ = cur_s['s'], cur_s['lk']
    for key, what, d in eval_c03(s_, lk_):
        fails['C03'].append((key, what, d))
    evs = (rec.iter_evals if rec is not None else []) + state['iter_evals']
    for k, n in enumerate(evs):
        if n != s_.n_batch:
            fails['C10'].append(('step-not-one-batch', 'step %d evaluated %d points, n_batch=%d' % (k, n, s_.n_batch), {'step': k}))
            break
    if prior_kind is None:
        for k, (arg, ll) in enumerate(lk_.calls):
            x = np.frombuffer(arg, dtype=float)
            if not np.all((x >= 0) & (x < 1)):
                fails['C10'].append(('evaluated-point-outside-cube', 'likelihood call %d got the unit-cube point %r' % (k, x.tolist()), {'call': k}))
                break
    stats['neg_inf_samples'] = int(sum(np.sum(np.isneginf(l)) for l in s_.log_l))
    stats['n_like'] = int(s_.n_like)
    stats['wall'] = round(_time.time() - t0, 2)
    stats['notes'] = rec.notes if rec is not None else []
    if rec is not None and state['req'] is None:
        state['req'] = (rec.request(), [o[:120] for o in rec.ops], list(rec.states), list(rec.outs))
    req, ops, states, outs = state['req'] if state['req'] else (None, [], [], [])
    return {'spec': spec, 'req': req, 'ops': ops, 'states': states, 'outs': outs, 'fails': fails, 'stats': stats}


def _worker(spec, limit=None):
    os.environ.setdefault('OMP_NUM_THREADS', '1')
    try:
        if limit is None:
            return run_history(spec)
        with common.time_limit(limit):      # CPU seconds of this worker; a history that does not end is a finding
            return run_history(spec)
    except common.InfraTimeout as e:
        return {'spec': spec, 'infra': str(e)}
    except Exception as e:   # a crash of the real sampler on a valid configuration is reported by every Core property
        import traceback
        return {'spec': spec, 'crash': '%s: %s' % (type(e).__name__, str(e)[:200]), 'trace': traceback.format_exc()[-1500:]}


def histories(tier, seed):
    H = []

    def add(script, **mk):
        base = dict(kind='gauss', n_dim=2, n_live=100, n_batch=40, n_networks=0, blob='serial', seed=seed)
        base.update(mk)
        H.append({'make': base, 'script': script})
    full = [('run', dict(n_eff=400))]
    sliced = [('run', dict(n_eff=400, n_like_max=m)) for m in (0, 1, 39, 40, 41, 400, 1000)] + [('run', dict(n_eff=400)),
                                                                                                 ('toggle2',), ('run', dict(n_eff=600)), ('toggle2',)]
    add(sliced)
    add(full + [('toggle2',), ('discard', True), ('run', dict(n_eff=300)), ('toggle2',), ('discard', False), ('run', dict(n_eff=700))], kind='bimodal', n_live=150)
    add([('run', dict(n_eff=300, discard_exploration=True)), ('toggle2',), ('run', dict(n_eff=500, n_shell=60))], kind='halfspace')
    add([('run', dict(n_eff=250)), ('toggle2',)], kind='steps', n_live=100, n_batch=30)
    add(full + [('toggle2',)], kind='funnel', n_dim=3, n_live=150, n_batch=50)
    add(full, kind='wrap', periodic=[0], n_live=120)
    add([('run', dict(n_eff=200, n_like_max=600)), ('run', dict(n_eff=200))], n_networks=1, n_live=100, n_batch=50)
    add([('run', dict(n_eff=150))], n_batch=1, n_live=50, blob=None, kind='gauss')
    add([('run', dict(n_eff=200, n_shell=30))], n_batch=7, n_live=80, n_update=20, blob='two')
    add(full, n_live=100, n_batch=40, blob='float', vectorized=True)
    add([('run', dict(n_eff=250))], n_live=80, n_batch=25, n_like_new_bound=400, kind='bimodal', blob='array')
    add([('run', dict(n_eff=150))], n_batch=1, n_live=50, blob='serial', kind='gauss')
    # exploration ending with emptied shells (plateaus + frequent bounds), exploration discarded
    add([('run', dict(n_eff=50, discard_exploration=True)), ('toggle2',), ('run', dict(n_eff=80))], kind='gauss', n_live=10, n_batch=1, n_update=1)
    add([('run', dict(n_eff=60, discard_exploration=True)), ('toggle2',)], kind='gauss', n_live=20, n_batch=5, n_update=2, blob='two')
    # the switch is set before exploration has finished, then requested again in run()
    add([('discard', True), ('run', dict(n_eff=200, n_like_max=300, discard_exploration=True)),
         ('run', dict(n_eff=200, discard_exploration=True)), ('toggle2',)], kind='gauss', n_live=80, n_batch=20)
    # frequent small bounds (unused transfer candidates remain when exploration ends), then every shell is sampled
    add([('run', dict(n_eff=100)), ('discard', True), ('run', dict(n_eff=100, n_shell=25)), ('toggle2',)], kind='funnel', n_dim=2,
        n_live=100, n_batch=10, n_update=10)
    for j in range(6):   # several seeds: unused transfer candidates at the end of exploration are rare
        add([('run', dict(n_eff=100)), ('discard', True), ('run', dict(n_eff=100, n_shell=25))], kind='bimodal', n_live=100, n_batch=10,
            n_update=15, seed=seed + j, blob=None)
    # mode S: scripted grid bounds and per-cell likelihood tables (plateaus, -inf cells, irregular overlaps): frequent rejected
    # bounds, emptied shells, heavy transfers
    for j in range(20 if tier == 'quick' else 200):
        g = dict(table_seed=1000 * seed + j, n_live=[20, 30, 40][j % 3], n_batch=[2, 5, 7, 10][j % 4], n_update=[3, 5, 10, 20][(j // 2) % 4],
                 seed=seed + j, smooth=[0.5, 20.0][j % 2], extra=[3, 2, 0][j % 3], K=[4, 5][j % 2], blob=['serial', None][j % 2])
        H.append({'make': {'grid': g, 'kind': 'grid', 'seed': seed + j},
                  'script': [('run', dict(n_eff=60, n_like_max=1500, f_live=[0.95, 0.6, 0.3][j % 3], discard_exploration=bool(j % 2))), ('toggle2',),
                             ('discard', True), ('run', dict(n_eff=80, n_shell=12, n_like_max=2500, f_live=0.5)), ('toggle2',)]})
    # run() cut into pieces by `timeout` under a deterministic clock (2 ticks = one loop iteration)
    add([('run', dict(n_eff=200, timeout=T)) for T in [2, 3, 2, 5, 2, 2, 4] * 8] + [('run', dict(n_eff=200))], n_live=100, n_batch=40,
        tick_clock=True)
    # a new sampler object resumed from the file after every second loop iteration (deterministic clock), exploration discarded:
    # every iteration boundary is a stop point, in particular the one at which exploration ends and the first sampling batches
    add([x for _ in range(70) for x in (('run', dict(n_eff=120, discard_exploration=True, timeout=3)), ('resume',))] +
        [('run', dict(n_eff=120, discard_exploration=True))], n_live=60, n_batch=30, tick_clock=True, file=True)
    # ... the same with a configuration that ends exploration without emptied shells
    add([x for _ in range(60) for x in (('run', dict(n_eff=120, discard_exploration=True, timeout=3)), ('resume',))] +
        [('run', dict(n_eff=120, discard_exploration=True))], n_live=100, n_batch=50, tick_clock=True, file=True)
    # resumes from the checkpoint file in exploration (with >= 11 bounds) and in the sampling phase
    add([('run', dict(n_eff=300, n_like_max=900)), ('resume',), ('run', dict(n_eff=300, n_like_max=1700)), ('resume',),
         ('run', dict(n_eff=300)), ('resume',), ('toggle2',), ('run', dict(n_eff=450)), ('resume',), ('run', dict(n_eff=500))],
        kind='gauss', n_live=60, n_batch=20, n_update=30)
    add([('run', dict(n_eff=200, n_like_max=330)), ('resume',), ('run', dict(n_eff=200, n_like_max=660)), ('resume',),
         ('run', dict(n_eff=200))], kind='bimodal', n_live=80, n_batch=30, blob='two')
    # a resume after every third batch of the exploration phase (checkpoints written by the incremental update right after batches with transfers)
    add([x for m in range(120, 900, 60) for x in (('run', dict(n_eff=200, n_like_max=m)), ('resume',))] + [('run', dict(n_eff=200))],
        kind='gauss', n_live=60, n_batch=20, n_update=30, blob='two')
    # resume with an ensemble of two networks per bound (the restored bounds must be the bounds that were written)
    add([('run', dict(n_eff=200, n_like_max=700)), ('resume',), ('run', dict(n_eff=200, n_like_max=1300)), ('resume',), ('run', dict(n_eff=200))],
        kind='funnel', n_dim=2, n_live=100, n_batch=50, n_networks=2, blob=None)
    # geometry hugging the faces of the cube
    add([('run', dict(n_eff=300))], kind='ridge_edge', n_live=200, n_batch=50, blob=None)
    add([('run', dict(n_eff=300))], kind='ridge_edge', n_live=200, n_batch=50, blob=None, seed=seed + 2)
    add([('run', dict(n_eff=300))], kind='corner', n_live=100, n_batch=50, n_dim=3)
    # bounds sampled through a sampler pool (8 / 4 workers: several worker blocks are consumed), also with a periodic parameter
    add([('run', dict(n_eff=500, n_shell=900))], kind='gauss', n_live=100, n_batch=100, spool=16, blob=None)
    add([('run', dict(n_eff=300)), ('toggle2',)], kind='wrap', periodic=[0], n_live=100, n_batch=40, spool=4, blob=None)
    # a prior function that overwrites its argument
    add([('run', dict(n_eff=200)), ('toggle2',)], prior_kind='inplace', n_live=80, n_batch=20, blob='serial')
    add([('run', dict(n_eff=100))], prior_kind='inplace', n_live=50, n_batch=1, blob=None)
    # n_shell larger than the batch size, exploration discarded, limits falling while the shells are being filled
    add([('run', dict(n_eff=50, n_shell=70, discard_exploration=True, n_like_max=m)) for m in range(500, 2300, 45)] +
        [('run', dict(n_eff=50, n_shell=70, discard_exploration=True))], n_live=80, n_batch=25)
    if tier == 'thorough':
        for k, kind in enumerate(['gauss', 'bimodal', 'funnel', 'halfspace', 'steps', 'wrap']):
            for j in range(6):
                add(full + [('toggle2',), ('run', dict(n_eff=600, discard_exploration=bool(j % 2)))], kind=kind,
                    n_dim=2 + (j % 3), n_live=80 + 40 * j, n_batch=[10, 33, 64, 100, 17, 50][j], n_networks=1 if j == 5 else 0,
                    periodic=[0] if kind == 'wrap' else None, seed=seed + 10 * k + j, blob=['serial', 'two', None, 'float', 'array', 'serial'][j])
    return H


def _digest():
    """content digest of everything the histories depend on: the implementation, the harness, the models"""
    import glob
    h = hashlib.sha1()
    files = sorted(glob.glob(os.path.join(common.REPO, 'nautilus', '**', '*.py'), recursive=True)) + \
        sorted(glob.glob(os.path.join(common.VERIF, 'harness', '*.py'))) + \
        sorted(glob.glob(os.path.join(common.LEAN, 'NautilusVerif', 'Model', '*.lean'))) + \
        sorted(glob.glob(os.path.join(common.LEAN, 'NautilusVerif', 'Driver', '*.lean')))
    for f in files:
        h.update(f.encode())
        h.update(open(f, 'rb').read())
    return h.hexdigest()


def run_all(tier, seed):
    """the five Core properties evaluate the same histories; the results of a run are shared between their checks as long as
    the implementation, the harness and the models are byte-identical (content digest) — otherwise everything is re-run"""
    import fcntl
    import pickle
    cdir = os.path.join(common.VERIF, '.cache')
    os.makedirs(cdir, exist_ok=True)
    path = os.path.join(cdir, 'core_%s_%s_%d.pkl' % (_digest()[:20], tier, seed))
    with open(os.path.join(cdir, 'lock'), 'w') as lk:
        fcntl.flock(lk, fcntl.LOCK_EX)
        if os.path.exists(path) and not os.environ.get('NAUTILUS_VERIF_NOCACHE'):
            try:
                with open(path, 'rb') as f:
                    res = pickle.load(f)
                for r in res:
                    r['from_cache'] = True
                return res
            except Exception:
                pass
        res = _run_all(tier, seed)
        for old in sorted((f for f in os.listdir(cdir) if f.endswith('.pkl')), key=lambda f: os.path.getmtime(os.path.join(cdir, f)))[:-3]:
            os.remove(os.path.join(cdir, old))
        with open(path + '.tmp', 'wb') as f:
            pickle.dump(res, f)
        os.replace(path + '.tmp', path)
        return res


def _run_all(tier, seed):
    H = histories(tier, seed)
    limit = 420 if tier == 'quick' else 1500       # CPU seconds per history; a run that does not return is a finding
    pool = mp.get_context('fork').Pool(min(16, os.cpu_count() or 4))
    try:
        pend = [pool.apply_async(_worker, (h, limit)) for h in H]
        t_end = _time.time() + 10 * limit + 600       # wall-clock backstop for the whole batch: infrastructure, not a finding
        res = []
        for h, a in zip(H, pend):
            try:
                res.append(a.get(timeout=max(1.0, t_end - _time.time())))
            except mp.TimeoutError:
                res.append({'spec': h, 'infra': 'no result within the wall-clock backstop of the batch'})
    finally:
        pool.terminate()
    infra = [r for r in res if 'infra' in r]
    if infra:
        raise RuntimeError('infrastructure: %d histories did not finish for lack of machine time (%s)' % (len(infra), infra[0]['infra']))
    ok = [r for r in res if 'crash' not in r and r.get('req')]
    replies = common.run_driver_parallel([r['req'] for r in ok]) if ok else []
    for r, rep in zip(ok, replies):
        r['dis'], r['inv'] = corerec.compare(corerec_view(r), rep)
    for r in res:
        r.setdefault('dis', [])
        r.setdefault('inv', [])
        r['n_ops'] = len(r.get('ops', []))
        for k in ('req', 'states', 'outs'):       # large; not needed once compared
            r.pop(k, None)
        r['ops'] = r.get('ops', [])[:5]
    return res


class corerec_view:
    """adapter so that corerec.compare can work on a result dict coming back from a worker"""

    def __init__(self, r):
        self.ops, self.states, self.outs = r['ops'], r['states'], r['outs']


CRASH_MAP = {'evaluate_likelihood': ('C03', 'C10'), 'run': ('C02', 'C10', 'C12'), 'add_bound': ('C01', 'C10'),
             'sample_shell': ('C01', 'C10'), 'add_samples': ('C01', 'C03', 'C10'), 'shell_association': ('C01',),
             'update_shell_info': ('C02',), 'posterior': ('C02', 'C03'), 'log_z': ('C02',), 'n_eff': ('C02',),
             'discard_exploration': ('C02', 'C12'), 'f_live': ('C02',), 'log_v_live': ('C02',)}


def crash_properties(trace):
    """which properties a crash of the real sampler is reported under: those anchored in the innermost nautilus
    function of the traceback (a run that does not return: C03 and C10)"""
    import re
    frames = re.findall(r'File "[^"]*/nautilus/(?:[\w/]+)\.py", line \d+, in (\w+)', trace)
    for fn in reversed(frames):
        if fn in CRASH_MAP:
            if 'TimeoutError' in trace:       # a history that does not end: also reported by the call-count properties
                return tuple(sorted(set(CRASH_MAP[fn]) | {'C03', 'C10'}))
            return CRASH_MAP[fn]
    return ('C03', 'C10')


def report(chk, pid, results, inv_names):
    """feed the results of run_all into a Check for property `pid`"""
    total_ops, nontriv, n_dis = 0, 0, 0
    for r in results:
        spec = {'make': r['spec']['make'], 'script': r['spec']['script']}
        if 'crash' in r:
            if pid in crash_properties(r.get('trace', '')):
                chk.fail('sampler-crashes:' + r['crash'].split(':')[0], 'the sampler raised on a valid configuration: ' + r['crash'],
                         {'input': spec, 'trace': r['trace']})
            else:
                chk.notes.append('history skipped (the sampler raised; reported by %s): %s' % ('/'.join(crash_properties(r.get('trace', ''))), r['crash'][:100]))
            for key, what, d in (r.get('partial_fails') or {}).get(pid, []):
                chk.fail(key, what, {'input': spec, 'detail': d})
            continue
        total_ops += r.get('n_ops', len(r.get('ops', [])))
        nontriv += r['stats']['boundaries_with_transfers']
        for key, what, d in r['fails'][pid]:
            chk.fail(key, what, {'input': spec, 'detail': d})
        bad_inv = [(k, iv) for k, iv in r['inv'] if any((n + '=false') in iv for n in inv_names)]
        if r['dis'] or bad_inv:
            n_dis += len(r['dis']) + len(bad_inv)
            acc = bool(r['fails'][pid])
            chk.correspondence_broken('Sampler history vs Core model (%s seed %s)' % (r['spec']['make'].get('kind'), r['spec']['make'].get('seed')),
                                      {'disagreements': r['dis'][:2], 'false_invariants_on_real_state': bad_inv[:3], 'spec': spec,
                                       'recorder_notes': (r.get('stats') or {}).get('notes', [])[:6]},
                                      accounted=acc)
        chk.sample({'make': r['spec']['make'], 'script': r['spec']['script'], 'ops': r.get('n_ops'), 'first_ops': r.get('ops'), 'stats': r['stats']}, cap=3)
    chk.count(total_ops, nontriv)
    chk.cov['traces_validated_against_impl'] = len([r for r in results if 'crash' not in r])
    chk.cov['disagreements_checked'] = n_dis
    chk.extra['histories'] = len(results)
    chk.extra['histories_shared_with_other_core_check'] = bool(results and results[0].get('from_cache'))
    chk.extra['history_stats'] = [dict(kind=r['spec']['make'].get('kind'), **r.get('stats', {})) for r in results if 'crash' not in r][:40]
    chk.cov['rule'] = ('real Sampler histories (likelihoods: gaussian, bimodal, funnel, half-space -inf plateau, stepped plateau, periodic '
                       'wrap-around; n_batch 1..100, networks 0/1, blobs of 4 kinds, run() sliced by n_like_max, discard toggles) replayed '
                       'operation by operation through the Lean Core model; evaluations = operations compared; non-trivial = '
                       'operation boundaries at which transfer candidates had been used')
