"""C16 — periodic phase shift is a bijection of the unit cube.

proof:           lean/NautilusVerif/Properties/C16.lean  (statements of record)
tie (translator): harness/gen_c16.py regenerates the shift / centre formulas from periodic.py
tie (correspondence X): PhaseShift.transform / compute vs the bit-exact Dyadic model, same doubles
search:          the property itself evaluated on the real outputs
"""
import math
from fractions import Fraction

import os

import numpy as np

import common
import gen_c16

THEOREMS = ['C16_range', 'C16_inverse', 'C16_untouched', 'C16_length', 'C16_gap', 'C16_gap_is_max', 'C16_sort_sorted', 'C16_sort_perm', 'C16_float_range', 'C16_float_legacy_leaves_cube']
TIE_THEOREMS = ['C16_tie_shiftQ', 'C16_tie_shiftF', 'C16_tie_wrapGap', 'C16_tie_centre']
MODULE = [('NautilusVerif.Properties.C16', THEOREMS), ('NautilusVerif.Properties.C16Tie', TIE_THEOREMS)]
FILES = ['nautilus/bounds/periodic.py', 'nautilus/bounds/nautilus.py']


def me(x):
    x = float(x)
    if x == 0:
        return (0, 0)
    m, e = math.frexp(x)
    m = int(m * 2 ** 53)
    e -= 53
    while m % 2 == 0:
        m //= 2
        e += 1
    return (m, e)


def from_me(m, e):
    return math.ldexp(m, e)


def ulp_neighbours(x, k=2):
    out = [x]
    a = b = x
    for _ in range(k):
        a = np.nextafter(a, -np.inf)
        b = np.nextafter(b, np.inf)
        out += [float(a), float(b)]
    return out


def gen_inputs(rng, n_centres, n_per):
    """returns list of (c, [x...]) with wrap-directed, edge and random coordinates, all in [0,1)"""
    cases = []
    special_c = [0.0, 0.5, float(np.nextafter(1.0, 0)), float(np.nextafter(0.5, 0)), float(np.nextafter(0.5, 1)),
                 5e-324, 1e-300, 2.0 ** -53, 2.0 ** -54, 0.8, 0.3, 0.25, 0.75]
    for i in range(n_centres):
        c = special_c[i] if i < len(special_c) else float(rng.random())
        xs = []
        for base in ((c - 0.5) % 1.0, (c + 0.5) % 1.0, (0.5 - c) % 1.0, (-0.5 - c) % 1.0, c, 0.0,
                     float(np.nextafter(1.0, 0)), 0.5):
            for v in ulp_neighbours(base, 3):
                xs.append(v)
        xs += [5e-324, 2.2250738585072014e-308, 1e-17, 2.0 ** -53, 2.0 ** -54, 1 - 2.0 ** -53, 0.3]
        while len(xs) < n_per:
            r = float(rng.random())
            if rng.random() < 0.3:
                r = float(np.ldexp(rng.random(), -int(rng.integers(1, 60))))
            xs.append(r)
        xs = [x for x in xs if 0.0 <= x < 1.0]
        cases.append((c, xs))
    return cases


def real_transform(c_list, cols, inverse):
    """call the real PhaseShift.transform on an (n, 2k+1) array: even columns periodic, odd ones not"""
    from nautilus.bounds.periodic import PhaseShift
    ps = PhaseShift()
    k = len(c_list)
    ps.periodic = np.arange(0, 2 * k, 2)
    ps.centers = np.array(c_list, dtype=float)
    n = len(cols[0])
    pts = np.zeros((n, 2 * k + 1))
    for j, col in enumerate(cols):
        pts[:, 2 * j] = col
    filler = np.linspace(0.01, 0.99, n)
    for j in range(1, 2 * k + 1, 2):
        pts[:, j] = filler
    before = pts.copy()
    out = ps.transform(pts, inverse=inverse)
    return pts, before, out


def circ_dist(a, b):
    d = abs(Fraction(a) - Fraction(b))
    return min(d, 1 - d)


def check_transform(chk, rng, n_centres, n_per):
    cases = gen_inputs(rng, n_centres, n_per)
    reqs, meta = [], []
    n_wrap = 0
    for (c, xs) in cases:
        for inverse in (False, True):
            pts, before, out = real_transform([c], [xs], inverse)
            if out.shape != pts.shape or not np.array_equal(pts, before, equal_nan=True):
                chk.fail('transform-mutates-or-reshapes', 'transform changed its input or the shape',
                         {'input': {'c': c, 'n': len(xs), 'inverse': inverse}})
            if not np.array_equal(out[:, 1:], pts[:, 1:]):
                chk.fail('non-periodic-coordinate-changed',
                         'a non-periodic coordinate was modified by PhaseShift.transform',
                         {'input': {'c': c.hex(), 'inverse': inverse}})
            back = PhaseShiftBack(c, out[:, 0], not inverse)
            for i, x in enumerate(xs):
                y = float(out[i, 0])
                reqs.append('shift1 %d %d %d %d %d' % ((1 if inverse else 0,) + me(c) + me(x)))
                meta.append((c, x, inverse, y))
                if not (0.0 <= y < 1.0):
                    chk.fail('transform-leaves-cube:%s' % ('inverse' if inverse else 'forward'),
                             'PhaseShift.transform maps the in-cube coordinate %s to %r (centre %s, inverse=%s)' % (
                                 float(x).hex(), y, float(c).hex(), inverse),
                             {'input': {'c': float(c).hex(), 'x': float(x).hex(), 'inverse': inverse},
                              'observed': y, 'expected': 'value in [0,1)'})
                # round trip, modulo one, up to rounding
                if circ_dist(float(back[i]), x) > Fraction(3, 2 ** 53):
                    chk.fail('round-trip', 'inverse(forward(x)) differs from x by more than rounding',
                             {'input': {'c': float(c).hex(), 'x': float(x).hex(), 'inverse': inverse},
                              'observed': float(back[i]).hex()})
    replies = common.run_driver(reqs)
    dis = []
    seen = set()
    for (c, x, inverse, y), rep in zip(meta, replies):
        if rep == 'bad-op':
            raise RuntimeError('driver rejected a shift1 request')
        m, e = map(int, rep.split())
        near = (abs(Fraction(x) + Fraction(1, 2) - Fraction(c) - round(Fraction(x) + Fraction(1, 2) - Fraction(c)))
                < Fraction(4, 2 ** 53)) if not inverse else \
            (abs(Fraction(x) - Fraction(1, 2) + Fraction(c) - round(Fraction(x) - Fraction(1, 2) + Fraction(c)))
             < Fraction(4, 2 ** 53))
        key = (c, x, inverse)
        if near and key not in seen:
            n_wrap += 1
        seen.add(key)
        if (m, e) != me(y):
            dis.append({'c': float(c).hex(), 'x': float(x).hex(), 'inverse': inverse, 'impl': float(y).hex(),
                        'model': float(from_me(m, e)).hex()})
    chk.count(len(reqs), n_wrap)
    chk.extra['transform_inputs'] = len(reqs)
    chk.extra['transform_inputs_within_4ulp_of_wrap'] = n_wrap
    for (c, x, inverse, y) in meta[:2] + meta[-1:]:
        chk.sample({'op': 'transform', 'c': float(c).hex(), 'x': float(x).hex(), 'inverse': inverse,
                    'out': float(y).hex()})
    return dis


def check_multi(chk, rng, n_cases):
    """several periodic dimensions with different centres, in arbitrary index order: each periodic coordinate must be
    shifted with its *own* centre, in both directions, and the others left alone"""
    from nautilus.bounds.periodic import PhaseShift
    reqs, meta = [], []
    for case in range(n_cases):
        n_dim = int(rng.integers(2, 7))
        k = int(rng.integers(1, n_dim + 1))
        periodic = rng.permutation(n_dim)[:k]
        centres = rng.random(k)
        ps = PhaseShift()
        ps.periodic = np.array(periodic)
        ps.centers = np.array(centres)
        pts = rng.random((12, n_dim))
        # the inverse applied by a bound restored from a checkpoint must undo the shift as well (odd cases: the shift that undoes
        # is a copy written to and read from an in-memory HDF5 group)
        ps_back = ps
        if case % 2:
            try:
                import h5py
                with h5py.File('c16-%d.h5' % os.getpid(), 'w', driver='core', backing_store=False) as f:
                    ps.write(f.create_group('s'))
                    ps_back = PhaseShift.read(f['s'])
            except Exception as e:
                chk.fail('shift-write-read-raises:' + type(e).__name__, 'writing and reading a PhaseShift raised %s: %s' % (type(e).__name__, str(e)[:100]),
                         {'input': {'periodic': [int(x) for x in periodic]}})
        for inverse in (False, True):
            out = ps.transform(pts, inverse=inverse)
            back = ps_back.transform(out, inverse=not inverse)
            info = {'periodic': [int(x) for x in periodic], 'centres': [float(c).hex() for c in centres],
                    'inverse': inverse, 'undone_by_read_back_copy': bool(case % 2)}
            if out.shape != pts.shape:
                chk.fail('transform-mutates-or-reshapes', 'shape changed', {'input': info})
                continue
            for d in range(n_dim):
                if d not in periodic and not np.array_equal(out[:, d], pts[:, d]):
                    chk.fail('non-periodic-coordinate-changed', 'coordinate %d is not periodic but was modified' % d,
                             {'input': info})
            if np.any(out < 0) or np.any(out >= 1):
                chk.fail('transform-leaves-cube:%s' % ('inverse' if inverse else 'forward'),
                         'multi-dimensional transform left the unit cube', {'input': info})
            worst = max(circ_dist(float(a), float(b)) for a, b in zip(back.ravel(), pts.ravel()))
            if worst > Fraction(3, 2 ** 53):
                chk.fail('round-trip', 'inverse(forward(x)) differs from x by %.3g (modulo one) with %d periodic dimensions'
                         % (float(worst), k), {'input': info, 'observed': float(worst)})
            for i, d in enumerate(periodic):
                for r in range(len(pts)):
                    reqs.append('shift1 %d %d %d %d %d' % ((1 if inverse else 0,) + me(centres[i]) + me(pts[r, d])))
                    meta.append((info, int(d), float(pts[r, d]), float(out[r, d])))
    replies = common.run_driver(reqs)
    dis = []
    for (info, d, x, y), rep in zip(meta, replies):
        m, e = map(int, rep.split())
        if (m, e) != me(y):
            dis.append(dict(info, dim=d, x=float(x).hex(), impl=float(y).hex(), model=float(from_me(m, e)).hex()))
    chk.count(len(reqs), 0)
    chk.extra['multi_dimension_cases'] = n_cases
    return dis


def PhaseShiftBack(c, col, inverse):
    _, _, out = real_transform([c], [list(col)], inverse)
    return out[:, 0]


def exact_max_gap(xs):
    s = sorted(Fraction(x) for x in xs)
    gaps = [b - a for a, b in zip(s, s[1:])] + [s[0] + 1 - s[-1]]
    return max(gaps)


def gen_clouds(rng, n):
    clouds = []
    fixed = [[0.25], [0.0], [0.0, 0.5], [0.1, 0.1, 0.1], [0.0, 0.25, 0.5, 0.75], [0.9, 0.95, 0.05, 0.1],
             [0.5, float(np.nextafter(0.5, 1))], [0.2, 0.7], [0.3, 0.8, 0.8, 0.3], [float(np.nextafter(1.0, 0)), 0.0]]
    for i in range(n):
        if i < len(fixed):
            clouds.append(fixed[i])
            continue
        kind = rng.integers(0, 4)
        m = int(rng.integers(1, 40))
        if kind == 0:
            xs = rng.random(m)
        elif kind == 1:      # wrapped cluster
            xs = (rng.normal(0.0, 0.05, m)) % 1.0
        elif kind == 2:      # grid with ties between gaps
            k = int(rng.integers(2, 9))
            xs = rng.integers(0, k, m) / k
        else:                # two clusters
            xs = np.concatenate([rng.normal(0.2, 0.02, m), rng.normal(0.7, 0.02, m)]) % 1.0
        xs = [float(x) for x in xs if 0.0 <= x < 1.0]
        if xs:
            clouds.append(xs)
    return clouds


def check_compute(chk, rng, n):
    from nautilus.bounds.periodic import PhaseShift
    clouds = gen_clouds(rng, n)
    reqs = []
    impl = []
    for xs in clouds:
        pts = np.zeros((len(xs), 2))
        pts[:, 1] = xs
        pts[:, 0] = 0.5
        ps = PhaseShift.compute(pts, np.array([1]))
        c = float(ps.centers[0])
        impl.append(c)
        reqs.append('centre ' + ' '.join('%d %d' % me(x) for x in xs))
        # the property itself: the largest cyclic gap of the cloud lies across the boundary after the shift
        g = exact_max_gap(xs)
        out = ps.transform(pts)[:, 1]
        lo, hi = Fraction(float(np.min(out))), Fraction(float(np.max(out)))
        tol = Fraction(8, 2 ** 53)
        if not (0 <= c < 1) or lo < g / 2 - tol or hi > 1 - g / 2 + tol or np.any(out[:] >= 1) or np.any(out < 0):
            if not (np.any(out >= 1) or np.any(out < 0)):   # leaving the cube is reported by the transform check
                chk.fail('gap-not-across-boundary',
                         'after PhaseShift.compute + transform the largest empty gap is not across the boundary',
                         {'input': {'cloud': [float(x).hex() for x in xs]}, 'observed': {'centre': c.hex(),
                          'min': float(lo), 'max': float(hi), 'largest_gap': float(g)}})
    replies = common.run_driver(reqs)
    dis = []
    ties = 0
    for xs, c, rep in zip(clouds, impl, replies):
        if rep in ('bad-op', 'none'):
            raise RuntimeError('driver rejected a centre request: ' + rep)
        m, e = map(int, rep.split())
        s = sorted(Fraction(x) for x in xs)
        gaps = [b - a for a, b in zip(s, s[1:])] + [s[0] + 1 - s[-1]]
        if gaps.count(max(gaps)) > 1 or len(xs) == 1:
            ties += 1
        if (m, e) != me(c):
            dis.append({'cloud': [float(x).hex() for x in xs], 'impl': c.hex(), 'model': from_me(m, e).hex()})
    chk.count(len(clouds), ties)
    chk.extra['compute_clouds'] = len(clouds)
    chk.extra['compute_clouds_with_tied_or_single_gap'] = ties
    chk.sample({'op': 'compute', 'cloud': clouds[-1][:6], 'centre': impl[-1]})
    return dis


def check_bound_level(chk, rng, n):
    """the shift as `NautilusBound.compute` installs it: the construction points of the bound are `points[log_l >= log_l_min]`
    (the rows its ellipsoids are built from); after the bound's shift their largest empty gap must lie across the boundary in every
    periodic dimension.  Clouds include likelihood plateaus exactly at the threshold and a threshold equal to one point's value."""
    import warnings
    from nautilus.bounds import NautilusBound
    n_eval = 0
    for k in range(n):
        d = int(rng.integers(2, 4))
        kind = k % 4
        m = int(rng.integers(60, 140))
        pts = rng.random((m, d))
        pts[:, 1:] = np.clip(rng.normal(0.5, 0.08, (m, d - 1)), 0.01, 0.99)
        periodic = [[0], [1], [1, 0], [d - 1, 0]][k % 4 if d > 2 else k % 3]
        pd = periodic[0]
        if kind == 0:      # plateau exactly at the threshold, wrapping the boundary and wider than half the period, narrower peak on top
            centre = float(rng.random())
            n_pl = m // 2
            pts[:n_pl, pd] = (centre + rng.uniform(-0.32, 0.32, n_pl)) % 1.0
            pts[n_pl:, pd] = (centre + 0.22 + rng.normal(0, 0.02, m - n_pl)) % 1.0
            log_l = np.where(np.arange(m) < n_pl, -3.0, -3.0 + rng.random(m) + 0.1)
            log_l_min = -3.0
        elif kind == 1:    # wrapped peak, threshold equal to the value of an isolated point on the other side
            pts[:, pd] = rng.normal(0.0, 0.05, m) % 1.0
            log_l = -0.5 * (np.minimum(pts[:, pd], 1 - pts[:, pd]) / 0.05) ** 2
            j = int(np.argmin(log_l))
            pts[j, pd] = (0.5 + rng.uniform(-0.05, 0.05)) % 1.0
            log_l[j] = np.sort(log_l)[m // 3]
            log_l_min = float(log_l[j])
        elif kind == 2:    # two plateaus at the threshold on either side of the boundary
            side = rng.random(m) < 0.5
            pts[:, pd] = np.where(side, rng.uniform(0.0, 0.12, m), rng.uniform(0.8, 1.0, m))
            log_l = np.where(rng.random(m) < 0.6, -1.0, -1.0 + rng.random(m))
            log_l_min = -1.0
        else:              # generic cloud, continuous likelihood
            pts[:, pd] = rng.normal(rng.random(), 0.1, m) % 1.0
            log_l = rng.normal(0, 1, m)
            log_l_min = float(np.sort(log_l)[m // 4])
        pts = np.clip(pts, 0.0, np.nextafter(1.0, 0))
        info = {'seed': int(chk.seed), 'case': k, 'periodic': periodic, 'kind': kind, 'n_points': m, 'n_dim': d}
        try:
            with warnings.catch_warnings():
                warnings.simplefilter('ignore')
                b = NautilusBound.compute(pts, log_l, log_l_min, -5.0, n_networks=0, periodic=np.array(periodic), n_points_min=d + 4,
                                          rng=np.random.default_rng(k))
        except Exception as e:
            chk.fail('bound-with-periodic-raises:' + type(e).__name__, 'NautilusBound.compute with periodic=%r raised %s: %s' % (
                periodic, type(e).__name__, str(e)[:100]), {'input': info})
            continue
        sel = pts[log_l >= log_l_min]
        out = b.shift.transform(sel)
        n_eval += 1
        for dim in periodic:
            g = exact_max_gap([float(x) for x in sel[:, dim]])
            lo, hi = Fraction(float(np.min(out[:, dim]))), Fraction(float(np.max(out[:, dim])))
            tol = Fraction(8, 2 ** 53)
            if lo < g / 2 - tol or hi > 1 - g / 2 + tol:
                chk.fail('gap-not-across-boundary:bound', 'NautilusBound.compute(periodic=%r): after the bound\'s shift the largest empty gap of its '
                         'construction points (log_l >= log_l_min) in dimension %d is not across the boundary (gap %.3f, shifted range [%.3f, %.3f])' % (
                             periodic, dim, float(g), float(lo), float(hi)),
                         {'input': dict(info, points=[[float(x).hex() for x in r] for r in pts], log_l=[float(x).hex() for x in log_l],
                                        log_l_min=float(log_l_min).hex())})
                break
        for dim in range(d):
            if dim not in periodic and not np.array_equal(out[:, dim], sel[:, dim]):
                chk.fail('non-periodic-coordinate-changed:bound', 'the shift of a NautilusBound with periodic=%r modifies coordinate %d' % (periodic, dim),
                         {'input': info})
                break
    chk.extra['bound_level_cases'] = n_eval
    return n_eval


def run(chk):
    rng = np.random.default_rng(1600 + chk.seed)
    text, notes = gen_c16.generate(common.REPO)
    chk.extra['source_digest'] = common.source_digest(FILES)
    chk.extra['translator'] = notes
    if notes['untranslatable']:
        chk.notes.append('translator could not regenerate: %s' % notes['untranslatable'])
    chk.prove(MODULE, THEOREMS, {'NautilusVerif/Generated/C16.lean': text})
    if chk.tier == 'thorough':
        chk.leanchecker([m for m, _ in MODULE])
    nc, npc, ncl = (40, 120, 300) if chk.tier == 'quick' else (400, 400, 5000)
    dis_t = check_transform(chk, rng, nc, npc)
    dis_c = check_compute(chk, rng, ncl)
    dis_m = check_multi(chk, rng, 40 if chk.tier == 'quick' else 400)
    check_bound_level(chk, np.random.default_rng(1650 + chk.seed), 24 if chk.tier == 'quick' else 240)
    chk.cov['disagreements_checked'] = len(dis_t) + len(dis_c) + len(dis_m)
    if dis_m:
        keys = {f['key'] for f in chk.failing}
        chk.correspondence_broken('PhaseShift.transform (several periodic dimensions) vs Shift.F.shift1', dis_m[:10],
                                  accounted=bool(keys & {'round-trip', 'non-periodic-coordinate-changed',
                                                         'transform-leaves-cube:forward', 'transform-leaves-cube:inverse'}))
    chk.cov['traces_validated_against_impl'] = chk.cov['evaluations']
    chk.cov['rule'] = ('bit-exact differential of PhaseShift.transform (forward+inverse) and PhaseShift.compute '
                       'against the Dyadic model; inputs directed at the wrap position (c±0.5 mod 1 and ±1..3 ulp), '
                       '0, 1-ulp, subnormals, random; clouds random / wrapped / gridded with tied gaps. non-trivial = '
                       'transform input within 4 ulp of a wrap, or a cloud with tied maximal gaps / a single point')
    if dis_t:
        # every disagreement of the transform is traced to the property evaluated on the same input (done above);
        # it is accounted for iff the implementation output itself violates the range on that input
        acc = all(not (0.0 <= float.fromhex(d['impl']) < 1.0) for d in dis_t)
        chk.correspondence_broken('PhaseShift.transform vs Shift.F.shift1', dis_t[:10], accounted=acc)
    if dis_c:
        chk.correspondence_broken('PhaseShift.compute vs Shift.F.centre', dis_c[:10])
    chk.assumptions += [
        'IEEE-754 binary64 + and - are correctly rounded (round-to-nearest-even); fmod is exact (C standard)',
        'numpy implements float % as npy_remainder (fmod, then +b when signs differ)',
        'exact-arithmetic theorems (range, inverse, gap) are over Q; the float model covers range only',
    ]
    chk.trusted += ['harness/gen_c16.py (formula translator)', 'harness/c16.py (differential harness)',
                    'Dyadic model of binary64 (validated bit-exactly against numpy on this run)']


def replay(doc):
    """re-evaluate the property on the stored input against the current /repo"""
    inp = doc.get('input', {})
    if 'x' in inp:
        c = float.fromhex(inp['c'])
        x = float.fromhex(inp['x'])
        _, _, out = real_transform([c], [[x]], bool(inp['inverse']))
        y = float(out[0, 0])
        print('transform(c=%r, x=%r, inverse=%r) = %r' % (c, x, inp['inverse'], y))
        return not (0.0 <= y < 1.0)
    print('replay of this kind re-runs the check')
    return True
