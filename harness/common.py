"""Shared machinery of the checks: Lean build / audit / driver, verdict logic, evidence, findings."""
import fcntl
import hashlib
import json
import os
import re
import shutil
import subprocess
import sys
import tempfile
import time

VERIF = os.path.dirname(os.path.dirname(os.path.abspath(__file__)))
REPO = os.environ.get('NAUTILUS_REPO', '/repo')
LEAN = os.path.join(VERIF, 'lean')
ALLOWED_AXIOMS = {'propext', 'Classical.choice', 'Quot.sound'}
FORBIDDEN = re.compile(r'\b(sorry|admit|native_decide|bv_decide|implemented_by|unsafe)\b|^axiom\s|maxHeartbeats\s+0')

sys.path.insert(0, REPO)


def now():
    return time.time()


def sh(cmd, cwd=None, timeout=None, env=None, input=None):
    p = subprocess.run(cmd, cwd=cwd, timeout=timeout, env=env, input=input, stdout=subprocess.PIPE,
                       stderr=subprocess.STDOUT, text=True)
    return p.returncode, p.stdout


class LeanLock:
    """serialise lake invocations (concurrent checks share one .lake directory)"""

    def __enter__(self):
        os.makedirs(os.path.join(LEAN, '.lake'), exist_ok=True)
        self.f = open(os.path.join(LEAN, '.lake', 'verif.lock'), 'w')
        fcntl.flock(self.f, fcntl.LOCK_EX)
        return self

    def __exit__(self, *a):
        fcntl.flock(self.f, fcntl.LOCK_UN)
        self.f.close()


def write_if_changed(path, text):
    try:
        if open(path).read() == text:
            return False
    except OSError:
        pass
    os.makedirs(os.path.dirname(path), exist_ok=True)
    tmp = path + '.tmp%d' % os.getpid()
    with open(tmp, 'w') as f:
        f.write(text)
    os.replace(tmp, path)
    return True


def source_digest(files):
    h = hashlib.sha1()
    for f in sorted(files):
        h.update(f.encode())
        try:
            h.update(open(os.path.join(REPO, f), 'rb').read())
        except OSError:
            h.update(b'<missing>')
    return h.hexdigest()


# ----------------------------------------------------------------------------- Lean

def strip_comments(text):
    """remove Lean block comments (nested) and line comments"""
    out = []
    i = 0
    depth = 0
    n = len(text)
    while i < n:
        if text.startswith('/-', i):
            depth += 1
            i += 2
        elif depth and text.startswith('-/', i):
            depth -= 1
            i += 2
        elif depth:
            i += 1
        elif text.startswith('--', i):
            j = text.find('\n', i)
            i = n if j < 0 else j
        else:
            out.append(text[i])
            i += 1
    return ''.join(out)


def grep_forbidden(paths):
    hits = []
    for p in paths:
        try:
            t = strip_comments(open(p).read())
        except OSError:
            continue
        for ln, line in enumerate(t.split('\n'), 1):
            if FORBIDDEN.search(line):
                hits.append('%s:%d: %s' % (os.path.relpath(p, VERIF), ln, line.strip()[:120]))
    return hits


def module_deps(module, seen=None):
    """project-local transitive imports of a module (as file paths)"""
    seen = {} if seen is None else seen
    path = os.path.join(LEAN, module.replace('.', '/') + '.lean')
    if module in seen or not os.path.exists(path):
        return seen
    seen[module] = path
    for m in re.findall(r'^import\s+(NautilusVerif[\w.]*)', open(path).read(), re.M):
        module_deps(m, seen)
    return seen


def lake_build(targets, timeout=3000):
    with LeanLock():
        rc, out = sh(['lake', 'build'] + list(targets), cwd=LEAN, timeout=timeout)
    return rc == 0, out


def lean_run_file(path, timeout=1200):
    with LeanLock():
        rc, out = sh(['lake', 'env', 'lean', path], cwd=LEAN, timeout=timeout)
    return rc, out


def audit_axioms(module, theorems):
    """`#print axioms` for every statement of record.  Returns dict name -> list of axioms | None (missing)."""
    lines = ['import ' + module, 'open NautilusVerif']
    for t in theorems:
        lines.append('#print axioms ' + t)
    d = tempfile.mkdtemp(prefix='nvaudit')
    try:
        p = os.path.join(d, 'Audit.lean')
        open(p, 'w').write('\n'.join(lines) + '\n')
        rc, out = lean_run_file(p)
    finally:
        shutil.rmtree(d, ignore_errors=True)
    res = {t: None for t in theorems}
    # messages:  'X' depends on axioms: [a, b]   |  'X' does not depend on any axioms
    flat = re.sub(r'\s+', ' ', out)
    for t in theorems:
        short = re.escape(t)
        m = re.search(r"'(?:[\w.]*\.)?%s' depends on axioms: \[([^\]]*)\]" % short, flat)
        if m:
            res[t] = [a.strip() for a in m.group(1).split(',') if a.strip()]
            continue
        if re.search(r"'(?:[\w.]*\.)?%s' does not depend on any axioms" % short, flat):
            res[t] = []
    return res, out


_driver_built = False


def run_driver(lines, timeout=3000):
    """feed request lines to the Lean model driver (compiled from the Mathlib-free model files by `lake build
    nvdriver`; the same definitions the theorems are about); returns the reply lines"""
    global _driver_built
    if not _driver_built:
        ok, log = lake_build(['nvdriver'])
        if not ok:
            raise RuntimeError('driver build failed: ' + log[-2000:])
        _driver_built = True
    data = '\n'.join(lines) + '\n'
    exe = os.path.join(LEAN, '.lake', 'build', 'bin', 'nvdriver')
    p = subprocess.run([exe], cwd=LEAN, input=data, stdout=subprocess.PIPE, stderr=subprocess.PIPE, text=True,
                       timeout=timeout)
    if p.returncode != 0:
        raise RuntimeError('Lean driver failed: ' + p.stderr[-2000:] + p.stdout[-500:])
    out = p.stdout.split('\n')
    if out and out[-1] == '':
        out.pop()
    if len(out) != len(lines):
        raise RuntimeError('Lean driver returned %d lines for %d requests' % (len(out), len(lines)))
    return out


def run_driver_parallel(lines, nproc=16):
    """like run_driver, but one driver process per request, `nproc` at a time (for few, large requests)"""
    from concurrent.futures import ThreadPoolExecutor
    if not lines:
        return []
    run_driver(['centre 1 -1'])       # make sure the executable is built (serialised)
    with ThreadPoolExecutor(max_workers=nproc) as ex:
        return [r[0] for r in ex.map(lambda l: run_driver([l]), lines)]


def core_tie(names):
    """(module, [theorem]) pairs of the statement-level ties of the given transcribed methods (one module per method)"""
    return [('NautilusVerif.Properties.CoreTie.' + n[0].upper() + n[1:], ['Core_tie_' + n]) for n in names]


# ----------------------------------------------------------------------------- verdicts

class Check:
    """Collects what a run of one property's check found and turns it into exit code + evidence."""

    def __init__(self, pid, tier, seed):
        self.pid = pid
        self.tier = tier
        self.seed = seed
        self.t0 = now()
        self.obligations = []      # (theorem, status, axioms)
        self.accounted = set()
        self.broken = []           # names of theorems / correspondences that no longer check
        self.failing = []          # concrete failing inputs found on the implementation: dict(key=..., what=..., replay=...)
        self.cov = {'evaluations': 0, 'distinct_nontrivial': 0, 'samples': [], 'rule': '',
                    'traces_validated_against_impl': 0, 'disagreements_checked': 0}
        self.extra = {}
        self.assumptions = []
        self.trusted = ['Lean 4.33.0 kernel', 'Mathlib v4.33.0 (library lemmas, kernel-checked)']
        self.checker_cmd = ''
        self.notes = []
        self.infra_error = None

    # ---- proof side
    def prove(self, module, theorems, generated=None):
        """(re)generate, build the property module(s), audit axioms.
        `module`/`theorems`: one module with its statements of record, or a list of (module, theorems) pairs (each
        built and audited on its own, so that a broken tie module does not hide the model theorems).
        `generated`: dict relpath->text written before building."""
        for rel, text in (generated or {}).items():
            write_if_changed(os.path.join(LEAN, rel), text)
        groups = module if isinstance(module, list) else [(module, theorems)]
        self.checker_cmd = 'cd lean && lake build %s && lake env lean <audit: #print axioms for %d statements>' % (
            ' '.join(m for m, _ in groups), sum(len(t) for _, t in groups))
        axioms_seen = set()
        all_ok = True
        self.extra['build_ok'] = True
        for mod, ths in groups:
            ok, log = lake_build([mod])
            if not ok:
                all_ok = False
                self.extra['build_ok'] = False
                errs = [l for l in log.split('\n') if 'error' in l][:20]
                self.extra.setdefault('build_errors', []).extend(errs)
                self.notes.append('lake build %s failed: %s' % (mod, ' | '.join(errs[:5])))
            files = list(module_deps(mod).values())
            hits = grep_forbidden(files)
            if hits:
                self.broken.append('forbidden-construct: ' + '; '.join(hits[:5]))
            res, out = ({t: None for t in ths}, '') if not ok else audit_axioms(mod, ths)
            for t in ths:
                ax = res.get(t)
                if ax is None:
                    self.obligations.append((t, 'unproved', []))
                    self.broken.append('theorem ' + t)
                elif set(ax) - ALLOWED_AXIOMS:
                    self.obligations.append((t, 'bad-axioms', ax))
                    self.broken.append('theorem %s depends on %s' % (t, sorted(set(ax) - ALLOWED_AXIOMS)))
                else:
                    self.obligations.append((t, 'ok', ax))
                    axioms_seen |= set(ax)
        self.extra['axioms'] = sorted(axioms_seen)
        return all_ok and not self.broken

    def leanchecker(self, modules):
        with LeanLock():
            rc, out = sh(['lake', 'env', 'leanchecker'] + modules, cwd=LEAN, timeout=3000)
        self.extra['leanchecker'] = {'rc': rc, 'tail': out[-300:]}
        if rc != 0:
            self.broken.append('leanchecker ' + ' '.join(modules))
        return rc == 0

    # ---- correspondence side
    def count(self, n=1, nontrivial=0):
        self.cov['evaluations'] += n
        self.cov['distinct_nontrivial'] += nontrivial

    def sample(self, s, cap=6):
        if len(self.cov['samples']) < cap:
            self.cov['samples'].append(s)

    def correspondence_broken(self, name, detail=None, accounted=False):
        """model and implementation differ.  accounted=True: every disagreement has been traced to a
        concrete failing input registered with fail() (those then decide the verdict)."""
        self.broken.append('correspondence ' + name)
        if accounted:
            self.accounted.add('correspondence ' + name)
        if detail is not None:
            self.extra.setdefault('disagreements', []).append({'name': name, 'detail': detail})
            self.extra['disagreements'] = self.extra['disagreements'][:20]

    def fail(self, key, what, replay):
        """a concrete input on which the property fails on the real code"""
        self.failing.append({'key': key, 'what': what, 'replay': replay})

    # ---- end
    def finish(self):
        known = load_known()
        opened = [k for k in known if k.get('status') == 'open' and k.get('property') == self.pid]
        lines = []
        violations = 0
        os.makedirs(os.path.join(VERIF, 'replays', self.pid), exist_ok=True)
        reported_known = set()
        seen_keys = set()
        for f in self.failing:
            if f['key'] in seen_keys:       # one report per distinct failure key
                continue
            seen_keys.add(f['key'])
            match = None
            for k in opened:
                if re.search(k['match'], f['key']):
                    match = k
                    break
            if match is not None:
                if match['id'] not in reported_known:
                    reported_known.add(match['id'])
                    lines.append('KNOWN-FINDING: property=%s %s' % (self.pid, match['what']))
                continue
            violations += 1
            if violations <= 5:
                h = hashlib.sha1(json.dumps(f['replay'], sort_keys=True, default=str).encode()).hexdigest()[:12]
                path = os.path.join(VERIF, 'replays', self.pid, h + '.json')
                doc = {'property': self.pid, 'kind': 'property-failure', 'what': f['what'], 'key': f['key'],
                       'broken': self.broken, 'seed': self.seed, 'tier': self.tier}
                doc.update(f['replay'])
                with open(path, 'w') as fh:
                    json.dump(doc, fh, indent=1, default=str)
                lines.append('VIOLATION property=%s replay=%s' % (self.pid, os.path.relpath(path, VERIF)))
        # open findings that the search is expected to hit are only reported when hit; nothing to do otherwise
        unexplained = [b for b in self.broken if b not in self.accounted]
        if unexplained and violations == 0:
            h = hashlib.sha1(json.dumps(self.broken, sort_keys=True).encode()).hexdigest()[:12]
            path = os.path.join(VERIF, 'replays', self.pid, 'broken-' + h + '.json')
            with open(path, 'w') as fh:
                json.dump({'property': self.pid, 'kind': 'broken-obligation', 'broken': self.broken,
                           'notes': self.notes, 'extra': self.extra, 'seed': self.seed, 'tier': self.tier},
                          fh, indent=1, default=str)
            lines.append('VIOLATION property=%s replay=%s no-failing-input-found' % (
                self.pid, os.path.relpath(path, VERIF)))
            violations += 1
        self.write_evidence(violations)
        printed = set()
        for l in lines:
            if l not in printed:
                print(l)
                printed.add(l)
        sys.stdout.flush()
        if self.infra_error:
            print('INFRASTRUCTURE ERROR: ' + self.infra_error, file=sys.stderr)
            return 2
        return 1 if violations else 0

    def write_evidence(self, violations):
        n_ob = len(self.obligations)
        n_ok = sum(1 for o in self.obligations if o[1] == 'ok')
        cov = dict(self.cov)
        cov.update({
            'obligations': n_ob, 'discharged': n_ok,
            'checker_cmd': self.checker_cmd,
            'trusted_base': self.trusted + ['axioms: ' + ', '.join(self.extra.get('axioms', []) or ['none'])],
            'statements': [{'theorem': t, 'status': s, 'axioms': a} for t, s, a in self.obligations],
            'broken': self.broken,
        })
        cov.update({k: v for k, v in self.extra.items() if k not in cov})
        if not cov['samples']:
            cov['samples'] = [{'note': 'no correspondence cases were run'}]
        doc = {'property_id': self.pid, 'tier': self.tier, 'seed': self.seed, 'level': 'proof',
               'coverage': cov, 'assumptions': self.assumptions, 'wall_s': round(now() - self.t0, 2),
               'violations': violations, 'notes': self.notes}
        os.makedirs(os.path.join(VERIF, 'evidence'), exist_ok=True)
        p = os.path.join(VERIF, 'evidence', self.pid + '.json')
        with open(p + '.tmp', 'w') as fh:
            json.dump(doc, fh, indent=1, default=str)
        os.replace(p + '.tmp', p)


def load_known():
    try:
        return json.load(open(os.path.join(VERIF, 'known_findings.json')))['findings']
    except OSError:
        return []


class InfraTimeout(BaseException):
    """the wall-clock backstop of a time limit expired although the process had not used its CPU budget: the machine is
    overloaded or the process is blocked — an infrastructure problem (exit 2), never a finding"""


class time_limit:
    """context manager: raise TimeoutError in the main thread of this process once it has consumed `seconds` of *CPU time*
    (user + system, ITIMER_PROF) — a computation of the implementation that does not end becomes a reported finding instead of
    a check that never ends, and a loaded machine does not turn a slow run into a finding.  A process that blocks without
    using CPU is stopped by a wall-clock backstop after `wall_factor * seconds` with InfraTimeout (not a finding)."""

    def __init__(self, seconds, wall_factor=8):
        self.seconds = int(seconds)
        self.wall = int(seconds * wall_factor)

    def _fire(self, signum, frame):
        raise TimeoutError('no result after %d s of CPU time' % self.seconds)

    def _fire_wall(self, signum, frame):
        raise InfraTimeout('no result after %d s of wall-clock time (CPU budget of %d s not used up)' % (self.wall, self.seconds))

    def __enter__(self):
        import signal
        self.old = signal.signal(signal.SIGPROF, self._fire)
        self.old_alrm = signal.signal(signal.SIGALRM, self._fire_wall)
        signal.setitimer(signal.ITIMER_PROF, self.seconds, 5)      # fires again if the exception was swallowed
        signal.setitimer(signal.ITIMER_REAL, self.wall, 30)
        return self

    def __exit__(self, *exc):
        import signal
        signal.setitimer(signal.ITIMER_PROF, 0)
        signal.setitimer(signal.ITIMER_REAL, 0)
        signal.signal(signal.SIGPROF, self.old)
        signal.signal(signal.SIGALRM, self.old_alrm)
        return False


def pool_map(fn, jobs, nproc=None):
    """multiprocessing map (fork) whose workers turn an InfraTimeout into a value — a BaseException would kill the pool
    worker and leave `map` waiting for ever; the parent raises it as an infrastructure error (exit 2)"""
    import multiprocessing as mp
    with mp.get_context('fork').Pool(nproc or min(16, os.cpu_count() or 4)) as pool:
        res = pool.map(_Guarded(fn), jobs, chunksize=1)
    bad = [r for r in res if isinstance(r, dict) and '__infra__' in r]
    if bad:
        raise RuntimeError('infrastructure: %d of %d jobs ran out of wall-clock time: %s' % (len(bad), len(res), bad[0]['__infra__']))
    return res


class _Guarded:
    def __init__(self, fn):
        self.fn = fn

    def __call__(self, job):
        try:
            return self.fn(job)
        except InfraTimeout as e:
            return {'__infra__': str(e)}


def scratch_dir(prefix='nv'):
    base = os.environ.get('NAUTILUS_VERIF_SCRATCH') or tempfile.gettempdir()
    return tempfile.mkdtemp(prefix=prefix, dir=base)
