"""Regenerate /verif/MANIFEST.json from the table below (run after registering / changing a check)."""
import json
import os

VERIF = os.path.dirname(os.path.dirname(os.path.abspath(__file__)))

CHECKS = {
    'C16': dict(
        text='Lean 4 theorems: range / inverse / untouched coordinates / largest-gap placement over Q for all inputs; range '
             'in binary64 for every pair of doubles (Dyadic model with proven monotone round-to-nearest-even); formulas '
             'regenerated from periodic.py each run; bit-exact differential of PhaseShift.transform/compute vs the model.',
        note='Trusted: Lean kernel, axioms propext/Classical.choice/Quot.sound, harness/gen_c16.py, harness/c16.py; IEEE-754 '
             'correctly rounded + and -; numpy % = npy_remainder. Inverse and gap theorems are exact-arithmetic (the float '
             'round trip is only validated to 3 ulp by the harness).',
        tech='Lean 4 proof + AST formula translator + bit-exact differential', ref='DESIGN.md §3 C16'),
    'C15': dict(
        text='Lean 4 theorems over all declaration sequences: rejected declarations leave the prior unchanged, reachable priors '
             'are well-formed (distinct keys, collapsed links), dimensionality/physical/dictionary agree with a reference '
             'interpreter; model tied to prior.py by exhaustive bounded declaration words compared exactly.',
        note='Trusted: Lean kernel + standard axioms, harness/c15.py; scipy distributions are parameters (affine percent-point '
             'stubs); priors with zero free parameters are outside the domain (unit cube of dimension 0).',
        tech='Lean 4 proof + exhaustive differential of declaration words', ref='DESIGN.md §3 C15'),
    'C01': dict(
        text='Lean 4 theorem by induction over operations: in every state reachable by add_bound / add_samples (with transfers) / end of '
             'exploration / discard toggles, each stored sample is in the cube, in its own shell bound, outside all later bounds, stored once; '
             'model = line-by-line transcription of sampler.py bookkeeping (statement lists tied by rfl), replayed against real sampler histories op by op, across resumes; '
             'for every event sequence the model of run() accepts the phase hypothesis is discharged (C01_run): only soundness of proposals (C07) is assumed.',
        note='Trusted: Lean kernel + standard axioms; harness/corerec.py + corechecks.py (outside instrumentation, abstraction of the real state); numerics (bounds, networks, likelihood values) are oracles: theorems hold for every oracle answer subject to the stated hypotheses (WF = proposals fresh, in the cube and inside their bound, i.e. C07; PhaseOK/TPhase = phase discipline of run(), proved for every event sequence accepted by Model/Run.lean; the recorded events of real run() calls are checked for acceptance).', tech='Lean 4 proof (invariant induction, arbitrary geometry oracle) + observed-oracle replay', ref='DESIGN.md §3 C01'),
    'C02': dict(
        text='Lean 4 theorems: array alignment, cached counts = visible samples, counts <= proposals in both views, for every run-shaped '
             'history and every oracle (C02_run: for every event sequence of run() calls, no hypothesis); independent recomputation of log_z, n_eff, weights, shell volumes from the stored samples at every '
             'operation boundary of real histories (tolerance 1e-8).',
        note='Trusted: Lean kernel + standard axioms; harness/corerec.py + corechecks.py (outside instrumentation, abstraction of the real state); numerics (bounds, networks, likelihood values) are oracles: theorems hold for every oracle answer subject to the stated hypotheses (WF = proposals fresh, in the cube and inside their bound, i.e. C07; PhaseOK/TPhase = phase discipline of run(), proved for every event sequence accepted by Model/Run.lean; the recorded events of real run() calls are checked for acceptance).', tech='Lean 4 proof (counting invariants) + replay + independent estimator recomputation', ref='DESIGN.md §3 C02'),
    'C03': dict(
        text='Lean 4 theorems: the three per-shell arrays stay aligned through every operation (no hypothesis), posterior rows are '
             '(p, L(p), blob(p)) triples in storage order, each evaluation at most once; model of evaluate_likelihood: scalar, vectorised and pooled evaluation (any '
             'completion order) return the same results in proposal order and never alter the rows handed in (copy before the prior transform); replay over evaluation modes with an instrumented '
             'likelihood whose call log every returned row is checked against.',
        note='Trusted: Lean kernel + standard axioms; harness/corerec.py + corechecks.py (outside instrumentation, abstraction of the real state); numerics (bounds, networks, likelihood values) are oracles: theorems hold for every oracle answer subject to the stated hypotheses (WF = proposals fresh, in the cube and inside their bound, i.e. C07; PhaseOK/TPhase = phase discipline of run(), proved for every event sequence accepted by Model/Run.lean; the recorded events of real run() calls are checked for acceptance).', tech='Lean 4 proof (alignment refinement parallel arrays -> rows) + replay with instrumented likelihood', ref='DESIGN.md §3 C03'),
    'C04': dict(
        text='Lean 4 theorems on a finite uniform space: shells partition the cube; every shell term, hence the evidence estimator, the '
             'posterior numerators and the summed shell volumes are unbiased for any bounds, any likelihood, any numbers of proposals '
             '(exploration discarded; with exploration kept only conditionally on the bounds). Partial: float rounding, PRNG quality, '
             'Monte-Carlo error of bound volumes and convergence are validated by seed ensembles on closed-form problems (Student-t tests '
             'across seeds at family-wise alpha 1e-9), not proved.',
        note='Trusted: Lean kernel + standard axioms; harness/c04.py (closed-form evidences, statistics); the composition with C01 (partition), '
             'C02 (estimator form) and C08 (uniform proposals) is by statement, not by a single end-to-end theorem. Power of the quick '
             'ensemble (16 seeds/family) is low (offsets of several reported sigma); the thorough ensemble (160 seeds) resolves ~1.5 % in Z.',
        tech='Lean 4 proof (finite-space unbiasedness), partial; seed-ensemble statistical validation', ref='DESIGN.md §3 C04'),
    'C05': dict(
        text='Lean 4 theorems: loop-slice laws for the run() loop as iteration of a deterministic step (slices, chains of limits, stop after any '
             'number of batches, idempotence) + `decide` theorems over persistence tables regenerated from sampler.py (incremental update covers '
             'every field a batch or a discard switch mutates; resume restores every field run() mutates; full write follows every bound '
             'insertion/end of exploration; the class of every stored bound is restored by tag dispatch, tied to the readers of the resume block); at every write event of real runs the file equals a full write of the in-memory state; resumes from '
             'batch boundaries are finished and compared bit-for-bit incl. the set of evaluated points.',
        note='Trusted: Lean kernel + propext/Quot.sound; harness/gen_c05.py (AST extraction of key lists, mutated-attribute closures, run skeleton); '
             'harness/c05.py; determinism of numpy/sklearn across processes; the step of the Loop model is not derived from the code (its '
             'determinism is what the bit-identical resumes sample).',
        tech='Lean 4 proof (loop-slice laws + decide over generated persistence tables) + file-vs-memory diff at every write + resume differential', ref='DESIGN.md §3 C05'),
    'C06': dict(
        text='Lean 4 theorem on an inode-level system-call model: for every trace respecting the atomic-writer discipline, every crash '
             'prefix leaves the checkpoint path existing with exactly the content it had when last completed/moved into place (alphabet: open, mutate, close, '
             'unlink, rename, link); exact '
             'classifier for arbitrary traces. Real checkpointed runs are traced with strace, every system call on the checkpoint and its '
             'temporary sibling is a crash point decided by the model on the observed trace, and real SIGKILL experiments (strace fault '
             'injection at the k-th call) open, compare and resume the file left behind.',
        note='Trusted: Lean kernel + standard axioms; harness/c06.py (strace parsing and abstraction to the Sys alphabet), strace completeness '
             'for the traced set; POSIX rename atomicity; completed writes survive a process kill (no power-loss durability claimed); '
             'HDF5 does not write through writable shared mmaps.',
        tech='Lean 4 proof (invariant over system-call traces) + strace trace classification + SIGKILL fault injection', ref='DESIGN.md §3 C06'),
    'C07': dict(
        text='Lean 4 theorems: for every bound expression (cube, ellipsoid, mixture, union, neural, nautilus; nested; shifted) every point '
             'some execution of sample can return satisfies contains (structural induction over a mutually inductive sample relation), '
             'cube restriction, inner subset outer, union enclosure under regrouping; leaf laws over the reals (sampling radius u^(1/d) < 1, '
             'frame round trip, rescale+enlarge encloses construction points). Partial: exact real arithmetic; float boundary effects '
             '(few-ulp) are not covered. Formulas regenerated from basic.py; composite contains of real bounds compared with the Lean '
             'composition of their leaf answers on >500k probe points; sample-in-contains / enclosure / inner-outer evaluated directly.',
        note='Trusted: Lean kernel + standard axioms; harness/gen_c07.py, harness/c07.py (leaf extraction); hypotheses: phase shift undone by '
             'its inverse on sampled points (C16, exact arithmetic), normal draws non-zero, uniform draws in [0,1); MVEE/cholesky/inverse '
             'numerics are not verified (B Binv = 1 and B B^T = A^-1 are hypotheses).',
        tech='Lean 4 proof (structural induction on bound expressions + real-analysis leaf laws), partial: exact arithmetic; structural replay', ref='DESIGN.md §3 C07'),
    'C08': dict(
        text='Lean 4 theorems on a finite uniform space: the proposal scheme of Union.sample (member proportional to volume, uniform in the '
             'member, reject outside the cube, accept with probability 1/multiplicity) returns every cell of the accepted region with equal '
             'probability and its volume estimator is calibrated; nested network rejection; pool counters merge; Lebesgue measure of the '
             'acceptance test (1/m) and of the radius law (t^d); closed-form ellipsoid volume = |det B| x volume of the unit ball (Mathlib). '
             'Partial: that the float/PRNG implementation realises the scheme is validated statistically (two-sample z tests per overlap '
             'signature and grid cell, volume calibration, family-wise alpha 1e-9), not proved. Threshold, weights, volume expressions and '
             'loop bodies are regenerated from union.py / nautilus.py every run (rfl ties). SampleBuf model of the two-level proposal cache (Union.sample, serial loop, '
             'pool branch and merge, hand-out): the counters of both levels are exact after any call sequence (proved); real bounds, incl. their pool workers, are '
             'recorded and replayed through the model; Union.sample is compared with the proven scheme re-implemented from the member primitives.',
        note='Trusted: Lean kernel + standard axioms; harness/gen_c08.py, gen_c07.py; numpy Generator primitives have their documented laws; '
             'scipy.stats.norm for thresholds. The scheme theorems do not derive the code: the tie is syntactic (loop bodies, formulas) plus the '
             'statistical validation.',
        tech='Lean 4 proof (finite-space uniformity/calibration + Lebesgue laws), partial; AST formula/loop translator; statistical validation', ref='DESIGN.md §3 C08'),
    'C09': dict(
        text='Lean 4 `decide` theorems over persistence tables regenerated from write/read/update of every bound class (all classes x '
             'all guard valuations): read assigns every attribute the behavioural methods use, from the key and under the guard write '
             'stored it with; update covers what sample mutates; real round trips of every class x options x histories compared '
             'bit-exactly (contains on 12k points, log_v, sample streams under a cloned generator, update vs write, rewrite idempotence).',
        note='Trusted: Lean kernel (decide, no axioms), harness/gen_c09.py (AST table extraction incl. its guard-correspondence table), '
             'harness/c09.py; h5py/HDF5 return stored bytes; NeuralNetworkEmulator persistence is dynamic (network.__dict__) and covered '
             'only by the round-trip runs.',
        tech='Lean 4 proof by decide over generated finite tables + bit-exact write/read round trips', ref='DESIGN.md §3 C09'),
    'C10': dict(
        text='Lean 4 theorems: a successful step evaluates exactly n_batch proposed points and adds exactly that to the counter, nothing '
             'else moves the counter, evaluated points are in the cube; on the model of run() (acceptor of its event sequences, every state-decided branch '
             'evaluated): no batch at or beyond n_like_max, counter < n_like_max + n_batch, return value = explored and all shells >= n_shell and n_eff test, '
             'the sampling phase fills the first shell below n_shell; real histories sliced by n_like_max from 0 upward check counter = '
             'logged calls, one batch per step, budget and return value.',
        note='Trusted: Lean kernel + standard axioms; harness/corerec.py + corechecks.py (outside instrumentation, abstraction of the real state); numerics (bounds, networks, likelihood values) are oracles: theorems hold for every oracle answer subject to the stated hypotheses (WF = proposals fresh, in the cube and inside their bound, i.e. C07; PhaseOK/TPhase = phase discipline of run(), proved for every event sequence accepted by Model/Run.lean; the recorded events of real run() calls are checked for acceptance).', tech='Lean 4 proof (per-step accounting) + replay with call-logging likelihood', ref='DESIGN.md §3 C10'),
    'C11': dict(
        text='Lean 4 theorems: for every completion schedule of an abstract pool, gathering results by task index equals map (so pooled, '
             'scalar and vectorised evaluation are the same function of the batch); `decide` theorems over effect tables regenerated from '
             'sampler.py / pool.py / bounds: every read-only accessor, the checkpoint writers and the bound methods they reach assign no '
             'attribute and draw no random number (transitively); pool.map is an ordered map; one generator from the seed. Partial: the OS '
             'scheduler and multiprocessing are not modelled. Paired real runs (same seed twice, vectorised, pools of 2/3 workers with '
             'scrambled completion, verbose, checkpoint file, accessor calls around every batch) compared bit-for-bit.',
        note='Trusted: Lean kernel + standard axioms; harness/gen_c11.py (AST effect closure; aliasing through locals is not tracked), '
             'harness/c11.py; multiprocessing.Pool.map returns results in input order; identical numpy calls give identical floats.',
        tech='Lean 4 proof (schedule-independence of gather; decide over generated effect tables), partial; paired bit-identical runs', ref='DESIGN.md §3 C11'),
    'C12': dict(
        text='Lean 4 theorems: explored is monotone, sampling-phase operations freeze the bounds and only append (prefix relation on all '
             'three arrays), shells non-empty after exploration, the discard setter touches only derived counts, shows exactly the '
             'post-exploration rows, and off-on-off restores the state exactly; C12_run_frozen: once explored, every continuation the model of run() accepts '
             '(any calls, limits, toggles) keeps the bounds frozen and only appends; replay with toggles, resumes and bit-level snapshots.',
        note='Trusted: Lean kernel + standard axioms; harness/corerec.py + corechecks.py (outside instrumentation, abstraction of the real state); numerics (bounds, networks, likelihood values) are oracles: theorems hold for every oracle answer subject to the stated hypotheses (WF = proposals fresh, in the cube and inside their bound, i.e. C07; PhaseOK/TPhase = phase discipline of run(), proved for every event sequence accepted by Model/Run.lean; the recorded events of real run() calls are checked for acceptance).', tech='Lean 4 proof (phase/prefix invariants, setter algebra) + replay with toggles', ref='DESIGN.md §3 C12'),
    'C13': dict(
        text='Lean 4 theorems over all operation sequences and all oracle answers: the four per-ellipsoid records stay aligned '
             'and consistent, split members have >= n_points_min points, points are conserved (minus trimmed members), a '
             'successful split never increases summed volume, refused operations change nothing but flags, no operation '
             'raises; model tied to union.py by exhaustive operation words replayed on real Union objects with observed oracles.',
        note='Trusted: Lean kernel + standard axioms, harness/c13.py (outside instrumentation); GaussianMixture / MVEE / overlap '
             'test / densities are oracles (theorems hold for every answer); volume clause assumes the float comparison '
             'logsumexp(new) > old agrees with the exact one.',
        tech='Lean 4 proof (invariant induction over ops, all oracles) + exhaustive observed-oracle replay', ref='DESIGN.md §3 C13'),
    'C14': dict(
        text='Lean 4 theorems: multiplicity is floor(r) or floor(r)+1, up-rounding iff u < fract r, Lebesgue and finite-grid '
             'expectation exactly r, no duplicates for boost<=1, zero weights dropped, order/alignment of repeated rows, equal '
             'normalised weights; formulas and block structure regenerated from Sampler.posterior; scripted-generator differential.',
        note='Trusted: Lean kernel + standard axioms, harness/gen_c14.py, harness/c14.py; Generator.random is uniform on k/2^53; '
             'all-weights-zero input excluded (amax = -inf).',
        tech='Lean 4 proof + AST translator + scripted-RNG exact differential', ref='DESIGN.md §3 C14'),
}

READY = ['C01', 'C02', 'C03', 'C04', 'C05', 'C06', 'C07', 'C08', 'C09', 'C10', 'C11', 'C12', 'C13', 'C14', 'C15', 'C16']

PENDING_REASON = 'check under construction in this build round; not yet registered (see DESIGN.md §6 build order)'


def main():
    props = [json.loads(l)['id'] for l in open(os.path.join(VERIF, 'properties.jsonl'))]
    m = {
        'version': 1,
        'setup_cmd': './bin/setup',
        'hooks': {'guard': 'NAUTILUS_VERIF',
                  'enable': 'no hooks: checks import /repo in-process and observe the public classes from outside '
                            '(scripted RNG, class wrappers, strace)',
                  'baseline_off_cmd': 'cd /repo && /venv/bin/python -m pytest -ra -q -p no:cacheprovider --timeout=900 '
                                      '--continue-on-collection-errors',
                  'source_commits': [], 'add_only': True},
        'engines': [{'name': 'lean4-proof+correspondence', 'path': 'bin/check', 'serves_properties': sorted(READY),
                     'kind_free_text': 'Lean 4 theorems about executable models; models tied to /repo by an AST translator '
                                       '(lean/NautilusVerif/Generated/*.lean, regenerated every run) and by differential '
                                       'runs of the Lean model driver against the implementation'}],
        'checks': [], 'not_applicable': [], 'notes': 'see DESIGN.md; known_findings.json lists fixed / open defects',
    }
    for pid in props:
        if pid in CHECKS and pid in READY:
            c = CHECKS[pid]
            m['checks'].append({
                'property_id': pid, 'quick_cmd': './bin/check %s quick' % pid,
                'thorough_cmd': './bin/check %s thorough' % pid, 'evidence_file': 'evidence/%s.json' % pid,
                'replay_cmd_template': './bin/check %s --replay {path}' % pid, 'engine': 'lean4-proof+correspondence',
                'level_claimed': {'category': c.get('cat', 'proof'), 'text': c['text'], 'design_ref': c['ref']},
                'level_note': c['note'], 'technique': c['tech']})
        else:
            m['not_applicable'].append({'property_id': pid, 'reason': PENDING_REASON})
    json.dump(m, open(os.path.join(VERIF, 'MANIFEST.json'), 'w'), indent=1)
    print('registered:', sorted(READY))


if __name__ == '__main__':
    main()
