"""Entry point:  check.py <id> quick|thorough   |   check.py <id> --replay <file>"""
import importlib
import json
import os
import sys
import traceback

sys.path.insert(0, os.path.dirname(os.path.abspath(__file__)))
import common  # noqa: E402


def main(argv):
    if len(argv) < 3:
        print(__doc__)
        return 2
    pid = argv[1].upper()
    mod = importlib.import_module(pid.lower())
    if argv[2] == '--replay':
        doc = json.load(open(argv[3] if os.path.isabs(argv[3]) else os.path.join(common.VERIF, argv[3])))
        still = mod.replay(doc)
        if still:
            print('VIOLATION property=%s replay=%s' % (pid, argv[3]))
            return 1
        print('replay: property holds on this input now')
        return 0
    tier = argv[2]
    if tier not in ('quick', 'thorough'):
        print(__doc__)
        return 2
    seed = int(os.environ.get('VERIF_SEED', '0') or 0)
    chk = common.Check(pid, tier, seed)
    try:
        mod.run(chk)
    except (Exception, common.InfraTimeout):
        chk.infra_error = traceback.format_exc()
        chk.notes.append('infrastructure error: ' + chk.infra_error[-1500:])
        try:
            chk.write_evidence(0)
        except Exception:
            pass
        print(chk.infra_error, file=sys.stderr)
        return 2
    return chk.finish()


if __name__ == '__main__':
    sys.exit(main(sys.argv))
