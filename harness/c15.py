"""C15 — the prior maps the unit cube to parameters as declared.

proof:            lean/NautilusVerif/Properties/C15.lean
tie (correspondence X): every declaration word up to a bounded length (plus longer random words) through the
                  real `Prior` and through the Lean model (`PriorModel.add`), comparing outcome class, the state
                  left behind (also after rejections), dimensionality, unit_to_physical, unit_to_dictionary exactly.
search:           the property itself evaluated on the real object after every call.
"""
import copy
import itertools
import numbers
from fractions import Fraction

import numpy as np

import common

THEOREMS = ['C15_atomic', 'C15_wf', 'C15_dim', 'C15_physical', 'C15_physical_rejects', 'C15_dict',
            'C15_link_value', 'C15_rejects', 'C15_no_other_exception', 'C15_uniform',
            'C15_legacy_not_atomic', 'C15_legacy_autokey_collision', 'C15_legacy_indexError']
MODULE = 'NautilusVerif.Properties.C15'
FILES = ['nautilus/prior.py']


class Stub:
    """stand-in for a scipy distribution: percent-point function u -> a + b*u, so isf(q) = a + b*(1-q)"""

    def __init__(self, a, b):
        self.a, self.b = a, b

    def isf(self, q):
        return self.a + self.b * (1 - q)


def _scipy_uniform(*a, **k):
    from scipy import stats
    return stats.uniform(*a, **k)


KEYS = {'auto': None, 's=a': 'a', 's=b': 'b', 's=x_1': 'x_1', 's=x_0': 'x_0', 'nonstr': 1.0}
DISTS = {'r=0,2': (0, 2), 'r=-1,1': (-1.0, 1.0), 'i=3,2': Stub(3, 2), 'n=3/2': 1.5, 'n=2': 2, 'l=a': 'a', 'l=b': 'b',
         'l=x_0': 'x_0', 'l=x_1': 'x_1', 'o': [0.0],
         # fixed values of numpy scalar types (elements of arrays): numbers like any other; the model sees `n=<value>`
         'n=7': np.int64(7), 'n=5/2': np.float32(2.5), 'n=1/4': np.float64(0.25),
         # frozen scipy distributions whose arguments were passed positionally / half positionally (the model sees `i=<loc>,<scale>`)
         'i=2,3': _scipy_uniform(2, 3), 'i=-4,8': _scipy_uniform(-4, scale=8)}
SMALL_KEYS = ['auto', 's=a', 's=x_1', 'nonstr']
SMALL_DISTS = ['r=0,2', 'n=3/2', 'l=a', 'l=x_1', 'l=x_0', 'o']


def loc_scale(d):
    """(loc, scale) of a frozen scipy distribution of the location-scale family, however the arguments were passed"""
    args = list(getattr(d, 'args', ()))
    kw = getattr(d, 'kwds', {})
    return kw.get('loc', args[0] if len(args) > 0 else 0.0), kw.get('scale', args[1] if len(args) > 1 else 1.0)


def to_frac(x):
    if isinstance(x, Fraction):
        return x
    if isinstance(x, numbers.Integral):
        return Fraction(int(x))
    return Fraction(float(x))


def frac_str(f):
    f = to_frac(f)
    return str(f.numerator) if f.denominator == 1 else '%d/%d' % (f.numerator, f.denominator)


def dist_repr(d):
    if isinstance(d, str):
        return 'link(%s)' % d
    if isinstance(d, numbers.Number):
        return 'fixed(%s)' % frac_str(d)
    if isinstance(d, Stub):
        return 'free(%s,%s)' % (frac_str(d.a), frac_str(d.b))
    if hasattr(d, 'kwds') and hasattr(d, 'isf'):
        return 'free(%s,%s)' % tuple(frac_str(x) for x in loc_scale(d))
    return 'unknown(%r)' % (d,)


def state_repr(p):
    return 'keys=' + ','.join(map(str, p.keys)) + ' dists=' + ','.join(dist_repr(d) for d in p.dists)


def is_free(d):
    return hasattr(d, 'isf')


def ppf(d, u):
    if isinstance(d, Stub):
        return Fraction(d.a) + Fraction(d.b) * u
    loc, scale = loc_scale(d)
    return Fraction(loc) + Fraction(scale) * u


def apply_word(word, interleave=False):
    """run a word on the real Prior; returns (prior, outcomes, property failures).  With `interleave` the prior is used (both
    transforms) after every declaration, as a program that extends a prior it has already evaluated does."""
    from nautilus.prior import Prior
    p = Prior()
    outs, fails = [], []
    for letter in word:
        if interleave and len(p.keys) == len(p.dists):
            n_free = sum(1 for d in p.dists if is_free(d))
            if n_free >= 1:
                try:
                    u = np.full(n_free, 0.375)
                    p.unit_to_physical(u)
                    p.unit_to_dictionary(u)
                except Exception:
                    pass
        k, d = letter.split(':')
        before = (list(p.keys), list(p.dists))
        try:
            p.add_parameter(KEYS[k], dist=DISTS[d]) if k != 'auto' else p.add_parameter(dist=DISTS[d])
            outs.append('ok')
        except TypeError:
            outs.append('TypeError')
        except ValueError:
            outs.append('ValueError')
        except Exception as e:   # any other class is itself a violation of the property
            outs.append(type(e).__name__)
            fails.append(('rejected-with-other-exception:' + type(e).__name__,
                          'add_parameter(%s) raised %s instead of ValueError/TypeError' % (letter, type(e).__name__)))
        if outs[-1] != 'ok' and (list(p.keys), list(p.dists)) != before:
            fails.append(('rejected-declaration-mutates-prior',
                          'add_parameter(%s) raised %s but left keys=%r (before %r), %d dists (before %d)' % (
                              letter, outs[-1], p.keys, before[0], len(p.dists), len(before[1]))))
        if len(set(p.keys)) != len(p.keys):
            fails.append(('duplicate-key-accepted', 'after %s the key list is %r' % (letter, p.keys)))
        if outs[-1] == 'ok' and len(p.keys) != len(p.dists):
            fails.append(('keys-dists-misaligned', 'after %s: %d keys, %d dists' % (letter, len(p.keys), len(p.dists))))
    return p, outs, fails


def spec_values(p, u):
    """reference interpreter working directly on the real object's declaration list"""
    vals = {}
    i = 0
    for k, d in zip(p.keys, p.dists):
        if is_free(d):
            vals[k] = ppf(d, u[i])
            i += 1
        elif isinstance(d, numbers.Number):
            vals[k] = to_frac(d)
    for k, d in zip(p.keys, p.dists):
        if isinstance(d, str):
            t = d
            seen = 0
            while t in p.keys and isinstance(p.dists[p.keys.index(t)], str) and seen < 50:
                t = p.dists[p.keys.index(t)]
                seen += 1
            vals[k] = vals.get(t) if t in p.keys else 'undeclared:' + str(t)
    return vals


def transforms(p, us):
    """real transforms on a (d,) input; returns ('phys=..', 'dict=..', failures)"""
    fails = []
    arr = np.array([float(x) for x in us], dtype=float)
    arr0 = arr.copy()
    try:
        phys = p.unit_to_physical(arr)
        phys_s = ','.join(frac_str(float(x)) for x in np.atleast_1d(phys))
    except ValueError:
        phys, phys_s = None, '!ValueError'
    except Exception as e:
        phys, phys_s = None, '!' + type(e).__name__
    try:
        dic = p.unit_to_dictionary(arr)
        dic_s = ','.join('%s=%s' % (k, frac_str(float(v))) for k, v in dic.items())
    except ValueError:
        dic, dic_s = None, '!ValueError'
    except Exception as e:
        dic, dic_s = None, '!' + type(e).__name__
    if not np.array_equal(arr, arr0):
        fails.append(('transform-mutates-input', 'unit_to_physical/unit_to_dictionary changed its argument'))
    n_free = sum(1 for d in p.dists if is_free(d))
    wf = len(set(p.keys)) == len(p.keys) and len(p.keys) == len(p.dists)
    if wf and len(us) == n_free and n_free >= 1:   # zero free parameters: no unit cube (excluded, see DESIGN C15)
        if p.dimensionality() != n_free:
            fails.append(('dimensionality-wrong', 'dimensionality()=%d but %d free parameters' % (p.dimensionality(), n_free)))
        want = spec_values(p, us)
        for k, v in list(want.items()):
            if isinstance(v, str):
                fails.append(('link-to-undeclared-key-accepted', 'key %s is linked to %s, which is not a declared key (prior %s)' % (
                    k, v.split(':', 1)[1], state_repr(p))))
                want[k] = None
        if dic is None:
            fails.append(('dictionary-raises', 'unit_to_dictionary raised %s on a well-formed prior %s' % (dic_s, state_repr(p))))
        else:
            if sorted(dic.keys()) != sorted(p.keys):
                fails.append(('dictionary-keys-wrong', 'dictionary keys %r, declared %r' % (list(dic.keys()), p.keys)))
            for k in p.keys:
                if k in dic and want.get(k) is not None and Fraction(float(np.asarray(dic[k]))) != want[k]:
                    fails.append(('dictionary-value-wrong', 'key %s = %r, declared value %s (prior %s, u=%s)' % (
                        k, float(np.asarray(dic[k])), want[k], state_repr(p), list(map(str, us)))))
        if phys is None:
            fails.append(('physical-raises', 'unit_to_physical raised %s' % phys_s))
        else:
            frees = [d for d in p.dists if is_free(d)]
            exp = [ppf(d, x) for d, x in zip(frees, us)]
            got = [Fraction(float(x)) for x in np.atleast_1d(phys)]
            if got != exp:
                fails.append(('physical-value-wrong', 'unit_to_physical=%r expected %r' % (got, exp)))
        # (n, d) input must be the row-wise map of the (d,) case
        if n_free > 0:
            rows = np.array([[float(x) for x in us], [float(Fraction(1, 2)) for _ in us]])
            try:
                ph2 = p.unit_to_physical(rows)
                d2 = p.unit_to_dictionary(rows)
                ph_b = p.unit_to_physical(rows[1])
                d_b = p.unit_to_dictionary(rows[1])
                ok = (ph2.shape == rows.shape and phys is not None and np.array_equal(ph2[0], phys)
                      and np.array_equal(ph2[1], ph_b) and dic is not None
                      and all(np.array_equal(np.asarray(d2[k])[0] if np.ndim(d2[k]) else d2[k], dic[k]) and
                              np.array_equal(np.asarray(d2[k])[1] if np.ndim(d2[k]) else d2[k], d_b[k])
                              for k in dic))
                if not ok:
                    fails.append(('rows-not-rowwise', '(n,d) input is not the row-wise map of the (d,) case for %s' % state_repr(p)))
                # shape-preserving also for a batch of a single row: (1, d) in, (1, d) out, dictionary values of shape (1,)
                one = rows[:1]
                ph1 = p.unit_to_physical(one)
                d1 = p.unit_to_dictionary(one)
                if np.shape(ph1) != one.shape or not np.array_equal(np.asarray(ph1)[0], phys) or \
                        any(np.shape(d1[k]) != (1,) for k in d1 if is_free(p.dists[p.keys.index(k)])):
                    fails.append(('single-row-batch-loses-its-axis', 'input of shape %r gives unit_to_physical of shape %r and dictionary values of shapes %r (%s)' % (
                        one.shape, np.shape(ph1), sorted(set(np.shape(v) for v in d1.values())), state_repr(p))))
            except Exception as e:
                fails.append(('rows-raise', '(n,d) input raised %s for %s' % (type(e).__name__, state_repr(p))))
    elif wf and len(us) != n_free:
        if phys_s != '!ValueError':
            fails.append(('wrong-length-accepted', 'unit_to_physical accepted %d coordinates for %d free parameters' % (len(us), n_free)))
    return 'phys=' + phys_s, 'dict=' + dic_s, fails


def words(chk, rng):
    small = [k + ':' + d for k in SMALL_KEYS for d in SMALL_DISTS]
    full = [k + ':' + d for k in KEYS for d in DISTS]
    depth = 3 if chk.tier == 'quick' else 4
    out = []
    for L in range(1, depth + 1):
        out.extend(itertools.product(small, repeat=L))
    for L in (1, 2):
        out.extend(itertools.product(full, repeat=L))
    n_rand = 4000 if chk.tier == 'quick' else 60000
    for _ in range(n_rand):
        L = int(rng.integers(3, 8))
        # bias towards successful declarations so that long, valid priors with chains of links occur
        w = []
        for _ in range(L):
            if rng.random() < 0.6:
                k = ['auto', 's=a', 's=b', 's=x_1', 's=x_0'][int(rng.integers(0, 5))]
                d = ['r=0,2', 'r=-1,1', 'i=3,2', 'n=3/2', 'n=2', 'l=a', 'l=b', 'l=x_0', 'l=x_1', 'n=7', 'n=5/2', 'n=1/4', 'i=2,3', 'i=-4,8'][int(rng.integers(0, 14))]
                w.append(k + ':' + d)
            else:
                w.append(full[int(rng.integers(0, len(full)))])
        out.append(tuple(w))
    chk.extra['exhaustive_alphabet'] = small
    chk.extra['exhaustive_depth'] = depth
    chk.extra['random_words'] = n_rand
    return out


def run(chk):
    rng = np.random.default_rng(1500 + chk.seed)
    chk.extra['source_digest'] = common.source_digest(FILES)
    chk.prove([(MODULE, THEOREMS), *common.core_tie(['priorAddParameter', 'priorDimensionality', 'priorUnitToPhysical', 'priorPhysicalToDictionary', 'priorUnitToDictionary'])], None, {'NautilusVerif/Generated/CoreSrc.lean': __import__('gen_core').generate(common.REPO)[0]})
    if chk.tier == 'thorough':
        chk.leanchecker([MODULE])
    ws = words(chk, rng)
    reqs, impl = [], []
    kinds = {}
    distinct_states = set()
    nontrivial = 0
    for wi, w in enumerate(ws):
        p, outs, fails = apply_word(w, interleave=bool(wi % 2))
        n_free = sum(1 for d in p.dists if is_free(d))
        us = [Fraction(int(rng.integers(0, 8)), 8) for _ in range(n_free)]
        wrong = rng.random() < 0.1
        if wrong:
            us = us + [Fraction(1, 4)]
        phys_s, dic_s, f2 = transforms(p, us)
        for key, what in fails + f2:
            chk.fail(key, what, {'input': {'word': list(w), 'u': [str(x) for x in us], 'interleave': bool(wi % 2)}})
        for o in outs:
            kinds[o] = kinds.get(o, 0) + 1
        st = state_repr(p)
        has_link = any(isinstance(d, str) for d in p.dists)
        if st not in distinct_states and has_link and any(o != 'ok' for o in outs):
            nontrivial += 1
        distinct_states.add(st)
        impl.append('%s ; %s ; dim=%d ; %s ; %s' % (','.join(outs), st, _dim(p), phys_s, dic_s))
        reqs.append('prior fixed ' + ' '.join(w) + ' u=' + ','.join(frac_str(x) for x in us))
    replies = common.run_driver(reqs)
    dis = []
    for w, a, b in zip(ws, impl, replies):
        if canon(a) != canon(b):
            dis.append({'word': list(w), 'impl': a, 'model': b})
    chk.count(len(ws), nontrivial)
    chk.cov['exhaustive'] = False
    chk.cov['traces_validated_against_impl'] = len(ws)
    chk.cov['disagreements_checked'] = len(dis)
    chk.extra['outcome_kinds'] = kinds
    chk.extra['distinct_final_states'] = len(distinct_states)
    chk.cov['rule'] = ('all declaration words of length <= %d over a %d-letter alphabet (key in {None,a,x_1,1.0} x dist in '
                       '{(0,2),1.5,link a,link x_1,link x_0,[0.0]}), all words of length <= 2 over the full alphabet (6 keys x 15 distributions incl. positional scipy uniforms), '
                       'plus random words of length 3-7 biased to valid declarations; non-trivial = distinct final state '
                       'containing a link, reached by a word with at least one rejected declaration'
                       % (chk.extra['exhaustive_depth'], len(chk.extra['exhaustive_alphabet'])))
    for w, a in list(zip(ws, impl))[-3:]:
        chk.sample({'word': list(w), 'impl': a})
    if dis:
        # accounted for iff every disagreeing word also produced a concrete property failure on the real code
        failing_words = {tuple(f['replay']['input']['word']) for f in chk.failing}
        acc = all(tuple(d['word']) in failing_words for d in dis)
        chk.correspondence_broken('Prior vs PriorModel.add', dis[:10], accounted=acc)
    chk.assumptions += ['scipy.stats.uniform(loc, scale).isf(1-u) = loc + scale*u (exact on few-bit dyadic u)',
                        'distribution objects are parameters: represented by affine percent-point functions']
    chk.trusted += ['harness/c15.py (differential harness and reference interpreter)']


def _dim(p):
    try:
        return p.dimensionality()
    except Exception:
        return -1


def canon(s):
    """order-insensitive comparison of the dictionary part (insertion order is not part of the property)"""
    parts = s.split(' ; ')
    out = []
    for part in parts:
        if part.startswith('dict=') and not part.startswith('dict=!'):
            items = sorted(x for x in part[5:].split(',') if x)
            out.append('dict=' + ','.join(items))
        else:
            out.append(part)
    return ' ; '.join(out)


def replay(doc):
    inp = doc['input']
    p, outs, fails = apply_word(inp['word'], interleave=bool(inp.get('interleave')))
    us = [Fraction(x) for x in inp.get('u', [])]
    _, _, f2 = transforms(p, us)
    for key, what in fails + f2:
        print(key, '-', what)
    return bool(fails + f2)
