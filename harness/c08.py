"""C08 — proposals are uniform over the bound and reported volumes are calibrated.

proof:  lean/NautilusVerif/Properties/C08.lean — on a finite uniform space the proposal scheme of Union.sample
        (member ∝ volume, uniform in the member, reject outside the cube, accept with probability 1/multiplicity)
        returns every cell of the accepted region with the same probability and its volume estimator is calibrated;
        nested rejection (networks), pool merge; Lebesgue laws of the acceptance test and the radius; the closed-form
        ellipsoid volume is |det B| times the volume of the unit ball.   (partial: the theorem is about the scheme; that the
        float / PRNG implementation realises it is *validated statistically*, not proved.)
tie:    gen_c08.py regenerates threshold, weights, volume expressions and the loop bodies (C08Tie: `rfl`)
validation (labelled as such): samples of real bounds against rejection sampling of the bounding box through the same
        bound's contains(), per overlap-signature and per grid cell; exp(log_v) against the box fraction; all tests at
        a family-wise false-alarm level of 1e-9 per run.
"""
import multiprocessing as mp
import os

import numpy as np
from scipy.stats import norm

import common
import gen_c08
from c07 import build, NN  # noqa: F401

THEOREMS = ['C08_uniform', 'C08_zero', 'C08_volume', 'C08_uncorrected_overcounts', 'C08_nested', 'C08_poolMerge',
            'C08_accept', 'C08_radial', 'C08_ellVolume', 'C08_unitBall']
TIE_THEOREMS = ['C08_tie_formulas', 'C08_tie_union_loop', 'C08_tie_nautilus_loop', 'C08_tie_ellipsoid_logv']
MODULE = [('NautilusVerif.Properties.C08', THEOREMS), ('NautilusVerif.Properties.C08Buf', None), ('NautilusVerif.Properties.C08Tie', TIE_THEOREMS),
          *common.core_tie(['nautilusSample', 'nautilusResetAndSample', 'nautilusReset', 'unionReset'])]
FILES = ['nautilus/bounds/union.py', 'nautilus/bounds/nautilus.py', 'nautilus/bounds/basic.py']
ALPHA = 1e-9


def members_of(b):
    from nautilus.bounds import Union, NautilusBound
    if isinstance(b, Union):
        return b.bounds
    if isinstance(b, NautilusBound):
        return b.outer_bound.bounds
    return []


def box_of(b, d):
    """a box containing the region contains() accepts"""
    from nautilus.bounds import Union, NautilusBound, Ellipsoid, UnitCubeEllipsoidMixture
    lo, hi = np.full(d, np.inf), np.full(d, -np.inf)

    def ell_box(e, dims):
        ext = np.sqrt(np.sum(e.B ** 2, axis=1))      # half-widths: sqrt(diag(B B^T))
        for j, dim in enumerate(dims):
            lo[dim] = min(lo[dim], e.c[j] - ext[j])
            hi[dim] = max(hi[dim], e.c[j] + ext[j])
    for m in (members_of(b) or [b]):
        if isinstance(m, Ellipsoid):
            ell_box(m, range(d))
        elif isinstance(m, UnitCubeEllipsoidMixture):
            for dim in np.arange(d)[m.dim_cube]:
                lo[dim], hi[dim] = min(lo[dim], 0.0), max(hi[dim], 1.0)
            if m.ellipsoid is not None:
                ell_box(m.ellipsoid, np.arange(d)[~m.dim_cube])
    restricted = isinstance(b, NautilusBound) or (isinstance(b, Union) and b.cube is not None)
    if restricted and not (isinstance(b, NautilusBound) and b.shift is not None):
        lo, hi = np.maximum(lo, 0.0), np.minimum(hi, 1.0)
    if isinstance(b, NautilusBound) and b.shift is not None:
        lo, hi = np.zeros(d), np.ones(d)
    return lo, hi


def scheme_reference(b, n, rng):
    """n points by the proposal scheme of `C08_uniform`, from the members' own `sample` / `contains` and an independent generator"""
    from scipy.special import logsumexp
    mem = b.bounds
    lv = np.array([float(m.log_v) for m in mem])
    p = np.exp(lv - logsumexp(lv))
    out, total = [], 0
    while total < n:
        k = rng.multinomial(50000, p)
        pts = np.vstack([np.asarray(m.sample(int(kk))).reshape(int(kk), -1) for m, kk in zip(mem, k)])
        if b.cube is not None:
            pts = pts[np.asarray(b.cube.contains(pts), dtype=bool)]
        mult = np.sum([np.asarray(m.contains(pts), dtype=bool) for m in mem], axis=0)
        keep = rng.random(len(pts)) * mult < 1.0
        out.append(rng.permutation(pts[keep]))      # the blocks are ordered by member; the last one is truncated below
        total += int(np.sum(keep))
    return np.vstack(out)[:n]


def check_case(case):
    import warnings
    warnings.filterwarnings('ignore')
    os.environ.setdefault('OMP_NUM_THREADS', '1')
    from nautilus.bounds import Union, NautilusBound, Ellipsoid
    from nautilus.pool import NautilusPool
    try:
        b, pts, _ = build(case)
    except Exception as e:
        return {'case': case, 'tests': [], 'skipped': 'construction raised %s: %s' % (type(e).__name__, str(e)[:100])}
    d = case['d']
    rng = np.random.default_rng(case['seed'] + 17)
    tests = []          # (name, z, detail)
    n_s = case.get('n_samples', 120000)
    M = case.get('n_ref', 600000)
    pool = NautilusPool(2) if case.get('pool') else None
    if hasattr(b, 'reset'):
        b.reset()             # counters start from zero: they must account for exactly what is drawn below
    try:
        if isinstance(b, Ellipsoid):
            S = np.asarray(b.sample(n_s))
        elif isinstance(b, NautilusBound):
            S = np.vstack([np.asarray(b.sample(n_s // 4, **({'pool': pool} if pool else {}))) for _ in range(4)])
        else:
            S = np.vstack([np.asarray(b.sample(n_s // 4)) for _ in range(4)])
    finally:
        if pool is not None:
            pool.pool.close()
    # ---- exact accounting of the two rejection levels (serial and pool path): every returned or buffered point is an accepted
    #      proposal, every proposal of the inner level is an accepted draw of the outer level
    if isinstance(b, (Union, NautilusBound)):
        if int(b.n_sample) - int(b.n_reject) != len(S) + len(b.points):
            tests.append(('counters-do-not-account-for-samples', 99.0, {'n_sample': int(b.n_sample), 'n_reject': int(b.n_reject),
                                                                           'returned': len(S), 'buffered': len(b.points)}))
    if isinstance(b, NautilusBound):
        o = b.outer_bound
        if int(o.n_sample) - int(o.n_reject) < int(b.n_sample) or int(o.n_reject) > int(o.n_sample):
            tests.append(('outer-counters-inconsistent-with-inner-proposals', 99.0, {
                'outer_n_sample': int(o.n_sample), 'outer_n_reject': int(o.n_reject), 'inner_n_sample': int(b.n_sample), 'pool': bool(case.get('pool'))}))
    lo, hi = box_of(b, d)
    box_vol = float(np.prod(hi - lo))
    U = lo + (hi - lo) * rng.random((M, d))
    inside = np.asarray(b.contains(U), dtype=bool)
    R = U[inside]
    if len(R) < 2000 or not np.all((S >= lo - 1e-12) & (S <= hi + 1e-12)):
        if len(R) >= 2000:
            tests.append(('sample-outside-bounding-box', 99.0, 'a sample lies outside the box that contains the region'))
        return {'case': case, 'tests': tests, 'cls': type(b).__name__, 'n_ref': int(len(R))}

    def two_sample(name, ca, cb, na, nb_):
        """z statistics for equality of cell probabilities between the samples and the reference"""
        for cell in np.flatnonzero((ca + cb) >= 200):
            p = (ca[cell] + cb[cell]) / (na + nb_)
            se = np.sqrt(p * (1 - p) * (1 / na + 1 / nb_))
            z = (ca[cell] / na - cb[cell] / nb_) / se if se > 0 else 0.0
            tests.append((name, float(z), {'cell': int(cell), 'sampled_fraction': float(ca[cell] / na),
                                           'uniform_fraction': float(cb[cell] / nb_)}))
    # ---- uniformity per overlap signature (which members contain the point)
    mem = members_of(b)
    if len(mem) >= 2 and len(mem) <= 12:
        q_s = b.shift.transform(S) if isinstance(b, NautilusBound) and b.shift is not None else S
        q_r = b.shift.transform(R) if isinstance(b, NautilusBound) and b.shift is not None else R
        sig_s = sum((np.asarray(m.contains(q_s), dtype=np.int64) << i) for i, m in enumerate(mem))
        sig_r = sum((np.asarray(m.contains(q_r), dtype=np.int64) << i) for i, m in enumerate(mem))
        k = 1 << len(mem)
        two_sample('uniformity-per-overlap-signature', np.bincount(sig_s, minlength=k), np.bincount(sig_r, minlength=k), len(S), len(R))
    # ---- the real Union.sample against the *scheme* the theorems are about, re-implemented here from the member primitives
    #      (member proportional to volume, uniform in the member, cube cut, keep with probability 1/multiplicity): resolves overlap
    #      regions far too small for the box reference (members of very different volumes)
    if isinstance(b, Union) and 2 <= len(mem) <= 12:
        R2 = scheme_reference(b, len(S), np.random.default_rng(case['seed'] + 23))
        sig_2 = sum((np.asarray(m.contains(R2), dtype=np.int64) << i) for i, m in enumerate(mem))
        sig_s2 = sum((np.asarray(m.contains(S), dtype=np.int64) << i) for i, m in enumerate(mem))
        k = 1 << len(mem)
        two_sample('uniformity-per-overlap-signature-vs-scheme', np.bincount(sig_s2, minlength=k), np.bincount(sig_2, minlength=k), len(S), len(R2))
    # ---- uniformity per grid cell
    g = {1: 40, 2: 8, 3: 5}.get(d, 3)
    def cells(P):
        idx = np.clip(((P - lo) / (hi - lo) * g).astype(int), 0, g - 1)
        return np.ravel_multi_index(idx[:, :min(d, 3)].T, (g,) * min(d, 3))
    two_sample('uniformity-per-grid-cell', np.bincount(cells(S), minlength=g ** min(d, 3)),
               np.bincount(cells(R), minlength=g ** min(d, 3)), len(S), len(R))
    # ---- reported volume against the measure of the region
    frac = len(R) / M
    v_ref = box_vol * frac
    var_ref = box_vol ** 2 * frac * (1 - frac) / M
    v_est = float(np.exp(b.log_v))
    if isinstance(b, Ellipsoid):
        var_est = 0.0
    elif isinstance(b, NautilusBound):
        q1 = 1 - b.outer_bound.n_reject / b.outer_bound.n_sample
        q2 = 1 - b.n_reject / b.n_sample
        var_est = v_est ** 2 * ((1 - q1) / (q1 * b.outer_bound.n_sample) + (1 - q2) / (q2 * b.n_sample))
    else:
        q1 = 1 - b.n_reject / b.n_sample
        var_est = v_est ** 2 * (1 - q1) / (q1 * b.n_sample)
    if var_est + var_ref > 0:
        z = (v_est - v_ref) / np.sqrt(var_est + var_ref)
    else:       # nothing was rejected at either side (the region is the whole box and no proposal was lost): equal up to rounding, or wrong
        z = 0.0 if abs(v_est - v_ref) <= 1e-9 * max(abs(v_ref), 1e-300) else 99.0
    tests.append(('volume-calibration', float(z), {'reported': v_est, 'measured': v_ref, 'relative_difference': v_est / v_ref - 1}))
    return {'case': case, 'tests': tests, 'cls': type(b).__name__, 'n_ref': int(len(R)), 'n_members': len(mem)}


def cases(tier, seed):
    C = []
    k = [0]

    def add(**kw):
        k[0] += 1
        kw['seed'] = 8000 + 41 * seed + k[0]
        C.append(kw)
    for d in (2, 3, 5):
        add(cls='Ellipsoid', d=d, cloud='blob')
        add(cls='Ellipsoid', d=d, cloud='elongated', enl=1.3)
    for d in (2, 3):
        for member in ('E', 'M'):
            add(cls='Union', d=d, member=member, cloud='curved', splits=3, n=200, unit=True)      # overlapping pieces
            add(cls='Union', d=d, member=member, cloud='curved', splits=5, n=260, unit=True)
            add(cls='Union', d=d, member=member, cloud='face', splits=2, n=200, unit=True)        # cut by cube faces
            add(cls='Union', d=d, member=member, cloud='two', splits=1, n=160, unit=True)
        add(cls='Union', d=d, member='E', cloud='curved', splits=3, n=200, unit=False)
    # members that keep some dimensions as cube dimensions and fit an ellipsoid in the others (column order of the mixture's sample)
    for d in (3, 4):
        for j in range(2):
            add(cls='Union', d=d, member='M', cloud='box', splits=2, n=200, unit=True, npm=d + 20)
    add(cls='Union', d=3, member='M', cloud='slab', splits=0, n=200, unit=True)       # dim_cube = [0, 1, 1]
    add(cls='Union', d=3, member='M', cloud='slab', splits=1, n=300, unit=True)
    # a broad mode with a sharp spike inside it: member volumes differ by ~10^3, the small member often gets none of the 1000 proposals of a round
    add(cls='Union', d=2, member='E', cloud='spike', splits=1, n=800, unit=True, n_samples=9000000, n_ref=1000000)
    for nets in (0, 1):
        for periodic, cl in ((None, 'curved'), ([0], 'wrapped'), (None, 'face')):
            add(cls='Nautilus', d=2, nets=nets, periodic=periodic, cloud=cl, split=True, n=260, pool=(nets == 0 and cl in ('curved', 'face')))
        add(cls='Nautilus', d=3, nets=nets, periodic=None, cloud='curved', split=True, n=260, pool=(nets == 0))
        add(cls='Nautilus', d=3, nets=nets, periodic=None, cloud='face', split=True, n=260, pool=(nets == 0))
        add(cls='Nautilus', d=[2, 3][nets], nets=0, periodic=None, cloud='shell', split=True, n=600, pool=True)
        add(cls='Union', d=[2, 3][nets], member='EM'[nets], cloud='shell', splits=6, n=600, unit=True)
    if tier == 'thorough':
        base = list(C)
        for r in range(3):
            for c in base:
                c2 = dict(c, n_samples=200000, n_ref=1000000)
                k[0] += 1
                c2['seed'] = 40000 + 41 * seed + k[0]
                C.append(c2)
    return C


BUF_THEOREMS = ['C08_buf_exact', 'C08_buf_exact_init', 'C08_buf_merge', 'C08_buf_handout', 'C08_buf_fifo', 'C07_buf_sound', 'C07_buf_frame',
                'C08_buf_fraction']


def buf_cases(tier, seed):
    C = []
    for k, (nets, periodic, cl, d) in enumerate([(0, None, 'curved', 2), (1, None, 'curved', 2), (0, [0], 'wrapped', 2), (1, [0], 'wrapped', 2),
                                                  (0, None, 'face', 3), (1, None, 'two', 2), (0, [0, 1], 'wrapped', 3), (0, None, 'shell', 2)]):
        C.append(dict(cls='Nautilus', d=d, nets=nets, periodic=periodic, cloud=cl, split=True, n=260, seed=9100 + 53 * seed + k,
                      pool_size=[2, 3, 5][k % 3]))
    if tier == 'thorough':
        C += [dict(c, seed=c['seed'] + 1000 * r, pool_size=[3, 4, 2][(k + r) % 3]) for r in range(1, 4) for k, c in enumerate(list(C))]
    return C


def buf_script(case):
    """the calls replayed through the model: small and large requests, requests that the cache already covers, internal filling
    (`return_points=False`), resets, the pool branch before and after serial use — all sizes derived from the case seed"""
    rng = np.random.default_rng(case['seed'] + 5)
    S = [('reset',), ('sample', 100, True, False), ('sample', int(rng.integers(1500, 4000)), True, False), ('sample', 50, False, False),
         ('sample', int(rng.integers(1, 40)), True, False), ('sample', int(rng.integers(9000, 16000)), True, True),
         ('sample', int(rng.integers(100, 900)), True, False), ('reset',), ('sample', int(rng.integers(9000, 14000)), True, True),
         ('sample', 40, False, True), ('sample', int(rng.integers(2000, 6000)), True, False), ('sample', int(rng.integers(11000, 13000)), False, True),
         ('sample', 1000, True, False)]
    return S


def buf_case(case):
    import warnings
    warnings.filterwarnings('ignore')
    os.environ.setdefault('OMP_NUM_THREADS', '1')
    import bufrec
    try:
        b, _, _ = build(case)
    except Exception as e:
        return {'case': case, 'skipped': 'construction raised %s: %s' % (type(e).__name__, str(e)[:100])}
    rec = bufrec.BufRecorder(b)
    pool = bufrec.CapturePool(case['pool_size'])
    script = buf_script(case)
    try:
        for st in script:
            if st[0] == 'reset':
                rec.reset()
            else:
                rec.sample(st[1], ret=st[2], pool=pool if st[3] else None)
    except Exception as e:
        import traceback
        return {'case': case, 'crash': '%s: %s' % (type(e).__name__, str(e)[:160]), 'trace': traceback.format_exc()[-1200:],
                'fails': rec.fails, 'notes': rec.notes, 'req': rec.request(), 'ops': rec.ops, 'states': rec.states}
    return {'case': case, 'fails': rec.fails, 'notes': rec.notes, 'req': rec.request(), 'ops': [o[:60] for o in rec.ops], 'states': rec.states,
            'n_ops': len(rec.ops), 'n_pool_ops': sum(1 for o in rec.ops if ' pool ' in o[:40])}


def buf_stage(chk):
    """correspondence NautilusBound.sample / Union.sample vs Model/SampleBuf.lean, and the model's invariant evaluated on the
    real objects"""
    import bufrec
    res = common.pool_map(buf_case, buf_cases(chk.tier, chk.seed))
    live = [r for r in res if 'req' in r]
    replies = common.run_driver([r['req'] for r in live]) if live else []
    n_ops = 0
    for r, rep in zip(live, replies):
        r['dis'] = bufrec.compare(types_view(r), rep)
    for r in res:
        spec = {'buf_case': r['case']}
        if r.get('skipped'):
            chk.notes.append('buf: skipped: ' + r['skipped'])
            continue
        for key, what, d in r.get('fails', []):
            chk.fail(key + '@Nautilus', what, {'input': spec, 'detail': d})
        if 'crash' in r:
            chk.fail('sample-raises:' + r['crash'].split(':')[0], 'sampling a NautilusBound raised: ' + r['crash'], {'input': spec, 'trace': r['trace']})
        if r.get('dis'):
            chk.correspondence_broken('NautilusBound.sample vs SampleBuf model (seed %d)' % r['case']['seed'],
                                      {'disagreements': r['dis'][:2], 'notes': r.get('notes', [])[:4], 'case': r['case']},
                                      accounted=bool(r.get('fails')) or 'crash' in r)
        n_ops += r.get('n_ops', 0)
    chk.extra['buf'] = {'cases': len(res), 'operations_replayed': n_ops, 'pool_operations': sum(r.get('n_pool_ops', 0) for r in res),
                        'disagreements': sum(len(r.get('dis', [])) for r in res)}
    chk.count(n_ops, sum(r.get('n_pool_ops', 0) for r in res))
    chk.cov['disagreements_checked'] += sum(len(r.get('dis', [])) for r in res)
    chk.trusted += ['harness/bufrec.py (instance-level hooks on the outer union, its first member and the phase shift)']


class types_view:
    def __init__(self, r):
        self.ops, self.states = r['ops'], r['states']


def run(chk):
    global MODULE
    MODULE = [(m, BUF_THEOREMS if ths is None else ths) for m, ths in MODULE]
    text, notes = gen_c08.generate(common.REPO)
    chk.extra['source_digest'] = common.source_digest(FILES)
    chk.extra['translator'] = notes
    import gen_c07
    text7, _ = gen_c07.generate(common.REPO)
    chk.prove(MODULE, None, {'NautilusVerif/Generated/C08.lean': text, 'NautilusVerif/Generated/C07.lean': text7, 'NautilusVerif/Generated/CoreSrc.lean': __import__('gen_core').generate(common.REPO)[0]})
    if chk.tier == 'thorough':
        chk.leanchecker([m for m, _ in MODULE])
    buf_stage(chk)
    C = cases(chk.tier, chk.seed)
    plain = [c for c in C if not c.get('pool')]
    pooled = [c for c in C if c.get('pool')]
    with mp.get_context('fork').Pool(min(16, os.cpu_count() or 4)) as pool:
        res = pool.map(check_case, plain, chunksize=1)
    res += [check_case(c) for c in pooled]
    n_tests = sum(len(r['tests']) for r in res)
    zcrit = float(norm.isf(ALPHA / max(1, n_tests) / 2))
    worst = []
    overlap_cases = 0
    for r in res:
        if r.get('skipped'):
            chk.notes.append('skipped: ' + r['skipped'])
            continue
        if r.get('n_members', 0) >= 2:
            overlap_cases += 1
        by_name = {}
        for name, z, det in r['tests']:
            if abs(z) > abs(by_name.get(name, (0, None))[0]):
                by_name[name] = (z, det)
        for name, (z, det) in by_name.items():
            worst.append((abs(z), name, r['case']))
            if abs(z) > zcrit:
                chk.fail(name + '@' + r['case']['cls'], '%s: |z| = %.1f exceeds %.2f (family-wise false-alarm level %g over %d tests): %r' % (
                    name, abs(z), zcrit, ALPHA, n_tests, det), {'input': r['case'], 'statistic': {'z': z, 'detail': det}})
    worst.sort(key=lambda t: -t[0])
    chk.count(n_tests, overlap_cases)
    chk.extra['z_critical'] = zcrit
    chk.extra['largest_z'] = [{'z': round(w[0], 2), 'test': w[1], 'cls': w[2]['cls'], 'cloud': w[2]['cloud']} for w in worst[:5]]
    chk.extra['cases'] = len(res)
    chk.cov['traces_validated_against_impl'] = len(res)
    chk.cov['rule'] = ('model-validation statistics (not the proof): evaluations = two-sample z tests (samples of the real bound vs uniform points '
                       'of the bounding box kept by the same contains(), per overlap signature and per grid cell) + volume calibration tests; '
                       'non-trivial = bounds with >= 2 overlapping members')
    for r in res[-2:]:
        chk.sample({'case': r['case'], 'n_tests': len(r['tests']), 'n_reference_points': r.get('n_ref')})
    chk.assumptions += ['partial: uniformity and calibration are proved for the modelled scheme on a finite uniform space; that numpy\'s '
                        'Generator primitives (multinomial, normal, uniform, shuffle) have their documented laws is assumed; the real bounds are '
                        'validated statistically at a family-wise false-alarm level of 1e-9 per run']
    chk.trusted += ['harness/gen_c08.py', 'harness/c08.py (statistical validation)', 'scipy.stats.norm']


def replay(doc):
    if 'buf_case' in doc['input']:
        r = buf_case(doc['input']['buf_case'])
        for f in r.get('fails', []):
            print(f[0], '-', f[1])
        return bool(r.get('fails')) or 'crash' in r
    r = check_case(doc['input'])
    zs = [abs(t[1]) for t in r['tests']]
    print('largest |z| =', max(zs) if zs else None, 'over', len(zs), 'tests')
    return bool(zs) and max(zs) > 6.5
