"""C10 — likelihood calls: exact count, one batch per step, budget and support kept

proof:  lean/NautilusVerif/Properties/C10.lean (model: Model/Core.lean, invariants: Model/CoreInv.lean)
tie:    correspondence R — real Sampler histories recorded by corerec.Recorder and replayed operation by operation
        through the Lean Core model (state after every operation compared; the model's decidable invariants are
        evaluated on the abstraction of every real state)
search: the property's own observables evaluated on the real sampler at every operation boundary (corechecks.py)
"""
import common
import corechecks

THEOREMS = ['C10_oneBatch', 'C10_counterOnlyThere', 'C10_support']
RUN_THEOREMS = ['C10_noBatchBeyond', 'C10_budget', 'C10_success']
MODULE = [('NautilusVerif.Properties.C10', THEOREMS), ('NautilusVerif.Properties.C10Run', RUN_THEOREMS),
          ('NautilusVerif.Properties.CoreRun', ['Run_phase', 'C10_run_budget', 'C10_run_noBatchBeyond', 'C10_run_return', 'C10_run_fill']),
          ('NautilusVerif.Properties.C05Tie', ['C05_run_skeleton']),
          *common.core_tie(['sampleShell', 'evaluateLikelihood', 'addSamples'])]
FILES = ['nautilus/sampler.py']
INVARIANTS = ['aligned', 'run']


def run(chk):
    chk.extra['source_digest'] = common.source_digest(FILES)
    import gen_c05
    text5, _ = gen_c05.generate(common.REPO)
    chk.prove(MODULE, None, {'NautilusVerif/Generated/CoreSrc.lean': __import__('gen_core').generate(common.REPO)[0], 'NautilusVerif/Generated/C05.lean': text5})
    if chk.tier == 'thorough':
        chk.leanchecker([m for m, _ in MODULE])
    results = corechecks.run_all(chk.tier, chk.seed)
    corechecks.report(chk, 'C10', results, INVARIANTS)
    chk.assumptions += ['proposals lie in the unit cube (C07/C16)', 'n_eff comparisons are not NaN (all-zero-likelihood runs excluded)']
    chk.trusted += ['harness/corerec.py (outside instrumentation + abstraction of the real state)', 'harness/corechecks.py']


def replay(doc):
    import json
    spec = doc['input']
    r = corechecks._worker({'make': spec['make'], 'script': [tuple(x) if isinstance(x, list) else x for x in spec['script']]})
    if 'crash' in r:
        print('crash:', r['crash'])
        return True
    for f in r['fails']['C10']:
        print(f[0], '-', f[1])
    return bool(r['fails']['C10'])
