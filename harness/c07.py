"""C07 — bounds are sound: samples lie inside, construction points are enclosed.

proof:  lean/NautilusVerif/Properties/C07.lean — algebra of bound classes (sample-set ⊆ contains by structural induction,
        cube restriction, inner ⊆ outer, union enclosure) + leaf laws over the reals (ellipsoid sampling radius < 1,
        rescale + enlarge encloses the construction points); formulas regenerated from basic.py (gen_c07.py)
tie:    structural replay: for real bounds of every class the leaf answers (each ellipsoid, each cube part, each network
        verdict, the phase shift) and the real composite `contains` are taken on the same points; the Lean driver
        composes the leaf answers with BoundAlg.contains; both must agree on every point
search: bound.contains(bound.sample(n)), samples in the unit cube, construction points contained (also after
        splits), inner ⊆ outer — serial and through a pool, with and without periodic shift
"""
import multiprocessing as mp
import os

import numpy as np

import common
import gen_c07

THEOREMS = ['C07_sound', 'C07_unit', 'C07_unit_nautilus', 'C07_inner_outer', 'C07_union_encloses', 'C07_any_of',
            'C07_ell_sample', 'C07_frame_roundtrip', 'C07_ell_encloses', 'C07_quadform_div']
TIE_THEOREMS = ['C07_tie_formulas']
MODULE = [('NautilusVerif.Properties.C07', THEOREMS), ('NautilusVerif.Properties.C07Tie', TIE_THEOREMS),
          *common.core_tie(['unionContains', 'nautilusContains', 'neuralContains', 'nautilusSample'])]
FILES = ['nautilus/bounds/basic.py', 'nautilus/bounds/union.py', 'nautilus/bounds/nautilus.py', 'nautilus/bounds/neural.py',
         'nautilus/bounds/periodic.py']
NN = dict(hidden_layer_sizes=(12, 6), max_iter=150)


def bits(a):
    return ''.join('1' if x else '0' for x in np.asarray(a, dtype=bool))


class Enc:
    """expression tokens + leaf tables of a real bound on a point array"""

    def __init__(self, pts):
        self.pts = pts
        self.tables = {}
        self.n_leaf = 0
        self.sh = None

    def leaf(self):
        self.n_leaf += 1
        return self.n_leaf - 1

    def encode(self, b, pts=None):
        from nautilus.bounds import UnitCube, Ellipsoid, UnitCubeEllipsoidMixture, Union, NeuralBound, NautilusBound
        P = self.pts if pts is None else pts
        if isinstance(b, UnitCube):
            self.tables['cube'] = bits(b.contains(P))
            return ['C']
        if isinstance(b, Ellipsoid):
            e = self.leaf()
            self.tables['ell%d' % e] = bits(b.contains(P))
            return ['E', str(e)]
        if isinstance(b, UnitCubeEllipsoidMixture):
            e = self.leaf()
            hc, he = b.cube is not None, b.ellipsoid is not None
            if hc:
                self.tables['mixc%d' % e] = bits(b.cube.contains(P[..., np.arange(b.n_dim)[b.dim_cube]]))
            if he:
                self.tables['ell%d' % e] = bits(b.ellipsoid.contains(P[..., np.arange(b.n_dim)[~b.dim_cube]]))
            return ['M', str(e), '1' if hc else '0', '1' if he else '0']
        if isinstance(b, Union):
            if b.cube is not None:
                self.tables['cube'] = bits(b.cube.contains(P))
            toks = ['U', '1' if b.cube is not None else '0', '(']
            for m in b.bounds:
                toks += self.encode(m, P)
            return toks + [')']
        if isinstance(b, NeuralBound):
            o = self.leaf()
            self.tables['ell%d' % o] = bits(b.outer_bound.contains(P))
            if b.emulator is None:
                return ['N', str(o), '-']
            k = self.leaf()
            self.tables['net%d' % k] = bits(b.emulator.predict(b.outer_bound.transform(P)) > b.score_predict_min - 1e-9)
            return ['N', str(o), str(k)]
        if isinstance(b, NautilusBound):
            n = len(self.pts)
            if b.shift is not None:
                P2 = np.vstack([self.pts, b.shift.transform(self.pts)])
                self.sh = list(range(n, 2 * n))
            else:
                P2 = self.pts
            self.pts_all = P2
            toks = ['X', '1' if b.shift is not None else '0'] + self.encode(b.outer_bound, P2) + ['[']
            for nb in b.neural_bounds:
                toks += self.encode(nb, P2)
            return toks + [']']
        raise ValueError(type(b))

    def request(self, b):
        toks = self.encode(b)
        line = 'bound %d %s' % (len(self.pts), ' '.join(toks))
        for k, v in self.tables.items():
            line += ' | %s=%s' % (k, v)
        if self.sh is not None:
            line += ' | sh=' + ','.join(map(str, self.sh))
        return line


def cloud(rng, kind, d, n):
    def blob(c, s, m):
        return np.clip(rng.normal(c, s, (m, d)), 0.0005, 0.9995)
    if kind == 'blob':
        return blob(0.5, 0.08, n)
    if kind == 'elongated':
        t = rng.random(n)
        p = 0.1 + 0.8 * t[:, None] * np.ones(d) + rng.normal(0, 0.01, (n, d))
        return np.clip(p, 0.0005, 0.9995)
    if kind == 'curved':
        t = rng.random(n) * np.pi
        p = np.full((n, d), 0.5) + rng.normal(0, 0.01, (n, d))
        p[:, 0] = 0.5 + 0.35 * np.cos(t)
        p[:, 1 % d] = 0.2 + 0.6 * np.sin(t)
        return np.clip(p, 0.0005, 0.9995)
    if kind == 'face':        # hugging faces and a corner of the cube
        p = blob(0.5, 0.1, n)
        p[:, 0] = np.abs(rng.normal(0.0, 0.02, n))
        p[: n // 2, 1 % d] = 1 - np.abs(rng.normal(0.0, 0.02, n // 2))
        p[::7, 0] = 0.0                      # points exactly on the closed face of the half-open cube
        p[3::11, (d - 1)] = 0.0
        return np.clip(p, 0.0, 0.999999)
    if kind == 'ridge_peak':  # a ridge spanning all of x0 and a tight peak at the face x0 = 0: pieces with different
        a = blob(0.5, 0.1, n // 2)           # cube / ellipsoid dimension patterns, one of them poking out of the cube
        a[:, 0] = rng.random(n // 2)
        a[:, 1 % d] = np.clip(rng.normal(0.3, 0.01, n // 2), 0.0005, 0.9995)
        b = blob(0.5, 0.1, n - n // 2)
        b[:, 0] = np.abs(rng.normal(0.0, 0.015, n - n // 2))
        b[:, 1 % d] = np.clip(rng.normal(0.8, 0.02, n - n // 2), 0.0005, 0.9995)
        return np.clip(np.vstack([a, b]), 0.0, 0.999999)
    if kind == 'shell':       # an octant of a thick spherical shell around a corner: many overlapping pieces, cut by the faces
        v = np.abs(rng.normal(size=(n, d)))
        v /= np.linalg.norm(v, axis=1)[:, None]
        return np.clip(v * (0.75 + 0.1 * rng.random(n))[:, None], 0.0005, 0.9995)
    if kind == 'two':
        return np.vstack([blob(0.25, 0.03, n // 2), blob(0.75, 0.03, n - n // 2)])
    if kind == 'spike':       # a broad disc (with its rim populated) and a tiny dense cluster at its rim
        m = n // 2
        phi = np.linspace(0, 2 * np.pi, 60, endpoint=False)
        rim = 0.3 * np.vstack([np.cos(phi), np.sin(phi)]).T
        r, t = 0.3 * np.sqrt(rng.random(m - 60)), rng.random(m - 60) * 2 * np.pi
        broad = np.vstack([rim, np.vstack([r * np.cos(t), r * np.sin(t)]).T])
        r, t = 0.004 * np.sqrt(rng.random(n - m)), rng.random(n - m) * 2 * np.pi
        spike = np.vstack([r * np.cos(t), r * np.sin(t)]).T + np.array([0.318, 0.0])   # just outside the rim: inside the enlarged disc
        p = np.full((n, d), 0.5) + rng.normal(0, 0.01, (n, d))
        p[:, :2] = np.vstack([broad, spike]) + np.array([0.45, 0.5])
        return np.clip(p, 0.0005, 0.9995)
    if kind == 'box':         # a box whose extent differs from parameter to parameter: tight, mild, unconstrained
        width = rng.choice([0.02, 0.3, 0.6, 0.8, 0.9, 1.0], size=d)
        low = rng.random(d) * (1 - width)
        return np.clip(low + width * rng.random((n, d)), 0.0, 0.999999)
    if kind == 'slab':        # tight in the first parameter, unconstrained in all others: cube dimensions come after the ellipsoid one
        width = np.array([0.3] + [1.0] * (d - 1))
        low = np.array([0.35] + [0.0] * (d - 1))
        return np.clip(low + width * rng.random((n, d)), 0.0, 0.999999)
    if kind == 'halo':        # a dense core inside a broad sparse halo
        m = (3 * n) // 4
        core = blob(0.5, 0.02, m)
        halo = np.clip(rng.normal(0.5, 0.12, (n - m, d)), 0.0005, 0.9995)
        return np.vstack([core, halo])
    if kind == 'wrapped':
        p = blob(0.5, 0.06, n)
        p[:, 0] = rng.normal(0.0, 0.04, n) % 1.0
        return p
    raise ValueError(kind)


def build(case):
    from nautilus.bounds import UnitCube, Ellipsoid, UnitCubeEllipsoidMixture, Union, NeuralBound, NautilusBound
    rng = np.random.default_rng(case['seed'])
    d = case['d']
    pts = cloud(rng, case['cloud'], d, case.get('n', 150))
    log_l = -0.5 * np.sum(((pts - np.mean(pts, axis=0)) / 0.05) ** 2, axis=1)
    brng = np.random.default_rng(case['seed'] + 1)
    enl = case.get('enl', 1.1)
    cls = case['cls']
    built_from = pts
    if cls == 'Ellipsoid':
        b = Ellipsoid.compute(pts, enlarge_per_dim=enl, rng=brng)
    elif cls == 'Mixture':
        b = UnitCubeEllipsoidMixture.compute(pts, enlarge_per_dim=enl, rng=brng)
    elif cls == 'Union':
        b = Union.compute(pts, enlarge_per_dim=enl, unit=case.get('unit', True), n_points_min=case.get('npm', d + 4),
                          bound_class=Ellipsoid if case['member'] == 'E' else UnitCubeEllipsoidMixture, rng=brng)
        for _ in range(case.get('splits', 0)):
            b.split()
        if case.get('trim_after_sample'):     # a partly consumed proposal buffer, then a member is dropped
            b.sample(137)
            case['trimmed'] = bool(b.trim(threshold=1.0001))
            built_from = np.vstack(b.points_bounds)
    elif cls == 'Neural':
        thr = np.sort(log_l)[len(log_l) // 2]
        b = NeuralBound.compute(pts, log_l, thr, enlarge_per_dim=enl, n_networks=case['nets'], neural_network_kwargs=NN, rng=brng)
        built_from = pts[log_l >= thr]
    elif cls == 'Nautilus':
        thr = np.sort(log_l)[len(log_l) // 2]
        b = NautilusBound.compute(pts, log_l, thr, -12.0 if case.get('split') else 0.0, enlarge_per_dim=enl,
                                  n_networks=case['nets'], neural_network_kwargs=NN, n_points_min=d + 4,
                                  periodic=np.array(case['periodic']) if case.get('periodic') else None, rng=brng)
        built_from = pts[log_l >= thr]
    elif cls == 'UnitCube':
        b = UnitCube.compute(d, rng=brng)
    else:
        raise ValueError(cls)
    return b, pts, built_from


def check_case(case):
    import warnings
    warnings.filterwarnings('ignore')
    os.environ.setdefault('OMP_NUM_THREADS', '1')
    from nautilus.bounds import UnitCube, Ellipsoid, UnitCubeEllipsoidMixture, Union, NeuralBound, NautilusBound
    from nautilus.pool import NautilusPool
    fails = []
    try:
        b, pts, built_from = build(case)
    except Exception as e:
        return {'case': case, 'fails': [], 'skipped': 'construction raised %s: %s' % (type(e).__name__, str(e)[:100])}
    d = case['d']
    rng = np.random.default_rng(case['seed'] + 9)
    restricted = isinstance(b, (UnitCube, NautilusBound)) or (isinstance(b, Union) and b.cube is not None)
    # ---- samples satisfy contains (and the cube restriction)
    samples = None
    if hasattr(b, 'sample'):
        pools = [None]
        if isinstance(b, NautilusBound) and case.get('pool'):
            pools.append(NautilusPool(2))
        for pool in pools:
            try:
                kw = {'pool': pool} if pool is not None else {}
                parts = [np.asarray(b.sample(n, **kw)) for n in (700, 1, 1500)]
            except Exception as e:
                fails.append(('sample-raises:' + type(e).__name__, 'sample raised %s: %s' % (type(e).__name__, str(e)[:100])))
                continue
            samples = np.vstack(parts)
            inside = np.asarray(b.contains(samples), dtype=bool)
            if not np.all(inside):
                j = int(np.flatnonzero(~inside)[0])
                fails.append(('sample-outside-own-bound' + (':pool' if pool is not None else ''),
                              '%d of %d points returned by sample() fail contains() of the same bound, e.g. %r' % (
                                  int(np.sum(~inside)), len(samples), samples[j].tolist())))
            if restricted and not np.all((samples >= 0) & (samples < 1)):
                j = int(np.flatnonzero(~np.all((samples >= 0) & (samples < 1), axis=1))[0])
                fails.append(('sample-outside-unit-cube' + (':pool' if pool is not None else ''),
                              'a bound restricted to the unit cube returned %r' % samples[j].tolist()))
            if pool is not None:
                pool.pool.close()
    # ---- construction points are enclosed (enlargement > 1; inside the cube where restricted)
    if case.get('enl', 1.1) > 1.0 and isinstance(b, (Ellipsoid, UnitCubeEllipsoidMixture, Union)):
        inside = np.asarray(b.contains(built_from), dtype=bool)
        if not np.all(inside):
            fails.append(('construction-point-not-enclosed', '%d of %d construction points are outside the %s (after %d splits)' % (
                int(np.sum(~inside)), len(built_from), type(b).__name__, case.get('splits', 0))))
    # ---- inner subset of outer
    probe = np.vstack([rng.random((4000, d)), pts, np.clip(pts + rng.normal(0, 0.03, pts.shape), 0, 0.999999)] +
                      ([samples[:1500]] if samples is not None else []))
    if isinstance(b, NeuralBound):
        c = np.asarray(b.contains(probe), dtype=bool)
        if np.any(c & ~np.asarray(b.outer_bound.contains(probe), dtype=bool)):
            fails.append(('neural-contains-point-outside-its-ellipsoid', 'NeuralBound.contains is true outside its outer ellipsoid'))
    if isinstance(b, NautilusBound):
        c = np.asarray(b.contains(probe), dtype=bool)
        q = b.shift.transform(probe) if b.shift is not None else probe
        if np.any(c & ~np.asarray(b.outer_bound.contains(q), dtype=bool)):
            fails.append(('nautilus-contains-point-outside-outer-bound', 'NautilusBound.contains is true for a point whose (shifted) image is outside the outer bound'))
    # ---- structural replay request
    try:
        enc = Enc(probe)
        req = enc.request(b)
        real = bits(b.contains(probe))
    except Exception as e:
        fails.append(('contains-raises:' + type(e).__name__, 'contains raised %s: %s' % (type(e).__name__, str(e)[:100])))
        req, real = None, None
    return {'case': case, 'fails': fails, 'req': req, 'real': real, 'cls': type(b).__name__,
            'n_members': len(getattr(b, 'bounds', getattr(getattr(b, 'outer_bound', None), 'bounds', [])) or [])}


def cases(tier, seed):
    C = []
    k = [0]

    def add(**kw):
        k[0] += 1
        kw['seed'] = 7000 + 37 * seed + k[0]
        C.append(kw)
    for d in (1, 2, 3, 5, 8):
        add(cls='UnitCube', d=d, cloud='blob')
        for cl in ('blob', 'elongated', 'face'):
            add(cls='Ellipsoid', d=d, cloud=cl, enl=[1.1, 1.5, 1.001][k[0] % 3])
            if d > 1:
                add(cls='Mixture', d=d, cloud=cl)
    for d in (2, 3, 5):
        for member in ('E', 'M'):
            for cl, splits in (('two', 1), ('curved', 3), ('ridge_peak', 1), ('ridge_peak', 2), ('face', 2), ('blob', 0)):
                add(cls='Union', d=d, member=member, cloud=cl, splits=splits, n=160, unit=True)
            add(cls='Union', d=d, member=member, cloud='two', splits=2, n=160, unit=False)
            for cl in ('two', 'curved', 'ridge_peak'):
                add(cls='Union', d=d, member=member, cloud=cl, splits=3, n=200, unit=True, trim_after_sample=True)
    # mixed-extent boxes (which dimensions a mixture keeps as cube dimensions), several draws per dimension
    for d in (3, 4, 6, 8):
        for j in range(10):
            add(cls='Mixture', d=d, cloud='box', n=200, enl=[1.1, 1.3][j % 2])
        for j in range(3):
            add(cls='Union', d=d, member='M', cloud='box', splits=2, n=200, unit=True, npm=d + 20)
    for d in (3, 4, 5):
        add(cls='Mixture', d=d, cloud='slab', n=200)
        add(cls='Union', d=d, member='M', cloud='slab', splits=1, n=300, unit=True)
    # large minimum cluster size (the sampler's default is n_dim + 50): the too-small mixture component gets topped up
    for d in (2, 3):
        for cl in ('halo', 'blob', 'two'):
            add(cls='Union', d=d, member='E', cloud=cl, splits=3, n=400, unit=True, npm=d + 50)
            add(cls='Union', d=d, member='M', cloud=cl, splits=4, n=400, unit=True, npm=d + 50)
    for nets in (0, 1, 2):
        add(cls='Neural', d=2 + nets, nets=nets, cloud='blob')
        for periodic, cl in ((None, 'two'), ([0], 'wrapped'), (None, 'ridge_peak'), ([0, 1], 'wrapped'), (None, 'face')):
            add(cls='Nautilus', d=2 + (nets % 2), nets=nets, periodic=periodic, cloud=cl, split=True, n=240, pool=(nets == 0))
    if tier == 'thorough':
        base = list(C)
        for r in range(5):
            for c in base:
                c2 = dict(c)
                k[0] += 1
                c2['seed'] = 30000 + 37 * seed + k[0]
                C.append(c2)
    return C


def run(chk):
    text, notes = gen_c07.generate(common.REPO)
    chk.extra['source_digest'] = common.source_digest(FILES)
    chk.extra['translator'] = notes
    chk.prove(MODULE, None, {'NautilusVerif/Generated/C07.lean': text, 'NautilusVerif/Generated/CoreSrc.lean': __import__('gen_core').generate(common.REPO)[0]})
    if chk.tier == 'thorough':
        chk.leanchecker([m for m, _ in MODULE])
    C = cases(chk.tier, chk.seed)
    plain = [c for c in C if not c.get('pool')]
    pooled = [c for c in C if c.get('pool')]
    with mp.get_context('fork').Pool(min(16, os.cpu_count() or 4)) as pool:
        res = pool.map(check_case, plain, chunksize=1)
    res += [check_case(c) for c in pooled]          # pools cannot be created inside daemonic workers
    ok = [r for r in res if r.get('req')]
    replies = common.run_driver([r['req'] for r in ok])
    dis = []
    kinds = {}
    points = 0
    nontriv = 0
    for r in res:
        c = r['case']
        label = c['cls'] + ('/%s/unit=%s' % (c.get('member'), c.get('unit')) if c['cls'] == 'Union' else '') + \
            ('/nets=%s/periodic=%s' % (c.get('nets'), c.get('periodic')) if c['cls'] in ('Nautilus', 'Neural') else '')
        kinds[label] = kinds.get(label, 0) + 1
        if r.get('skipped'):
            chk.notes.append('skipped %r: %s' % ({k: v for k, v in c.items() if k != 'seed'}, r['skipped']))
            continue
        for key, what in r['fails']:
            chk.fail(key + '@' + c['cls'], what, {'input': c})
        if r.get('n_members', 0) >= 2 or c['cls'] in ('Nautilus', 'Neural', 'Mixture'):
            nontriv += 1
    for r, rep in zip(ok, replies):
        points += len(r['real'])
        if rep != r['real']:
            j = next((i for i, (a, b) in enumerate(zip(rep, r['real'])) if a != b), -1)
            dis.append({'case': r['case'], 'first_differing_probe_point': j, 'model': rep[j:j + 1], 'impl': r['real'][j:j + 1],
                        'expr': r['req'].split(' | ')[0][:200]})
    chk.count(points, nontriv)
    chk.cov['traces_validated_against_impl'] = len(ok)
    chk.cov['disagreements_checked'] = len(dis)
    chk.extra['case_kinds'] = kinds
    chk.extra['cases'] = len(res)
    chk.cov['rule'] = ('one case = a real bound (class x member class x unit x periodic x networks x dimension 1-8 x point-set family: blob, '
                       'elongated, curved, hugging faces/corners, ridge + peak at a face, two clusters, wrapped) with splits; evaluations = '
                       'probe points on which the composite contains() was compared with the Lean composition of the leaf answers; '
                       'non-trivial = composite bounds (>= 2 members, mixtures, neural, nautilus)')
    for r in res[-2:]:
        chk.sample({'case': r['case'], 'failures': [f[0] for f in r['fails']], 'expr': (r.get('req') or '').split(' | ')[0][:160]})
    if dis:
        failing = {json_key(f['replay']['input']) for f in chk.failing}
        chk.correspondence_broken('composite contains vs BoundAlg.contains of the leaf answers', dis[:6],
                                  accounted=all(json_key(x['case']) in failing for x in dis))
    chk.assumptions += ['exact real arithmetic for the leaf laws: a point within a few ulp of an ellipsoid surface, a network threshold or '
                        'the wrap position can be classified differently by two float evaluations (probability ~1e-15 per point)',
                        'standard-normal draws are non-zero vectors; Generator.uniform returns values in [0,1)']
    chk.trusted += ['harness/gen_c07.py', 'harness/c07.py (leaf extraction from the real objects)']


def json_key(c):
    import json
    return json.dumps(c, sort_keys=True, default=str)


def replay(doc):
    r = check_case(doc['input'])
    for f in r['fails']:
        print(f[0], '-', f[1])
    return bool(r['fails'])
