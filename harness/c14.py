"""C14 — equal-weight posterior is an unbiased, order-preserving resampling.

proof:   lean/NautilusVerif/Properties/C14.lean
tie:     gen_c14.py (formulas + statement structure of the equal-weight block, regenerated each run);
         correspondence X: the real posterior(equal_weight=True, ...) driven by a *scripted* generator vs
         Resample.repsAll evaluated by the Lean driver on the exact rational values of the same doubles.
search:  the property itself evaluated on the real output (multiplicity, order, alignment, weights, purity).
"""
import copy
from fractions import Fraction

import numpy as np
from scipy.special import logsumexp

import common
import gen_c14
import runs

THEOREMS = ['C14_range', 'C14_up_iff', 'C14_mean', 'C14_mean_grid', 'C14_noDup', 'C14_zero', 'C14_nonneg', 'C14_order', 'C14_count', 'C14_aligned', 'C14_weights']
TIE_THEOREMS = ['C14_tie_formulas', 'C14_tie_structure']
MODULE = [('NautilusVerif.Properties.C14', THEOREMS), ('NautilusVerif.Properties.C14Tie', TIE_THEOREMS)]
FILES = ['nautilus/sampler.py']


class ScriptRng:
    """stands in for sampler.rng during one posterior() call: returns the scripted uniforms"""

    def __init__(self, u):
        self.u = np.asarray(u, dtype=float)
        self.calls = 0

    def random(self, size=None, *a, **k):
        self.calls += 1
        n = size if isinstance(size, (int, np.integer)) else int(np.prod(size))
        if n != len(self.u):
            raise AssertionError('posterior asked for %r uniforms, %d samples are visible' % (size, len(self.u)))
        return self.u.copy()

    def __getattr__(self, name):
        raise AssertionError('posterior used rng.%s' % name)


def frac(x):
    f = Fraction(float(x))
    return str(f.numerator) if f.denominator == 1 else '%d/%d' % (f.numerator, f.denominator)


def dict_prior(x):
    return {'p': x[..., 0], 'q': x[..., 1]}


def synthetic_sampler(rng, blobs=True, prior_kind='identity', offset=0.0):
    """a Sampler whose stored arrays are set directly (posterior() only reads them)"""
    if prior_kind == 'Prior':
        from nautilus import Prior
        pr = Prior()
        pr.add_parameter('a', dist=(-1.0, 1.0))
        pr.add_parameter('f', dist=2.5)
        pr.add_parameter('b', dist=(0.0, 4.0))
        pr.add_parameter('c', dist='a')
        s, _ = runs.make_sampler(n_live=50, seed=1, prior=pr)
    elif prior_kind == 'dictfn':
        s, _ = runs.make_sampler(n_dim=2, n_live=50, seed=1, prior=dict_prior, pass_dict=True)
        s.vectorized = True
    else:
        s, _ = runs.make_sampler(n_dim=2, n_live=50, seed=1)
    n_shell = int(rng.integers(1, 5))
    s.points, s.log_l, s.blobs = [], [], []
    ns = []
    serial = 0
    for i in range(n_shell):
        n = int(rng.integers(1, 30))
        ns.append(n)
        s.points.append(rng.random((n, 2)))
        mode = rng.integers(0, 4)
        ll = rng.normal(0, 3, n) if mode == 0 else (rng.normal(0, 0.05, n) if mode == 1 else
                                                     np.round(rng.normal(0, 2, n)) if mode == 2 else rng.normal(0, 30, n))
        ll = ll + offset                        # the result must not depend on the likelihood scale
        ll[rng.random(n) < 0.15] = -np.inf      # zero-weight samples
        s.log_l.append(ll)
        ser = np.arange(serial, serial + n, dtype=np.int64)
        # blobs of two values with one plain dtype are stored as a 2-d array (one row per sample)
        s.blobs.append(np.stack([ser, 7 * ser + 1], axis=1) if blobs == '2d' else ser)
        serial += n
    s.bounds = [None] * n_shell
    s.explored = bool(rng.random() < 0.7)
    discard = bool(s.explored and rng.random() < 0.5)
    s._discard_exploration = discard
    s.shell_end_exp = np.array([int(rng.integers(0, n)) for n in ns])
    vis = [n - e for n, e in zip(ns, s.shell_end_exp)] if discard else ns
    s.shell_n = np.array(vis)
    s.shell_log_v = np.cumsum(-np.abs(rng.normal(0.5, 0.5, n_shell)))
    if not blobs:
        s.blobs = None
    # make sure at least one visible sample has positive weight
    if discard:
        s.log_l[0][-1] = offset
    else:
        s.log_l[0][0] = offset
    return s


def visible(s):
    if s._discard_exploration and s.explored:
        start = s.shell_end_exp
    else:
        start = np.zeros(len(s.points), dtype=int)
    pts = np.concatenate([p[a:] for p, a in zip(s.points, start)])
    ll = np.concatenate([p[a:] for p, a in zip(s.log_l, start)])
    bl = None if s.blobs is None else np.concatenate([p[a:] for p, a in zip(s.blobs, start)])
    return pts, ll, bl


def take_rows(points, rows):
    if isinstance(points, dict):
        return {k: np.asarray(v)[rows] for k, v in points.items()}
    return np.asarray(points)[rows]


def same_points(a, b):
    if isinstance(a, dict) or isinstance(b, dict):
        return isinstance(a, dict) and isinstance(b, dict) and a.keys() == b.keys() and \
            all(np.array_equal(np.asarray(a[k]), np.asarray(b[k])) for k in a)
    return np.array_equal(a, b)


def n_rows(points):
    if isinstance(points, dict):
        return len(next(iter(points.values()))) if points else 0
    return len(points)


def scripted_u(rng, r):
    """uniforms directed at the decision boundary u = fract r"""
    f = r - np.floor(r)
    u = rng.random(len(r))
    mode = rng.integers(0, 6, len(r))
    u = np.where(mode == 0, f, u)                                       # exactly fract r -> no extra copy
    u = np.where(mode == 1, np.nextafter(f, -1.0), u)                   # just below -> extra copy (if f > 0)
    u = np.where(mode == 2, 0.0, u)
    u = np.where(mode == 3, np.nextafter(1.0, 0.0), u)
    u = np.clip(u, 0.0, np.nextafter(1.0, 0.0))
    return u


AMBIG = 1e-9   # relative weights are floats: multiplicities are judged with this tolerance on r and on u - fract r


def one_case(chk, s, boost, rng, label, as_dict=None):
    """returns (request line, observed multiplicities, sample dict)"""
    pts, ll, bl = visible(s)
    before = runs.snapshot(s)
    w_before = s.posterior(return_blobs=bl is not None, return_as_dict=as_dict)
    log_w_raw = np.repeat(s.shell_log_v - np.log(np.maximum(s.shell_n, 1)), s.shell_n) + ll
    with np.errstate(all='ignore'):
        r = np.exp(log_w_raw - np.amax(log_w_raw)) * boost
    # independent cross-check of r against the weights posterior() itself reports
    with np.errstate(all='ignore'):
        r2 = np.exp(w_before[1] - np.amax(w_before[1])) * boost
    if not np.allclose(r, r2, rtol=1e-9, atol=0):
        chk.fail('relative-weight-mismatch', 'weights of posterior() disagree with volume x likelihood',
                 {'input': {'case': label}})
    u = scripted_u(rng, r)
    real_rng = s.rng
    s.rng = ScriptRng(u)
    info = {'case': label, 'boost': boost, 'n': len(r), 'as_dict': as_dict}
    try:
        with np.errstate(all='ignore'):
            out = s.posterior(equal_weight=True, equal_weight_boost=boost, return_blobs=bl is not None,
                              return_as_dict=as_dict)
    except Exception as e:    # the call must not raise on a sampler that holds positive-weight samples
        chk.fail('equal-weight-posterior-raises:' + type(e).__name__,
                 'posterior(equal_weight=True, equal_weight_boost=%r) raised %s: %s' % (boost, type(e).__name__, str(e)[:100]),
                 {'input': dict(info, log_l_offset=label)})
        return None
    finally:
        n_calls = s.rng.calls
        s.rng = real_rng
    p_eq, lw_eq, ll_eq = out[0], out[1], out[2]
    b_eq = out[3] if bl is not None else None
    info = {'case': label, 'boost': boost, 'n': len(r), 'as_dict': as_dict}

    def bad(key, what, extra=None):
        d = {'input': dict(info, r=[float(x).hex() for x in r[:50]], u=[float(x).hex() for x in u[:50]])}
        if extra:
            d['observed'] = extra
        chk.fail(key, what, d)
    if n_calls != 1:
        bad('rng-calls', 'posterior(equal_weight=True) drew from the generator %d times' % n_calls)
    # multiplicities by serial blob (or by matching rows when there are no blobs)
    if b_eq is not None:
        serial0 = bl
        if np.ndim(serial0) == 2:          # 2-d blobs: the first column is the serial, the second is 7 * serial + 1
            if np.ndim(b_eq) != 2 or np.shape(b_eq)[1:] != np.shape(serial0)[1:]:
                bad('blobs-lose-their-shape', 'blobs of shape %r came back with shape %r' % (np.shape(serial0), np.shape(b_eq)))
                return None
            if len(b_eq) and not np.array_equal(b_eq[:, 1], 7 * b_eq[:, 0] + 1):
                bad('rows-misaligned', 'the two values of a blob row do not belong together')
            serial0, b_ser = serial0[:, 0], b_eq[:, 0]
        else:
            b_ser = b_eq
        idx = {int(v): j for j, v in enumerate(serial0)}
        rows = [idx.get(int(v), -1) for v in b_ser]
    else:
        ref = w_before[0]
        if isinstance(ref, dict):
            ref = np.stack([np.asarray(ref[k], dtype=float) for k in sorted(ref)], axis=1)
            got = np.stack([np.asarray(p_eq[k], dtype=float) for k in sorted(p_eq)], axis=1) if n_rows(p_eq) else \
                np.zeros((0, ref.shape[1]))
        else:
            got = np.asarray(p_eq)
        key = {np.ascontiguousarray(ref[j]).tobytes(): j for j in range(len(ref))}
        rows = [key.get(np.ascontiguousarray(got[i]).tobytes(), -1) for i in range(len(got))]
    rows = np.array(rows, dtype=int)
    if np.any(rows < 0):
        bad('unknown-row', 'a returned row is not one of the weighted samples')
        rows = rows[rows >= 0]
    mult = np.bincount(rows, minlength=len(r)) if len(rows) else np.zeros(len(r), dtype=int)
    # the property itself, judged with a tolerance on the float value of r (exactness is the correspondence's job)
    lo = np.floor(r * (1 - AMBIG) - AMBIG).astype(int)
    hi = np.floor(r * (1 + AMBIG) + AMBIG).astype(int) + 1
    wrong = np.flatnonzero((mult < lo) | (mult > hi))
    if len(wrong):
        j = int(wrong[0])
        bad('multiplicity-not-floor-or-floor+1', 'sample %d with relative weight*boost r=%r was returned %d times' % (
            j, float(r[j]), int(mult[j])), {'j': j, 'r': float(r[j]), 'mult': int(mult[j])})
    fl = np.floor(r).astype(int)
    f = r - np.floor(r)
    clear = (np.abs(u - f) > AMBIG) & (f > AMBIG) & (f < 1 - AMBIG)     # away from every decision boundary
    exp_up = (u < f)
    wrong = np.flatnonzero(clear & (mult != fl + exp_up.astype(int)))
    if len(wrong):
        j = int(wrong[0])
        bad('multiplicity-differs-from-stochastic-rounding',
            'sample %d: r=%r, u=%r, returned %d times, expected %d' % (j, float(r[j]), float(u[j]), int(mult[j]),
                                                                      int(fl[j] + exp_up[j])),
            {'j': j, 'r': float(r[j]).hex(), 'u': float(u[j]).hex(), 'mult': int(mult[j])})
    if boost <= 1 and np.any(mult > 1):
        bad('duplicate-with-boost<=1', 'a sample is repeated although boost <= 1')
    if np.any(mult[np.isneginf(ll)] != 0):
        bad('zero-weight-sample-returned', 'a sample with log-likelihood -inf appears in the equal-weight posterior')
    if len(rows) and np.any(np.diff(rows) < 0):
        bad('order-not-preserved', 'rows of the equal-weight posterior are not in the original order')
    if len(rows) and (not same_points(p_eq, take_rows(w_before[0], rows)) or not np.array_equal(ll_eq, ll[rows])):
        bad('rows-misaligned', 'a repeated row does not carry the point / log-likelihood of its sample')
    if len(lw_eq) != n_rows(p_eq) or len(ll_eq) != n_rows(p_eq) or (b_eq is not None and len(b_eq) != n_rows(p_eq)):
        bad('lengths-differ', 'returned arrays have different lengths: %d points, %d weights, %d likelihoods, %s blobs' % (
            n_rows(p_eq), len(lw_eq), len(ll_eq), None if b_eq is None else len(b_eq)))
    if len(lw_eq):
        if not np.all(lw_eq == lw_eq[0]) or abs(float(logsumexp(lw_eq))) > 1e-9 or \
                abs(float(lw_eq[0]) + np.log(len(lw_eq))) > 1e-9:
            bad('weights-not-equal-normalised', 'returned log-weights are not all equal to -log(N)')
    after = runs.snapshot(s)
    w_after = s.posterior(return_blobs=bl is not None, return_as_dict=as_dict)
    if after != before or not same_points(w_before[0], w_after[0]) or \
            any(not np.array_equal(a, b, equal_nan=True) for a, b in zip(w_before[1:], w_after[1:])):
        bad('weighted-posterior-changed', 'the stored state / weighted posterior differs after an equal-weight call')
    req = 'resample ' + ' '.join(frac(a) + ' ' + frac(b) for a, b in zip(r, u))
    nontrivial = int(np.sum((u == r - np.floor(r)) | (u == np.nextafter(r - np.floor(r), -1.0))))
    return req, mult, info, nontrivial


def run(chk):
    rng = np.random.default_rng(1400 + chk.seed)
    text, notes = gen_c14.generate(common.REPO)
    chk.extra['source_digest'] = common.source_digest(FILES)
    chk.extra['translator'] = notes
    chk.prove(MODULE, THEOREMS, {'NautilusVerif/Generated/C14.lean': text})
    if chk.tier == 'thorough':
        chk.leanchecker([m for m, _ in MODULE])
    n_syn = 150 if chk.tier == 'quick' else 2000
    boosts = [0.1, 0.5, 1.0, float(np.nextafter(1.0, 2.0)), 3.0, 10.5, 0.999]
    reqs, mults, infos = [], [], []
    nontriv = 0
    samplers = []
    offsets = [0.0, 0.0, 700.0, -700.0, -735.0, -800.0, 1e4]
    for i in range(n_syn):
        kind = ['identity', 'identity', 'Prior', 'dictfn'][i % 4]
        samplers.append(('synthetic-%d-%s-offset=%g' % (i, kind, offsets[i % 7]),
                         synthetic_sampler(rng, blobs=(False if i % 5 == 0 else ('2d' if i % 5 == 3 else True)), prior_kind=kind, offset=offsets[i % 7])))
    # states produced by real runs (with -inf samples, with and without discarded exploration)
    for j, (kind, discard) in enumerate([('halfspace', False), ('gauss', True)] if chk.tier == 'quick' else
                                        [('halfspace', False), ('gauss', True), ('bimodal', False), ('steps', True)]):
        s, _ = runs.make_sampler(kind=kind, n_live=100, n_batch=50, blob='serial', seed=chk.seed + j)
        s.run(n_eff=300, discard_exploration=discard)
        # serial blobs are call serials: unique per row, which is all that is needed
        samplers.append(('run-%s-discard=%s' % (kind, discard), s))
    for label, s in samplers:
        for b in ([boosts[int(rng.integers(0, len(boosts)))]] if label.startswith('synthetic') else boosts):
            as_dict = None
            if '-Prior-' in label:
                as_dict = bool(rng.integers(0, 2))
            res = one_case(chk, s, b, rng, label, as_dict=as_dict)
            if res is None:
                continue
            req, mult, info, nt = res
            reqs.append(req)
            mults.append(mult)
            infos.append(info)
            nontriv += nt
    replies = common.run_driver(reqs)
    dis = []
    total = 0
    for info, mult, rep, req in zip(infos, mults, replies, reqs):
        model = [int(x) for x in rep.split()] if rep not in ('', 'bad-op') else None
        total += len(mult)
        if model is None or list(map(int, mult)) != model:
            dis.append({'case': info, 'impl': list(map(int, mult))[:40], 'model': None if model is None else model[:40]})
    chk.count(total, nontriv)
    chk.cov['traces_validated_against_impl'] = len(reqs)
    chk.cov['disagreements_checked'] = len(dis)
    chk.cov['rule'] = ('per weighted sample one (r, u) pair: r from synthetic weight vectors (1-4 shells, -inf samples, '
                       'ties, wide dynamic range, discard on/off) and from real runs; boost in {0.1,0.5,0.999,1,1+ulp,3,10.5}; '
                       'u scripted: exactly fract r, one ulp below it, 0, 1-ulp, random. non-trivial = u at or one ulp '
                       'below the decision boundary')
    chk.extra['calls'] = len(reqs)
    for info, mult in list(zip(infos, mults))[-2:]:
        chk.sample({'case': info, 'multiplicities_head': list(map(int, mult))[:12]})
    if dis:
        keys = {f['key'] for f in chk.failing}
        chk.correspondence_broken('posterior(equal_weight) vs Resample.repsAll', dis[:5],
                                  accounted=bool(keys & {'multiplicity-differs-from-stochastic-rounding',
                                                         'multiplicity-not-floor-or-floor+1', 'lengths-differ',
                                                         'unknown-row', 'rows-misaligned'}))
    chk.assumptions += ['Generator.random returns uniform doubles k/2^53 in [0,1)',
                        'for r >= 0, floor(r) and r - floor(r) are exact in binary64 (so the float test is the exact test)']
    chk.trusted += ['harness/gen_c14.py', 'harness/c14.py']


def replay(doc):
    print('re-running the quick check for C14 (scripted cases are regenerated from the seed)')
    chk = common.Check('C14', 'quick', int(doc.get('seed', 0)))
    run(chk)
    return bool(chk.failing or chk.broken)
