"""C02 — log_z, n_eff, eta and weights are exactly the estimators of the stored samples

proof:  lean/NautilusVerif/Properties/C02.lean (model: Model/Core.lean, invariants: Model/CoreInv.lean)
tie:    correspondence R — real Sampler histories recorded by corerec.Recorder and replayed operation by operation
        through the Lean Core model (state after every operation compared; the model's decidable invariants are
        evaluated on the abstraction of every real state)
search: the property's own observables evaluated on the real sampler at every operation boundary (corechecks.py)
"""
import common
import corechecks

THEOREMS = ['C02_bookkeeping', 'C02_lengths']
EST_THEOREMS = ['C02_shellVolume', 'C02_shellVolume_le', 'C02_evidence', 'C02_weights', 'C02_kish', 'C02_shellTerm']
TIE_THEOREMS = ['C02_tie_formulas', 'C02_tie_structure', 'C02_tie_view']
MODULE = [('NautilusVerif.Properties.C02', THEOREMS), ('NautilusVerif.Properties.CoreRun', ['Run_phase', 'C02_run']), ('NautilusVerif.Properties.C02Est', EST_THEOREMS),
          ('NautilusVerif.Properties.C02EstTie', TIE_THEOREMS),
          *common.core_tie(['updateShellInfo', 'posterior', 'addSamples'])]
FILES = ['nautilus/sampler.py']
INVARIANTS = ['aligned', 'counts', 'shape']


def run(chk):
    chk.extra['source_digest'] = common.source_digest(FILES)
    import gen_c02
    text2, notes2 = gen_c02.generate(common.REPO)
    chk.extra['translator'] = notes2
    chk.prove(MODULE, None, {'NautilusVerif/Generated/CoreSrc.lean': __import__('gen_core').generate(common.REPO)[0], 'NautilusVerif/Generated/C02.lean': text2})
    if chk.tier == 'thorough':
        chk.leanchecker([m for m, _ in MODULE])
    results = corechecks.run_all(chk.tier, chk.seed)
    corechecks.report(chk, 'C02', results, INVARIANTS)
    chk.assumptions += ['estimator identities are over exact reals; float results are compared with relative tolerance 1e-8', 'all-zero-likelihood states (log_z = -inf) are excluded']
    chk.trusted += ['harness/corerec.py (outside instrumentation + abstraction of the real state)', 'harness/corechecks.py']


def replay(doc):
    import json
    spec = doc['input']
    r = corechecks._worker({'make': spec['make'], 'script': [tuple(x) if isinstance(x, list) else x for x in spec['script']]})
    if 'crash' in r:
        print('crash:', r['crash'])
        return True
    for f in r['fails']['C02']:
        print(f[0], '-', f[1])
    return bool(r['fails']['C02'])
