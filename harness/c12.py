"""C12 — exploration ends once; then history is append-only; discard is a pure view

proof:  lean/NautilusVerif/Properties/C12.lean (model: Model/Core.lean, invariants: Model/CoreInv.lean)
tie:    correspondence R — real Sampler histories recorded by corerec.Recorder and replayed operation by operation
        through the Lean Core model (state after every operation compared; the model's decidable invariants are
        evaluated on the abstraction of every real state)
search: the property's own observables evaluated on the real sampler at every operation boundary (corechecks.py)
"""
import common
import corechecks

THEOREMS = ['C12_phaseMonotone', 'C12_phaseMonotone_exec', 'C12_appendOnly', 'C12_nonempty', 'C12_end', 'C12_storedOnly', 'C12_view', 'C12_toggle', 'C12_roundTrip']
MODULE = [('NautilusVerif.Properties.C12', THEOREMS), ('NautilusVerif.Properties.CoreRun', ['Run_phase', 'C02_run', 'C12_run_frozen']), ('NautilusVerif.Properties.C05Tie', ['C05_run_skeleton']),
          *common.core_tie(['discardSetter', 'addSamples'])]
FILES = ['nautilus/sampler.py']
INVARIANTS = ['shape', 'counts', 'aligned', 'run']


def run(chk):
    chk.extra['source_digest'] = common.source_digest(FILES)
    import gen_c05
    text5, _ = gen_c05.generate(common.REPO)
    chk.prove(MODULE, None, {'NautilusVerif/Generated/CoreSrc.lean': __import__('gen_core').generate(common.REPO)[0], 'NautilusVerif/Generated/C05.lean': text5})
    if chk.tier == 'thorough':
        chk.leanchecker([m for m, _ in MODULE])
    results = corechecks.run_all(chk.tier, chk.seed)
    corechecks.report(chk, 'C12', results, INVARIANTS)
    chk.assumptions += ['run() calls add_bound and ends exploration only under `not self.explored` (PhaseOK; tied by the run-skeleton translator)']
    chk.trusted += ['harness/corerec.py (outside instrumentation + abstraction of the real state)', 'harness/corechecks.py']


def replay(doc):
    import json
    spec = doc['input']
    r = corechecks._worker({'make': spec['make'], 'script': [tuple(x) if isinstance(x, list) else x for x in spec['script']]})
    if 'crash' in r:
        print('crash:', r['crash'])
        return True
    for f in r['fails']['C12']:
        print(f[0], '-', f[1])
    return bool(r['fails']['C12'])
