"""C01 — every stored sample belongs to exactly one shell: its own

proof:  lean/NautilusVerif/Properties/C01.lean (model: Model/Core.lean, invariants: Model/CoreInv.lean)
tie:    correspondence R — real Sampler histories recorded by corerec.Recorder and replayed operation by operation
        through the Lean Core model (state after every operation compared; the model's decidable invariants are
        evaluated on the abstraction of every real state)
search: the property's own observables evaluated on the real sampler at every operation boundary (corechecks.py)
"""
import common
import corechecks

THEOREMS = ['C01_invariant', 'C01_step', 'C01_association', 'C01_partition', 'C01_nodupFast']
MODULE = [('NautilusVerif.Properties.C01', THEOREMS), ('NautilusVerif.Properties.CoreRun', ['Run_phase', 'C01_run', 'C01_run_session']),
          *common.core_tie(['addBound', 'addSamples', 'sampleShell', 'shellAssociation'])]
FILES = ['nautilus/sampler.py']
INVARIANTS = ['inshells', 'tlast', 'nodup', 'run']


def run(chk):
    chk.extra['source_digest'] = common.source_digest(FILES)
    chk.prove(MODULE, None, {'NautilusVerif/Generated/CoreSrc.lean': __import__('gen_core').generate(common.REPO)[0]})
    if chk.tier == 'thorough':
        chk.leanchecker([m for m, _ in MODULE])
    results = corechecks.run_all(chk.tier, chk.seed)
    corechecks.report(chk, 'C01', results, INVARIANTS)
    chk.assumptions += ['proposals of bound.sample lie in the cube and inside the bound (hypothesis WF = conclusion of C07; checked on every real proposal by the replay through the model invariants)', 'contains() of a bound is a deterministic function of the point']
    chk.trusted += ['harness/corerec.py (outside instrumentation + abstraction of the real state)', 'harness/corechecks.py']


def replay(doc):
    import json
    spec = doc['input']
    r = corechecks._worker({'make': spec['make'], 'script': [tuple(x) if isinstance(x, list) else x for x in spec['script']]})
    if 'crash' in r:
        print('crash:', r['crash'])
        return True
    for f in r['fails']['C01']:
        print(f[0], '-', f[1])
    return bool(r['fails']['C01'])
