"""Likelihood zoo, sampler construction and observation helpers shared by the sampler-level checks."""
import hashlib
import os
import warnings

import numpy as np

import common  # noqa: F401  (puts /repo on sys.path)

warnings.filterwarnings('ignore')


# ---------------------------------------------------------------------------------------------- likelihoods

def logl_value(kind, x):
    """pure log-likelihood on the unit cube; x is a 1-D array"""
    x = np.asarray(x, dtype=float)
    if kind == 'gauss':
        return float(-0.5 * np.sum(((x - 0.5) / 0.1) ** 2))
    if kind == 'bimodal':
        a = -0.5 * np.sum(((x - 0.3) / 0.06) ** 2)
        b = -0.5 * np.sum(((x - 0.72) / 0.06) ** 2)
        return float(np.logaddexp(a, b))
    if kind == 'funnel':
        s = 0.02 + 0.3 * x[0]
        return float(-0.5 * np.sum(((x[1:] - 0.5) / s) ** 2) - (len(x) - 1) * np.log(s))
    if kind == 'halfspace':     # zero likelihood for x0 < 0.3, log-ramp above
        if x[0] < 0.3:
            return -np.inf
        return float(20 * (x[0] - 0.3) - 0.5 * np.sum(((x[1:] - 0.5) / 0.2) ** 2))
    if kind == 'steps':         # stepped plateau
        r = np.sqrt(np.sum((x - 0.5) ** 2))
        return float(-np.floor(r * 12))
    if kind == 'wrap':          # peak across the periodic boundary of x0
        d = np.minimum(np.abs(x[0] - 0.02), 1 - np.abs(x[0] - 0.02))
        return float(-0.5 * (d / 0.05) ** 2 - 0.5 * np.sum(((x[1:] - 0.5) / 0.1) ** 2))
    if kind == 'ridge_edge':   # a ridge spanning all of x0 plus a peak hugging the face x0 = 0
        ridge = -0.5 * ((x[1] - 0.3) / 0.02) ** 2 - 0.5 * np.sum(((x[2:] - 0.5) / 0.2) ** 2)
        peak = 3.0 - 0.5 * ((x[0] - 0.02) / 0.02) ** 2 - 0.5 * ((x[1] - 0.8) / 0.03) ** 2 - 0.5 * np.sum(((x[2:] - 0.5) / 0.2) ** 2)
        return float(np.logaddexp(ridge, peak))
    if kind == 'corner':       # a peak in a corner of the cube
        return float(-0.5 * np.sum((x / 0.06) ** 2))
    if kind == 'corners4':     # four separated modes near the corners: the first bound empties the unit-cube shell
        c = np.array([0.1, 0.9])
        terms = [-0.5 * np.sum((x[:2] - np.array([a, b])) ** 2) / 0.06 ** 2 for a in c for b in c]
        return float(np.logaddexp.reduce(terms) - 0.5 * np.sum(((x[2:] - 0.5) / 0.2) ** 2))
    raise ValueError(kind)


class Likelihood:
    """instrumented pure likelihood.  blob modes: None | 'serial' (int serial of the call) |
    'float' | 'two' (two scalars) | 'array'"""

    def __init__(self, kind, blob=None, vectorized=False):
        self.kind, self.blob, self.vectorized = kind, blob, vectorized
        self.offset = 0      # serial number of the first call (set when a computation is resumed)
        self.calls = []      # (argument bytes, logl)
        self.batches = []    # number of points per call group (only meaningful when vectorized)

    def one(self, x):
        ll = logl_value(self.kind, x)
        serial = self.offset + len(self.calls)
        self.calls.append((np.asarray(x, dtype=float).tobytes(), ll))
        if self.blob is None:
            return ll
        if self.blob == 'serial':
            return ll, np.int64(serial)
        if self.blob == 'float':
            return ll, float(x[0] * 2.0)
        if self.blob == 'two':
            return ll, np.int64(serial), float(x[-1])
        if self.blob == 'array':
            return ll, np.array([float(serial), float(x[0])])
        raise ValueError(self.blob)

    def __call__(self, x):
        if not self.vectorized:
            self.batches.append(1)
            return self.one(x)
        x = np.atleast_2d(x)
        self.batches.append(len(x))
        res = [self.one(xi) for xi in x]
        if self.blob is None:
            return np.array(res)
        cols = list(zip(*res))
        return tuple(np.array(c) for c in cols)


def identity_prior(x):
    return x


class PicklePool:
    """an in-process stand-in for a process pool: every task and every result is pickled and unpickled as multiprocessing
    does, so that the workers act on copies (the pool branch of NautilusBound.sample merges the counters of those copies)"""

    def __init__(self, size):
        self.size = size

    def map(self, func, iterable):
        import pickle
        return [pickle.loads(pickle.dumps(pickle.loads(pickle.dumps(func))(pickle.loads(pickle.dumps(a))))) for a in iterable]


def make_sampler(kind='gauss', n_dim=2, n_live=100, n_networks=0, n_batch=50, blob=None, vectorized=False,
                 periodic=None, seed=0, filepath=None, resume=True, n_update=None, pool=None, n_like_new_bound=None,
                 prior=None, pass_dict=None, blobs_dtype=None, nn_kwargs=None, spool=None):
    from nautilus import Sampler
    if spool:      # a sampler pool (bounds sample through `spool` workers), likelihood evaluated in-process
        pool = (None, PicklePool(int(spool)))
    lk = Likelihood(kind, blob=blob, vectorized=vectorized)
    kw = dict(n_dim=n_dim, n_live=n_live, n_networks=n_networks, n_batch=n_batch, vectorized=vectorized,
              seed=seed, filepath=filepath, resume=resume, n_update=n_update, pool=pool,
              n_like_new_bound=n_like_new_bound, blobs_dtype=blobs_dtype)
    if periodic is not None:
        kw['periodic'] = np.array(periodic)
    if pass_dict is not None:
        kw['pass_dict'] = pass_dict
    if prior is None:
        prior = identity_prior
    elif not callable(prior):
        kw.pop('n_dim')
    if n_networks > 0:
        kw['neural_network_kwargs'] = dict(hidden_layer_sizes=(16, 8), max_iter=200)
        kw['neural_network_kwargs'].update(nn_kwargs or {})
    s = Sampler(prior, lk, **kw)
    return s, lk


# ---------------------------------------------------------------------------------------------- observation

def arr_digest(a):
    a = np.ascontiguousarray(a)
    return hashlib.sha1(str(a.dtype).encode() + str(a.shape).encode() + a.tobytes()).hexdigest()[:16]


SAMPLER_FIELDS = ['n_like', 'explored', '_discard_exploration', 'shell_n', 'shell_n_sample', 'shell_n_eff',
                  'shell_log_l_min', 'shell_log_l', 'shell_log_v', 'shell_n_sample_exp', 'shell_end_exp',
                  'points_t', 'shell_t', 'log_l_t', 'blobs_t']


def snapshot(s):
    """bit-level digest of the stored state of a sampler (not of the bounds)"""
    d = {}
    for k in SAMPLER_FIELDS + ['n_update_iter', 'n_like_iter']:
        v = getattr(s, k, None)
        d[k] = None if v is None else arr_digest(np.asarray(v))
    d['points'] = [arr_digest(p) for p in s.points]
    d['log_l'] = [arr_digest(p) for p in s.log_l]
    d['blobs'] = None if s.blobs is None else [arr_digest(p) for p in s.blobs]
    d['n_bounds'] = len(s.bounds)
    return d


def rng_state(s):
    st = s.rng.bit_generator.state
    return (st['state']['state'], st['state']['inc'], st['has_uint32'], st['uinteger'])


# ---------------------------------------------------------------------------------------------- scripted bounds (mode S)

class GridBound:
    """stands in for nautilus.bounds.NautilusBound in scripted-oracle drives: a bound is a set of cells of a K^d grid (the cells
    holding the points above the threshold), so regions are arbitrary — non-nested, disconnected — and cheap.  The real Sampler
    control flow runs unchanged on top of it."""

    K = 5
    EXTRA = 0

    @classmethod
    def compute(cls, points, log_l, log_l_min, log_v_target, enlarge_per_dim=1.1, n_points_min=None, split_threshold=100,
                periodic=None, n_networks=4, neural_network_kwargs={}, pool=None, rng=None):
        b = cls()
        b.n_dim = points.shape[1]
        sel = points[log_l >= log_l_min]
        b.cells = np.unique(cls.cell_of(sel), axis=0)
        b.rng = rng if rng is not None else np.random.default_rng()
        if cls.EXTRA:      # "enlargement": a few extra cells, so that bounds overlap earlier shells in irregular ways
            extra = b.rng.integers(0, cls.K, size=(cls.EXTRA, b.n_dim))
            b.cells = np.unique(np.vstack([b.cells, extra]), axis=0)
        b.points = np.zeros((0, b.n_dim))
        b.n_sample = 0
        b.n_reject = 0
        return b

    @classmethod
    def cell_of(cls, points):
        return np.clip(np.floor(np.asarray(points) * cls.K).astype(int), 0, cls.K - 1)

    def contains(self, points):
        points = np.atleast_2d(points)
        c = self.cell_of(points)
        key = c @ (self.K ** np.arange(self.n_dim))
        mine = self.cells @ (self.K ** np.arange(self.n_dim))
        inside = np.isin(key, mine) & np.all((points >= 0) & (points < 1), axis=1)
        return inside

    def sample(self, n_points=100, return_points=True, pool=None):
        while len(self.points) < n_points:
            idx = self.rng.integers(0, len(self.cells), size=200)
            pts = (self.cells[idx] + self.rng.random((200, self.n_dim))) / self.K
            self.points = np.vstack([self.points, pts])
            self.n_sample += 200
        if return_points:
            out = self.points[:n_points]
            self.points = self.points[n_points:]
            return out

    @property
    def log_v(self):
        return float(np.log(len(self.cells) / self.K ** self.n_dim))

    n_ell = 0
    n_net = 0

    def reset(self, rng=None):
        self.points = np.zeros((0, self.n_dim))
        if rng is not None:
            self.rng = rng


class GridLikelihood(Likelihood):
    """per-cell likelihood table (plateaus, -inf cells, ties) plus an optional small smooth term"""

    def __init__(self, table, smooth=0.0, blob=None):
        super().__init__('grid', blob=blob)
        self.table = np.asarray(table, dtype=float)
        self.smooth = smooth

    def one(self, x):
        x = np.asarray(x, dtype=float)
        c = tuple(GridBound.cell_of(x[None, :])[0])
        ll = float(self.table[c] - self.smooth * np.sum((x - 0.5) ** 2))
        serial = self.offset + len(self.calls)
        self.calls.append((x.tobytes(), ll))
        return ll if self.blob is None else (ll, np.int64(serial))


def make_grid_sampler(table_seed, n_live=40, n_batch=10, n_update=None, seed=0, blob='serial', smooth=0.5, n_dim=2, levels=4, p_inf=0.1,
                      extra=0, K=5):
    """the real Sampler over scripted grid bounds and a random per-cell likelihood table"""
    import nautilus.sampler as ns
    from nautilus import Sampler
    ns.NautilusBound = GridBound
    GridBound.K, GridBound.EXTRA = K, extra
    rng = np.random.default_rng(table_seed)
    table = rng.integers(0, levels, size=(GridBound.K,) * n_dim).astype(float) * 3.0
    table[rng.random(table.shape) < p_inf] = -np.inf
    table.flat[int(rng.integers(0, table.size))] = levels * 3.0 + 2.0       # at least one finite peak
    lk = GridLikelihood(table, smooth=smooth, blob=blob)
    s = Sampler(identity_prior, lk, n_dim=n_dim, n_live=n_live, n_batch=n_batch, n_update=n_update, n_networks=0, seed=seed)
    return s, lk
