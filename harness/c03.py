"""C03 — posterior rows are faithful (point, log-likelihood, blob) triples, once each

proof:  lean/NautilusVerif/Properties/C03.lean (model: Model/Core.lean, invariants: Model/CoreInv.lean)
tie:    correspondence R — real Sampler histories recorded by corerec.Recorder and replayed operation by operation
        through the Lean Core model (state after every operation compared; the model's decidable invariants are
        evaluated on the abstraction of every real state)
search: the property's own observables evaluated on the real sampler at every operation boundary (corechecks.py)
"""
import common
import corechecks

THEOREMS = ['C03_aligned', 'C03_rows', 'C03_once', 'C03_append']
MODULE = 'NautilusVerif.Properties.C03'
FILES = ['nautilus/sampler.py']
INVARIANTS = ['aligned', 'nodup']


def run(chk):
    chk.extra['source_digest'] = common.source_digest(FILES)
    chk.prove(MODULE, THEOREMS)
    if chk.tier == 'thorough':
        chk.leanchecker([MODULE])
    results = corechecks.run_all(chk.tier, chk.seed)
    corechecks.report(chk, 'C03', results, INVARIANTS)
    chk.assumptions += ['the user likelihood is a pure function of its argument', 'pool.map returns results in input order (C11)']
    chk.trusted += ['harness/corerec.py (outside instrumentation + abstraction of the real state)', 'harness/corechecks.py']


def replay(doc):
    import json
    spec = doc['input']
    r = corechecks._worker({'make': spec['make'], 'script': [tuple(x) if isinstance(x, list) else x for x in spec['script']]})
    if 'crash' in r:
        print('crash:', r['crash'])
        return True
    for f in r['fails']['C03']:
        print(f[0], '-', f[1])
    return bool(r['fails']['C03'])
