"""C03 — posterior rows are faithful (point, log-likelihood, blob) triples, once each

proof:  lean/NautilusVerif/Properties/C03.lean (model: Model/Core.lean, invariants: Model/CoreInv.lean)
tie:    correspondence R — real Sampler histories recorded by corerec.Recorder and replayed operation by operation
        through the Lean Core model (state after every operation compared; the model's decidable invariants are
        evaluated on the abstraction of every real state)
search: the property's own observables evaluated on the real sampler at every operation boundary (corechecks.py)
"""
import contextlib
import io
import warnings

import numpy as np

import common
import corechecks

THEOREMS = ['C03_aligned', 'C03_rows', 'C03_once', 'C03_append']
MODULE = [('NautilusVerif.Properties.C03', None),
          ('NautilusVerif.Properties.C03Eval', ['C03_eval_modes', 'C11_eval_mode_independent', 'C03_split_aligned', 'C03_nocopy_alters_rows']),
          *common.core_tie(['evaluateLikelihood', 'addBound', 'addSamples', 'posterior', 'poolMap'])]
FILES = ['nautilus/sampler.py']
INVARIANTS = ['aligned', 'nodup']


# ---- evaluation-mode matrix with real process pools and user keyword arguments (the instrumented likelihood of the Core
# histories lives in-process; here the likelihood is a pure module-level function, so that every returned row can be recomputed)
def mm_like(x, scale=1.0, offset=0.0):
    return float(-0.5 * scale * np.sum(((np.asarray(x) - 0.45) / 0.12) ** 2) + offset), float(np.asarray(x)[0] * 3.0 + offset)


def mm_like_dict(p, scale=1.0, offset=0.0):
    x = np.array([p['a'], p['b']])
    return float(-0.5 * scale * np.sum(((x - 0.45) / 0.12) ** 2) + offset), float(p['a'] * 3.0 + offset)


def mm_like_vec(x, scale=1.0, offset=0.0):
    x = np.atleast_2d(x)
    return (-0.5 * scale * np.sum(((x - 0.45) / 0.12) ** 2, axis=1) + offset), x[:, 0] * 3.0 + offset


def mm_prior(u, stretch=1.0):
    return np.asarray(u) * stretch


def mm_prior_inplace(u, stretch=1.0):
    """a prior that writes into the array it is given (allowed: the sampler must hand it a copy)"""
    u *= stretch
    return u


def mm_like_mixed(x, scale=1.0, offset=0.0):
    """three blobs of different types: an integer identifier beyond 2**53 (not representable as a float), a float, a bool"""
    x = np.asarray(x)
    ident = np.int64(2 ** 53 + 1 + 2 * int(x[0] * 1e6))
    return float(-0.5 * scale * np.sum(((x - 0.45) / 0.12) ** 2) + offset), ident, float(x[1] * 3.0 + offset), bool(x[0] > x[1])


def mode_matrix(seed):
    """returns (cases, failures): every posterior row must carry exactly what the user's likelihood (with the user's keyword
    arguments) returns for that row, whatever evaluates it"""
    from nautilus import Sampler, Prior
    from scipy.stats import uniform
    fails, cases = [], []
    kws = dict(scale=0.6, offset=-2.5)
    matrix = [dict(name='pool=2,likelihood_kwargs', pool=2, like=mm_like, likelihood_kwargs=kws),
              dict(name='pool=3,likelihood_kwargs,prior_kwargs', pool=3, like=mm_like, likelihood_kwargs=kws, prior_kwargs=dict(stretch=0.9)),
              dict(name='serial,likelihood_kwargs', pool=None, like=mm_like, likelihood_kwargs=kws),
              dict(name='vectorized,likelihood_kwargs', pool=None, like=mm_like_vec, likelihood_kwargs=kws, vectorized=True),
              dict(name='pool=2,Prior-dict,likelihood_kwargs', pool=2, like=mm_like_dict, likelihood_kwargs=kws, prior='dict'),
              dict(name='pool=2,in-place prior', pool=2, like=mm_like, likelihood_kwargs=kws, prior='inplace', prior_kwargs=dict(stretch=0.9)),
              dict(name='serial,in-place prior,n_batch=1', pool=None, like=mm_like, likelihood_kwargs=kws, prior='inplace', prior_kwargs=dict(stretch=0.9), n_batch=1),
              dict(name='serial,mixed blob types', pool=None, like=mm_like_mixed, likelihood_kwargs=kws, mixed=True),
              dict(name='pool=2,mixed blob types,n_batch=1', pool=2, like=mm_like_mixed, likelihood_kwargs=kws, mixed=True, n_batch=1)]
    for k, c in enumerate(matrix):
        kw = dict(n_live=60, n_batch=c.get('n_batch', 12), n_networks=0, seed=seed + k, pool=c['pool'], vectorized=c.get('vectorized', False),
                  likelihood_kwargs=c.get('likelihood_kwargs') or {}, prior_kwargs=c.get('prior_kwargs') or {})
        if c.get('prior') == 'dict':
            pr = Prior()
            pr.add_parameter('a', dist=uniform(0.0, 0.9))
            pr.add_parameter('b', dist=uniform(0.1, 0.8))
            args = (pr, c['like'])
        else:
            args = (mm_prior_inplace if c.get('prior') == 'inplace' else mm_prior, c['like'])
            kw['n_dim'] = 2
        s = None
        try:
            with warnings.catch_warnings(), contextlib.redirect_stdout(io.StringIO()):
                warnings.simplefilter('ignore')
                s = Sampler(*args, **kw)
                s.run(n_eff=40 if c.get('n_batch') == 1 else 120, verbose=False)
                pts, log_w, log_l, blobs = s.posterior(return_blobs=True)
            lkw = c.get('likelihood_kwargs') or {}
            bad = None
            for j in range(len(pts)):
                if c.get('prior') == 'dict':
                    want = mm_like_dict({'a': pts[j][0], 'b': pts[j][1]}, **lkw)
                elif c.get('mixed'):
                    want = mm_like_mixed(pts[j], **lkw)
                    names = blobs.dtype.names or ()
                    got = tuple(blobs[j][n] for n in names)
                    kinds = tuple(blobs.dtype[n].kind for n in names)
                    if kinds != ('i', 'f', 'b') or float(log_l[j]) != want[0] or len(got) != 3 or int(got[0]) != int(want[1]) or \
                            float(got[1]) != want[2] or bool(got[2]) != want[3]:
                        bad = (j, float(log_l[j]), 'blobs %r of kinds %r' % (tuple(map(str, got)), kinds), want)
                        break
                    continue
                else:
                    want = mm_like(pts[j], **lkw)
                if not (float(log_l[j]) == want[0] and float(blobs[j]) == want[1]):
                    bad = (j, float(log_l[j]), float(blobs[j]), want)
                    break
            if bad is not None:
                fails.append(('posterior-row-not-what-the-likelihood-returns:' + c['name'].split(',')[0].split('=')[0],
                              'mode %s: row %d has log_l=%r blob=%r, the user likelihood (with its keyword arguments) returns %r for this point' % (
                                  c['name'], bad[0], bad[1], bad[2], bad[3]), {'mode': c['name'], 'seed': seed + k, 'base_seed': seed}))
            if len({np.ascontiguousarray(r).tobytes() for r in pts}) != len(pts):
                fails.append(('posterior-row-duplicated', 'mode %s: a point appears twice in posterior()' % c['name'], {'mode': c['name'], 'seed': seed + k, 'base_seed': seed}))
            cases.append({'mode': c['name'], 'rows': int(len(pts))})
        except Exception as e:
            fails.append(('evaluation-mode-raises:' + type(e).__name__, 'mode %s raised %s: %s' % (c['name'], type(e).__name__, str(e)[:120]),
                          {'mode': c['name'], 'seed': seed + k, 'base_seed': seed}))
        finally:
            if s is not None and getattr(s, 'pool_l', None) is not None and hasattr(s.pool_l.pool, 'close'):
                s.pool_l.pool.close()
                s.pool_l.pool.join()
    return cases, fails


def run(chk):
    chk.extra['source_digest'] = common.source_digest(FILES)
    chk.prove([(m, THEOREMS if ths is None else ths) for m, ths in MODULE], None,
              {'NautilusVerif/Generated/CoreSrc.lean': __import__('gen_core').generate(common.REPO)[0]})
    if chk.tier == 'thorough':
        chk.leanchecker([m for m, _ in MODULE])
    results = corechecks.run_all(chk.tier, chk.seed)
    corechecks.report(chk, 'C03', results, INVARIANTS)
    cases, mfails = mode_matrix(chk.seed)
    for key, what, d in mfails:
        chk.fail(key, what, {'input': dict(d, kind='mode-matrix')})
    chk.extra['mode_matrix'] = cases
    chk.assumptions += ['the user likelihood is a pure function of its argument', 'pool.map returns results in input order (C11)']
    chk.trusted += ['harness/corerec.py (outside instrumentation + abstraction of the real state)', 'harness/corechecks.py']


def replay(doc):
    import json
    spec = doc['input']
    if spec.get('kind') == 'mode-matrix':
        cases, mfails = mode_matrix(int(spec['base_seed']))
        for f in mfails:
            print(f[0], '-', f[1])
        return bool(mfails)
    r = corechecks._worker({'make': spec['make'], 'script': [tuple(x) if isinstance(x, list) else x for x in spec['script']]})
    if 'crash' in r:
        print('crash:', r['crash'])
        return True
    for f in r['fails']['C03']:
        print(f[0], '-', f[1])
    return bool(r['fails']['C03'])
