"""Observed-oracle recording of a real Sampler history for the `Core` model (mode R of DESIGN §2.4).

The real sampler runs unmodified; instance-level wrappers on add_bound / add_samples / sample_shell observe
what the numerics returned (proposals, survivors, transfer picks, accepted bounds).  After the run every
(bound, row) containment is recomputed with the real `contains`, and everything is written as one request line
for the Lean driver (`core ...`), together with the abstraction of the real state after every operation.
"""
import types

import numpy as np

import runs

BAD = 10 ** 9


class BoundProxy:
    """stands in for sampler.bounds[index] during one sample_shell call; records what sample() returns"""

    def __init__(self, real, log):
        self.__dict__['_real'] = real
        self.__dict__['_log'] = log

    def sample(self, *a, **k):
        r = self._real.sample(*a, **k)
        if r is not None:
            self._log.append(np.array(r, copy=True))
        return r

    def __getattr__(self, name):
        return getattr(self._real, name)

    def __setattr__(self, name, value):
        setattr(self._real, name, value)


class Recorder:
    def __init__(self, sampler, lk):
        self.s, self.lk = sampler, lk
        self.rows = {}             # row bytes -> point id
        self.row_list = []
        self.bounds = []           # bound objects by model id
        self.ops = []              # model op words
        self.states = []           # abstraction of the real state after each op
        self.outs = []
        self.notes = []
        self.iter_evals = []       # number of likelihood calls per add_samples
        self.explored_seen = bool(sampler.explored)
        self.full = False          # full state strings (debugging / replay) or compact fingerprints
        self.cur_rounds = None
        self.drawn = {}            # model bound id -> number of rows its sample() returned to sample_shell (independent count)
        self._install()

    # ---- ids
    def pid(self, row, create=True):
        b = np.ascontiguousarray(row, dtype=float).tobytes()
        i = self.rows.get(b)
        if i is None:
            if not create:
                return None
            i = len(self.row_list)
            self.rows[b] = i
            self.row_list.append(np.array(row, dtype=float, copy=True))
        return i

    def bid(self, bound):
        real = bound._real if isinstance(bound, BoundProxy) else bound
        for i, b in enumerate(self.bounds):
            if b is real:
                return i
        self.bounds.append(real)
        return len(self.bounds) - 1

    # ---- wrappers
    def _install(self):
        s = self.s
        rec = self
        orig_add_bound = s.add_bound
        orig_add_samples = s.add_samples
        orig_sample_shell = s.sample_shell

        def add_bound(self_, *a, **k):
            rec.sync_phase()
            n0 = len(self_.bounds)
            r = orig_add_bound(*a, **k)
            if r:
                if len(self_.bounds) != n0 + 1:
                    rec.notes.append('add_bound returned True without appending exactly one bound')
                rec.ops.append('B %d' % rec.bid(self_.bounds[-1]))
            else:
                rec.ops.append('B -')
            rec.outs.append('ok:true' if r else 'ok:false')
            rec.states.append(rec.abstract())
            return r

        def sample_shell(self_, index, shell_t=None):
            log = []
            real = self_.bounds[index]
            self_.bounds[index] = BoundProxy(real, log)
            try:
                res = orig_sample_shell(index, shell_t)
            finally:
                self_.bounds[index] = real
            k = rec.bid(real)        # not id(real): ids of dead objects of an earlier segment are reused
            rec.drawn[k] = rec.drawn.get(k, 0) + sum(len(x) for x in log)
            points = res[0]
            idx_t = list(map(int, res[2])) if len(res) > 2 else []
            rounds = []
            rest = [rec.pid(p) for p in points]
            for props in log:
                ids = [rec.pid(p) for p in props]
                sset = set(ids)
                k = 0
                while k < len(rest) and rest[k] in sset:
                    k += 1
                rounds.append((ids, rest[:k]))
                rest = rest[k:]
            if rest:
                rec.notes.append('sample_shell returned rows that no bound.sample() call produced')
                rounds.append(([], rest))
            rec.cur_rounds = (rounds, idx_t, int(res[1]))
            return res

        def add_samples(self_, shell, *a, **k):
            rec.sync_phase()
            n0 = len(rec.lk.calls)
            rec.cur_rounds = None
            r = orig_add_samples(shell, *a, **k)
            rec.iter_evals.append(len(rec.lk.calls) - n0)
            rounds, idx_t, n_bound = rec.cur_rounds if rec.cur_rounds else ([], [], 0)
            w = 'S %s ' % ('-' if shell == -1 else str(int(shell)))
            w += ' '.join('R ' + ' '.join(map(str, p)) + ' K ' + ' '.join(map(str, kk)) for p, kk in rounds)
            w += ' T ' + ' '.join(map(str, idx_t))
            rec.ops.append(w)
            rec.outs.append('ok')
            rec.states.append(rec.abstract())
            return r

        orig_run = s.run

        def run(self_, f_live=0.01, n_shell=1, n_eff=10000, n_like_max=np.inf, discard_exploration=False, timeout=np.inf,
                verbose=False):
            # the events of one run() call for the `Run` model: entry marker with the arguments the bookkeeping sees,
            # (operations recorded by the wrappers above), return marker with the return value and the float comparison
            rec.sync_phase()
            import math
            mx = '-' if n_like_max == np.inf else str(max(0, int(math.ceil(n_like_max))))
            rec.ops.append('RUN %d %d %d %s' % (int(n_shell), 1 if discard_exploration else 0, int(self_.n_live), mx))
            rec.outs.append('ok')
            rec.states.append(rec.abstract())
            ret = orig_run(f_live=f_live, n_shell=n_shell, n_eff=n_eff, n_like_max=n_like_max,
                           discard_exploration=discard_exploration, timeout=timeout, verbose=verbose)
            rec.sync_phase()
            with np.errstate(all='ignore'):
                ok = bool(self_.n_eff >= n_eff)
            rec.ops.append('END %d %d' % (1 if ret else 0, 1 if ok else 0))
            rec.outs.append('ok')
            rec.states.append(rec.abstract())
            return ret

        s.run = types.MethodType(run, s)
        s.add_bound = types.MethodType(add_bound, s)
        s.sample_shell = types.MethodType(sample_shell, s)
        s.add_samples = types.MethodType(add_samples, s)

    def rebind(self, s2, lk2):
        """a new sampler object has been resumed from the checkpoint file: keep recording.  Model bound ids are kept by
        position (the model has no object identity); the abstraction of the resumed sampler is recorded as the state after
        the pseudo-operation `R`, which the model treats as the identity — so `load . persist = id` is checked on the
        abstraction at every resume, and the history after it is replayed like the one before"""
        self.sync_phase()
        old = self.s
        if len(s2.bounds) != len(old.bounds):
            self.notes.append('resume changed the number of bounds: %d -> %d' % (len(old.bounds), len(s2.bounds)))
        ids = [self.bid(b) for b in old.bounds]
        rows = np.array(self.row_list) if self.row_list else None
        for i, b in enumerate(s2.bounds):
            if i < len(ids):
                if type(b).__name__ != type(old.bounds[i]).__name__:
                    self.notes.append('resume: bound %d was a %s, the resumed sampler holds a %s' % (
                        i, type(old.bounds[i]).__name__, type(b).__name__))
                if rows is not None:
                    try:
                        n_diff = int(np.sum(np.asarray(b.contains(rows), dtype=bool) != np.asarray(old.bounds[i].contains(rows), dtype=bool)))
                    except Exception as e:
                        n_diff = -1
                        self.notes.append('resume: contains() of the resumed bound %d raised %s' % (i, type(e).__name__))
                    if n_diff > 0:
                        self.notes.append('resume: contains() of bound %d differs on %d of %d recorded rows' % (i, n_diff, len(rows)))
                self.bounds[ids[i]] = b
        self.s, self.lk = s2, lk2
        self._install()
        self.ops.append('R')
        self.outs.append('ok')
        self.states.append(self.abstract())

    def sync_phase(self):
        """exploration ended since the last recorded operation → record it"""
        if self.s.explored and not self.explored_seen:
            self.explored_seen = True
            self.ops.append('E %d' % (1 if self.s._discard_exploration else 0))
            self.outs.append('ok')
            self.states.append(self.abstract())

    def set_discard(self, b):
        self.sync_phase()
        self.s.discard_exploration = b
        self.ops.append('D %d' % (1 if b else 0))
        self.outs.append('ok')
        self.states.append(self.abstract())

    # ---- abstraction of the real state, in the driver's output format
    def abstract(self):
        s = self.s
        value = {}          # row bytes -> logged log-likelihood
        serial_row = []
        for arg, ll in self.lk.calls:
            value[arg] = ll
            serial_row.append(arg)

        def lst(l):
            """the driver's compact fingerprint of a list: length, sum and position-weighted sum modulo 2^64"""
            if self.full:
                return '[' + ','.join(str(int(x)) for x in l) + ']'
            a = np.array([int(x) % (1 << 64) for x in l], dtype=np.uint64)
            with np.errstate(over='ignore'):
                sm = int(np.sum(a, dtype=np.uint64)) if len(a) else 0
                w = int(np.sum(a * np.arange(1, len(a) + 1, dtype=np.uint64), dtype=np.uint64)) if len(a) else 0
            return '%d:%d:%d' % (len(a), sm, w)

        def ids3(points, log_l, blobs):
            p = [self.pid(r, create=False) for r in points]
            p = [BAD if x is None else x for x in p]
            ll = []
            for j, r in enumerate(points):
                v = value.get(np.ascontiguousarray(r, dtype=float).tobytes())
                same = v is not None and j < len(log_l) and (v == log_l[j] or (np.isnan(v) and np.isnan(log_l[j])))
                ll.append(p[j] if same else BAD + 1)
            ll += [BAD + 2] * max(0, len(log_l) - len(points))
            if blobs is None:
                bb = list(p)
            elif np.ndim(blobs) == 0:
                bb = [BAD + 6]          # the blob array lost its row axis
            else:
                bb = []
                for j in range(len(blobs)):
                    ser = blobs[j]
                    try:
                        if self.lk.blob == 'float':     # blob = 2 * x[0] of its own point
                            bb.append(p[j] if j < len(points) and float(ser) == float(points[j][0] * 2.0) else BAD + 3)
                            continue
                        ser = int(ser[0]) if getattr(ser, 'shape', ()) != () or isinstance(ser, (tuple, np.void)) else int(ser)
                        bb.append(self.rows.get(serial_row[ser], BAD + 3))
                    except Exception:
                        bb.append(BAD + 4)
            return p, ll, bb
        shells = []
        nb = len(s.bounds)
        for i in range(nb):
            blobs_i = None if s.blobs is None else (s.blobs[i] if i < len(s.blobs) else [])
            if i < len(s.points) and i < len(s.log_l):
                p, ll, bb = ids3(s.points[i], s.log_l[i], blobs_i)
            else:
                p, ll, bb = [BAD + 5], [], []

            def g(name, d=0):
                a = getattr(s, name)
                return int(a[i]) if i < len(a) else d
            shells.append('b=%d p=%s l=%s x=%s ns=%d nse=%d ee=%d n=%d' % (
                self.bid(s.bounds[i]), lst(p), lst(ll), lst(bb), g('shell_n_sample'), g('shell_n_sample_exp'),
                g('shell_end_exp'), g('shell_n')))
        tp, tl, tb = ids3(s.points_t, s.log_l_t, s.blobs_t)
        st = ' ; '.join(shells) + ' # t=%s %s %s %s # ex=%s d=%s nl=%d' % (
            lst(tp), lst(tl), lst(tb), lst(s.shell_t if self.full else [int(x) + 1 for x in s.shell_t]), 'true' if s.explored else 'false',
            'true' if s._discard_exploration else 'false', int(s.n_like))
        return st

    # ---- the request line
    def request(self):
        self.sync_phase()
        rows = np.array(self.row_list) if self.row_list else np.zeros((0, self.s.n_dim))
        masks = np.zeros(len(rows), dtype=object)
        masks[:] = 0
        for b, bound in enumerate(self.bounds):
            if len(rows):
                c = np.asarray(bound.contains(rows), dtype=bool)
                for j in np.flatnonzero(c):
                    masks[j] += (1 << b)
        cube = np.all((rows >= 0) & (rows < 1), axis=1) if len(rows) else []
        pts = ' '.join('%d:%d:%d' % (i, masks[i], 1 if cube[i] else 0) for i in range(len(rows)))
        return '%s %d | P %s | %s' % ('corefull' if self.full else 'core', self.s.n_batch, pts, ' | '.join(self.ops))


INV_OK = 'inshells=true tlast=true nodup=true aligned=true counts=true shape=true run=true'


def compare(rec, reply):
    """returns (list of disagreements, list of (op index, invariants string) where an invariant is false)"""
    dis, inv = [], []
    if reply == 'bad-op':
        return [{'op': -1, 'what': 'driver rejected the request'}], []
    parts = reply.split(' ;; ') if reply else []
    if len(parts) != len(rec.ops):
        dis.append({'op': -1, 'what': 'model produced %d states for %d operations' % (len(parts), len(rec.ops))})
    for k, part in enumerate(parts[:len(rec.ops)]):
        out, st, iv = [x.strip() for x in part.split(' # ', 1)[0:1] + part.split(' # ', 1)[1].rsplit(' # ', 1)]
        if out != rec.outs[k] or st.strip() != rec.states[k].strip():
            dis.append({'op': k, 'opword': rec.ops[k][:200], 'model_out': out, 'impl_out': rec.outs[k],
                        'model': summarize(st), 'impl': summarize(rec.states[k])})
        if iv != INV_OK:
            inv.append((k, iv))
    return dis, inv


def summarize(st, cap=400):
    return st if len(st) <= cap else st[:cap // 2] + ' ... ' + st[-cap // 2:]
