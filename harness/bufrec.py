"""Observed-oracle recording of NautilusBound.sample / Union.sample for the `SampleBuf` model (Model/SampleBuf.lean).

The real classes run unmodified.  Three *instance-level* hooks (picklable, so that they travel into the worker copies of a
pool and their logs travel back with the returned copies) observe what the numerics did:
  * the first member of the outer union: every pass of the `while` loop of Union.sample starts with a `sample` call on it —
    the length of the union's cache at that moment marks the pass boundary;
  * the outer union's `sample`: which points each pass kept, what was handed to the caller, how long the inner cache was;
  * the phase shift's `transform`: the argument of every inverse call (the points handed out, still in the shifted frame).
From these the request line for the Lean driver is built (`buf | sample ... | ...`) together with the real cache / counter
state after every operation, in the driver's output format.
"""
import types

import numpy as np

import runs


def _member_sample(self, *a, **k):
    self._owner._marks.append(len(self._owner.points))
    return type(self).sample(self, *a, **k)


def _outer_sample(self, n_points=100):
    self._marks = []
    inner_len = len(self._nb.points)
    r = type(self).sample(self, n_points)
    full = np.vstack([r, self.points])
    marks = list(self._marks) + [len(full)]
    passes = [np.array(full[marks[i]:marks[i + 1]], copy=True) for i in range(len(marks) - 1)]
    self._calls.append({'inner_len': inner_len, 'passes': passes, 'ret': np.array(r, copy=True), 'n': int(n_points)})
    return r


def _shift_transform(self, points, inverse=False):
    if inverse:
        self._inv_log.append(np.array(points, copy=True))
    return type(self).transform(self, points, inverse=inverse)


class Hook:
    """picklable stand-in for a bound method: `obj.name = Hook(function, obj)` (pickle cannot serialise a bound method of a
    function that is not an attribute of the object's class)"""

    def __init__(self, fn_name, obj):
        self.fn_name, self.obj = fn_name, obj

    def __call__(self, *a, **k):
        return globals()[self.fn_name](self.obj, *a, **k)


class CapturePool(runs.PicklePool):
    """PicklePool that keeps what the workers returned"""

    def __init__(self, size):
        super().__init__(size)
        self.results = []

    def map(self, func, iterable):
        res = super().map(func, iterable)
        self.results.append(res)
        return res


class BufRecorder:
    def __init__(self, nb):
        self.nb = nb
        self.ids = {}
        self.ops = []        # request words
        self.states = []     # expected reply per op
        self.notes = []
        self.fails = []      # (key, what, detail): property-level observations
        self.handed = 0      # ghost: points handed out since the last reset
        self.discarded = 0   # ghost: points left in the outer caches of worker copies since the last reset
        o = nb.outer_bound
        o._nb = nb
        o._calls = []
        o._marks = []
        o.sample = Hook('_outer_sample', o)
        m = o.bounds[0]
        m._owner = o
        m.sample = Hook('_member_sample', m)
        if nb.shift is not None:
            nb.shift._inv_log = []
            nb.shift.transform = Hook('_shift_transform', nb.shift)

    def pid(self, row):
        b = np.ascontiguousarray(row, dtype=float).tobytes()
        i = self.ids.get(b)
        if i is None:
            i = len(self.ids)
            self.ids[b] = i
        return i

    def idl(self, arr):
        return [self.pid(r) for r in arr]

    @staticmethod
    def fp(l):
        a = np.array([int(x) % (1 << 64) for x in l], dtype=np.uint64)
        with np.errstate(over='ignore'):
            sm = int(np.sum(a, dtype=np.uint64)) if len(a) else 0
            w = int(np.sum(a * np.arange(1, len(a) + 1, dtype=np.uint64), dtype=np.uint64)) if len(a) else 0
        return '%d:%d:%d' % (len(a), sm, w)

    def state(self, ret_ids):
        nb, o = self.nb, self.nb.outer_bound
        return 'inner=%s/%d/%d outer=%s/%d/%d ret=%s' % (
            self.fp(self.idl(nb.points)), int(nb.n_sample), int(nb.n_reject),
            self.fp(self.idl(o.points)), int(o.n_sample), int(o.n_reject), self.fp(ret_ids))

    def rounds_words(self, calls, full_inner):
        """the rounds of one serial fill: per outer call its passes, and the accepted points = growth of the inner cache"""
        w = []
        for k, c in enumerate(calls):
            end = calls[k + 1]['inner_len'] if k + 1 < len(calls) else len(full_inner)
            acc = full_inner[c['inner_len']:end]
            w.append('rd')
            for p in c['passes']:
                w += ['ps'] + [str(i) for i in self.idl(p)]
            w += ['acc'] + [str(i) for i in self.idl(acc)]
            if c['n'] != 1000:
                self.notes.append('outer_bound.sample called with n=%d' % c['n'])
        return w

    def reset(self):
        self.nb.reset()
        self.handed, self.discarded = 0, 0
        self.ops.append('reset')
        self.states.append(self.state([]))

    def sample(self, n, ret=True, pool=None):
        nb, o = self.nb, self.nb.outer_bound
        o._calls = []
        if nb.shift is not None:
            nb.shift._inv_log = []
        if pool is not None:
            pool.results = []
        out = nb.sample(n, return_points=ret, pool=pool) if pool is not None else nb.sample(n, return_points=ret)
        raw = np.zeros((0, nb.n_dim))
        if ret:
            if nb.shift is not None:
                if len(nb.shift._inv_log) != 1:
                    self.fails.append(('inverse-shift-not-applied-exactly-once', 'sample(%d) applied the inverse phase shift %d times '
                                       'in the calling process' % (n, len(nb.shift._inv_log)), {'n': n}))
                raw = nb.shift._inv_log[-1] if nb.shift._inv_log else np.asarray(out)
                want = type(nb.shift).transform(nb.shift, raw, inverse=True)
                if np.shape(out) != np.shape(want) or not np.array_equal(out, want):
                    self.fails.append(('handed-out-points-not-the-unshifted-cache', 'sample(%d) did not return the inverse shift of the '
                                       'first cached points' % n, {'n': n}))
            else:
                raw = np.asarray(out)
            if len(out) != n:
                self.fails.append(('sample-returns-wrong-number', 'sample(%d) returned %d points' % (n, len(out)), {'n': n}))
        full_inner = np.vstack([raw, nb.points])
        words = ['sample', str(int(n)), '1' if ret else '0']
        used_pool = pool is not None and pool.results
        if used_pool:
            words.append('pool')
            for wb in pool.results[-1]:
                if not hasattr(wb, 'outer_bound') or not hasattr(wb.outer_bound, '_calls'):
                    self.notes.append('a pool worker did not return a copy of the bound (%s)' % type(wb).__name__)
                    words += ['jb', 'rd', 'acc']
                    continue
                words.append('jb')
                words += self.rounds_words(wb.outer_bound._calls, wb.points)
        else:
            words.append('ser')
            words += self.rounds_words(o._calls, full_inner)
        self.ops.append(' '.join(words))
        self.states.append(self.state(self.idl(raw) if ret else []))
        # ---- the invariant `SampleBuf.OK` evaluated on the real object (ghost values supplied from the observations)
        if used_pool:
            self.discarded += sum(len(wb.outer_bound.points) for wb in pool.results[-1] if hasattr(wb, 'outer_bound'))
        self.handed += len(raw) if ret else 0
        ctx = {'n': int(n), 'return_points': bool(ret), 'pool': pool is not None, 'op': len(self.ops) - 1}
        if int(nb.n_sample) - int(nb.n_reject) != len(nb.points) + self.handed:
            self.fails.append(('counters-do-not-account-for-samples', 'NautilusBound: n_sample - n_reject = %d but %d points are cached and %d '
                               'were handed out since reset()' % (int(nb.n_sample) - int(nb.n_reject), len(nb.points), self.handed), ctx))
        if int(o.n_sample) - int(o.n_reject) != len(o.points) + int(nb.n_sample) + self.discarded:
            self.fails.append(('outer-counters-inconsistent-with-inner-proposals', 'outer union: n_sample - n_reject = %d, but it caches %d points, '
                               'handed %d to the network level (= its n_sample) and %d stayed in worker copies' % (
                                   int(o.n_sample) - int(o.n_reject), len(o.points), int(nb.n_sample), self.discarded), ctx))
        if ret and len(out):
            inb = np.asarray(nb.contains(out), dtype=bool)
            if not np.all(inb):
                self.fails.append(('sampled-point-not-contained', '%d of %d points returned by sample() are not contained in the bound '
                                   '(periodic=%s, pool=%s)' % (int(np.sum(~inb)), len(out), nb.shift is not None, pool is not None), ctx))
        return out

    def request(self):
        return 'buf | ' + ' | '.join(self.ops)


def compare(rec, reply):
    """list of disagreements between the model's replies and the recorded real states"""
    dis = []
    if reply == 'bad-op':
        return [{'op': -1, 'what': 'driver rejected the request'}]
    parts = reply.split(' ;; ')
    if len(parts) != len(rec.ops):
        return [{'op': -1, 'what': 'model produced %d states for %d operations' % (len(parts), len(rec.ops))}]
    for k, (got, want) in enumerate(zip(parts, rec.states)):
        if got == 'bad-oracle':
            dis.append({'op': k, 'opword': rec.ops[k][:80], 'model': 'bad-oracle (the recorded passes / rounds are not ones the loops of the model make)', 'impl': want})
            break
        ok, _, st = got.partition(' ')
        if st != want or ok != 'ok=true':
            dis.append({'op': k, 'opword': rec.ops[k][:80], 'model': got, 'impl': want})
            break
    return dis
