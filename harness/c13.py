"""C13 — a union of ellipsoids stays well-formed under any split / trim / sample order.

proof:  lean/NautilusVerif/Properties/C13.lean
tie:    correspondence R (observed-oracle replay): every operation word up to a bounded length over
        {split(overlap ok), split(no overlap), trim(1e3), trim(1.5), sample(50)} on real `Union` objects;
        the numeric answers (mixture labels/ranks, argmax index, overlap, volume comparison, density test,
        rejections per refill) are observed and handed to the Lean model, whose records after every
        operation must equal the abstraction of the real object's records.
search: the property's own clauses evaluated on the real object after every operation.
"""
import copy
import itertools
import multiprocessing as mp
import os

import numpy as np

import common

THEOREMS = ['C13_records', 'C13_records_step', 'C13_points', 'C13_minPoints', 'C13_volume', 'C13_refused',
            'C13_noRaise', 'C13_legacy_trim_then_split_raises', 'C13_legacy_split_below_minimum']
MODULE = 'NautilusVerif.Properties.C13'
FILES = ['nautilus/bounds/union.py', 'nautilus/bounds/basic.py']

LETTERS = {'S1': ('split', True), 'S0': ('split', False), 'T3': ('trim', 1e3), 'T1': ('trim', 1.5), 'P': ('sample', 50)}


# ------------------------------------------------------------------------------------------ instrumentation

class Obs:
    """per-process observation state"""
    rows = {}          # row bytes -> id
    attempts = []      # oracle dicts of the current split call (one per recursive attempt)
    points_log = []    # lengths assigned to union.points during the current call
    gmm = []


def install():
    import nautilus.bounds.union as um
    from nautilus.bounds.basic import Ellipsoid, UnitCubeEllipsoidMixture
    if getattr(um, '_nv_installed', False):
        return um
    um._nv_installed = True

    def tag_compute(cls):
        orig = cls.compute.__func__

        def compute(c, points, *a, **k):
            b = orig(c, points, *a, **k)
            try:
                b._nv_ids = ids_of(points)
            except Exception:
                b._nv_ids = None
            return b
        cls.compute = classmethod(compute)
    tag_compute(Ellipsoid)
    tag_compute(UnitCubeEllipsoidMixture)

    GM = um.GaussianMixture

    class RecGM(GM):
        def fit(self, X, y=None):
            r = super().fit(X, y)
            Obs.gmm.append((self, np.array(X)))
            return r
    um.GaussianMixture = RecGM

    orig_overlap = um.ellipsoids_overlap

    def overlap(ells):
        r = orig_overlap(ells)
        if Obs.attempts:
            Obs.attempts[-1]['overlap'] = bool(r)
        return r
    um.ellipsoids_overlap = overlap

    orig_lse = um.logsumexp

    def lse(a, *args, **kw):
        r = orig_lse(a, *args, **kw)
        if isinstance(a, list) and len(a) == 2 and Obs.attempts:
            Obs.attempts[-1]['lse_new'] = float(r)
        return r
    um.logsumexp = lse

    orig_split = um.Union.split

    def split(self, allow_overlap=True):
        att = {'index': None, 'overlap': False, 'lse_new': None, 'old': None, 'n_gmm_before': len(Obs.gmm)}
        try:
            if np.any(~self.block):
                idx = int(np.argmax(np.where(~self.block, self.log_v_all, -np.inf)))
                att['index'] = idx
                att['old'] = float(self.bounds[idx].log_v)
                att['member_ids'] = ids_of(self.points_bounds[idx])
        except Exception:
            pass
        Obs.attempts.append(att)
        return orig_split(self, allow_overlap=allow_overlap)
    um.Union.split = split

    class ObsUnion(um.Union):
        @property
        def points(self):
            return self.__dict__['_pts']

        @points.setter
        def points(self, v):
            self.__dict__['_pts'] = v
            Obs.points_log.append(len(v))
    um.ObsUnion = ObsUnion
    return um


def ids_of(points):
    return [Obs.rows[np.ascontiguousarray(p).tobytes()] for p in points]


# ------------------------------------------------------------------------------------------ abstraction

def lst(l):
    return '[' + ','.join(str(int(x)) for x in l) + ']'


def abstract(u):
    def ids(b):
        t = getattr(b, '_nv_ids', None)
        return lst(t) if t is not None else '?'
    bounds = [ids(b) for b in u.bounds]
    pts = []
    for p in u.points_bounds:
        try:
            pts.append(lst(ids_of(p)))
        except KeyError:
            pts.append('?')
    logv = []
    for i, v in enumerate(np.atleast_1d(u.log_v_all)):
        j = i if i < len(u.bounds) and u.bounds[i].log_v == v else next(
            (k for k, b in enumerate(u.bounds) if b.log_v == v), None)
        logv.append(bounds[j] if j is not None else '?')
    block = ''.join('1' if b else '0' for b in np.atleast_1d(u.block))
    return 'bounds=%s | pts=%s | logv=%s | block=%s | cache=%d ns=%d nr=%d' % (
        ' '.join(bounds), ' '.join(pts), ' '.join(logv), block, len(u.points), int(u.n_sample), int(u.n_reject))


def oracle_line(att, um):
    """turn an observed attempt into the model's oracle word idx:labels:rank0:rank1:ov:gr"""
    if att['index'] is None:
        return None
    if len(Obs.gmm) <= att['n_gmm_before']:
        return '%d:-:-:-:0:0' % att['index']      # attempt ended before the mixture fit (raised)
    gmm, X = Obs.gmm[att['n_gmm_before']]
    p = np.vstack([um.multivariate_normal.logpdf(X, mean=gmm.means_[i], cov=gmm.covariances_[i]) +
                   np.log(gmm.weights_[i]) for i in range(2)]).T
    labels = np.argmax(p, axis=1)
    r0 = np.argsort(-p[:, 0])
    r1 = np.argsort(-p[:, 1])
    grows = att['lse_new'] is not None and att['lse_new'] > att['old']
    return '%d:%s:%s:%s:%d:%d' % (att['index'], ''.join(str(int(x)) for x in labels), ','.join(map(str, r0)),
                                  ','.join(map(str, r1)), 1 if att['overlap'] else 0, 1 if grows else 0)


# ------------------------------------------------------------------------------------------ one operation

def do_op(u, letter, um, trimmed):
    """apply one letter to the real union; returns (model op words, 'out || state', failures)"""
    kind, arg = LETTERS[letter]
    fails = []
    Obs.attempts, Obs.points_log, Obs.gmm = [], [], []
    pre_bounds = list(u.bounds)
    pre_pts = [ids_of(p) for p in u.points_bounds]
    pre_logv = np.array(u.log_v_all, copy=True)
    pre_total = float(um.logsumexp(np.asarray(u.log_v_all))) if len(np.atleast_1d(u.log_v_all)) else None
    pre_cache = len(u.points)
    pre_block = [bool(x) for x in np.atleast_1d(u.block)]
    exc = None
    ret = None
    trim_or = None
    try:
        if kind == 'split':
            ret = u.split(allow_overlap=arg)
        elif kind == 'trim':
            if len(u.bounds) > 1:
                log_n = np.array([np.log(len(p)) for p in u.points_bounds])
                log_v = np.array([b.log_v for b in u.bounds])
                log_r = log_n - log_v
                ti = int(np.argmin(log_r))
                trim_or = (ti, bool(log_r[ti] - np.median(np.delete(log_r, ti)) < -np.log(arg)))
            ret = u.trim(threshold=arg)
        else:
            out = u.sample(arg)
            ret = True
            if out.shape != (arg, u.n_dim):
                fails.append(('sample-shape', 'sample(%d) returned shape %r' % (arg, out.shape)))
    except Exception as e:   # noqa
        exc = e
    # ---- model op words
    if kind == 'split':
        atts = [oracle_line(a, um) for a in Obs.attempts]
        words = ['split', '1' if arg else '0'] + [a for a in atts if a is not None]
    elif kind == 'trim':
        words = ['trim', str(trim_or[0]) if trim_or else '0', '1' if (trim_or and trim_or[1]) else '0']
    else:
        rej, cur = [], pre_cache
        for ln in Obs.points_log[:-1] if exc is None else Obs.points_log:
            rej.append(1000 - (ln - cur))
            cur = ln
        words = ['sample', str(arg), ','.join(map(str, rej)) if rej else '-']
    out = ('True' if ret else 'False') if exc is None else 'raised:' + type(exc).__name__
    # ---- the property's own clauses on the real object
    if exc is not None:
        fails.append(('operation-raises:%s:%s' % (kind, type(exc).__name__),
                      '%s raised %s: %s' % (letter, type(exc).__name__, str(exc)[:120])))
    n = [len(u.bounds), len(u.points_bounds), len(np.atleast_1d(u.log_v_all)), len(np.atleast_1d(u.block))]
    if len(set(n)) != 1:
        fails.append(('records-misaligned', 'after %s: %d bounds, %d point sets, %d volumes, %d flags' % ((letter,) + tuple(n))))
    else:
        for i, b in enumerate(u.bounds):
            if b.log_v != u.log_v_all[i]:
                fails.append(('volume-record-stale', 'after %s: log_v_all[%d] is not the volume of bounds[%d]' % (letter, i, i)))
            if getattr(b, '_nv_ids', None) is not None and b._nv_ids != ids_of(u.points_bounds[i]):
                fails.append(('points-record-stale', 'after %s: bounds[%d] was not computed from points_bounds[%d]' % (letter, i, i)))
            if len(u.points_bounds[i]) < 2 * u.n_points_min and not u.block[i]:
                fails.append(('flag-record-stale', 'after %s: member %d has %d < 2*%d points but may still be split' % (
                    letter, i, len(u.points_bounds[i]), u.n_points_min)))
    now_pts = [ids_of(p) for p in u.points_bounds]
    if exc is None and kind == 'trim' and ret:
        gone = [p for p in pre_pts if p not in now_pts]
        for g in gone:
            trimmed.update(g)
    if exc is None and kind == 'trim' and ret and len(set(n)) == 1 and len(pre_block) == len(pre_bounds):
        # one consistent record per ellipsoid: dropping one member leaves the records of the others (bound, points, volume,
        # may-split flag) as they were
        for i, b in enumerate(u.bounds):
            j = next((k for k, pb in enumerate(pre_bounds) if pb is b), None)
            if j is None:
                fails.append(('trim-changed-record-of-survivor', 'after %s member %d is not one of the members before' % (letter, i)))
            elif bool(u.block[i]) != pre_block[j] or now_pts[i] != pre_pts[j] or u.log_v_all[i] != pre_logv[j]:
                fails.append(('trim-changed-record-of-survivor', 'after %s the record of a surviving ellipsoid changed (may-split flag %s -> %s, '
                              '%d -> %d points)' % (letter, not pre_block[j], not bool(u.block[i]), len(pre_pts[j]), len(now_pts[i]))))
    have = sorted(x for p in now_pts for x in p)
    want = sorted(set(range(len(Obs.rows))) - trimmed)
    if have != want:
        fails.append(('points-lost-or-duplicated', 'after %s the members hold %d points, expected the %d construction '
                      'points not trimmed' % (letter, len(have), len(want))))
    if exc is None and kind == 'split' and ret:
        for p in u.points_bounds[-2:]:
            if len(p) < u.n_points_min:
                fails.append(('split-member-below-minimum', 'split produced a member with %d < n_points_min=%d points '
                              '(sizes now %r)' % (len(p), u.n_points_min, [len(q) for q in u.points_bounds])))
        post_total = float(um.logsumexp(np.asarray(u.log_v_all)))
        if post_total > pre_total + 1e-9:
            fails.append(('split-increased-volume', 'summed volume grew from %r to %r' % (pre_total, post_total)))
    if exc is None and ret is False:
        same = (len(u.bounds) == len(pre_bounds) and all(a is b for a, b in zip(u.bounds, pre_bounds))
                and now_pts == pre_pts and np.array_equal(np.asarray(u.log_v_all), pre_logv))
        if not same:
            fails.append(('refused-operation-changed-state', '%s returned False but changed ellipsoids or points' % letter))
    return words, out + ' || ' + abstract(u), fails


# ------------------------------------------------------------------------------------------ point sets / DFS

def point_set(spec):
    kind, n_dim, n_min, seed, member = spec
    rng = np.random.default_rng(seed)

    def blob(c, s, n):
        return np.clip(rng.normal(c, s, (n, n_dim)), 0.001, 0.999)
    if kind == 'one':
        pts = blob(0.5, 0.08, 2 * n_min + int(rng.integers(0, 4)))
    elif kind == 'two':
        pts = np.vstack([blob(0.25, 0.03, n_min + int(rng.integers(0, 5))), blob(0.75, 0.03, n_min + int(rng.integers(1, 6)))])
    elif kind == 'uneven':   # a tight core and a thin ring: the mixture puts few points in one component
        ang = rng.random(n_min - 1) * 2 * np.pi
        ring = 0.5 + 0.35 * np.stack([np.cos(ang), np.sin(ang)] + [np.zeros_like(ang)] * (n_dim - 2), axis=1)
        pts = np.vstack([blob(0.5, 0.01, n_min + 1), np.clip(ring, 0.001, 0.999)])
    elif kind == 'three':
        pts = np.vstack([blob(0.2, 0.03, 2 * n_min), blob(0.5, 0.03, 2 * n_min + 1), blob(0.8, 0.03, 2 * n_min + 2)])
    elif kind == 'four':
        pts = np.vstack([blob(c, 0.02, 2 * n_min + i) for i, c in enumerate((0.15, 0.4, 0.65, 0.88))])
    elif kind in ('discs', 'bigdiscs'):    # two separated *uniform* discs of different size: splitting a uniform disc gains no volume
        def disc(c, r, n):
            ang = rng.random(n) * 2 * np.pi
            rad = r * np.sqrt(rng.random(n))
            d = np.zeros((n, n_dim)) + 0.5
            d[:, 0] = c[0] + rad * np.cos(ang)
            d[:, 1] = c[1] + rad * np.sin(ang)
            return d
        big = kind == 'bigdiscs'
        pts = np.vstack([disc((0.3, 0.3), 0.22, (30 if big else 8) * n_min), disc((0.78, 0.75), 0.11, (16 if big else 5) * n_min)])
    elif kind == 'sparse_dense':   # a sparse, unsplittable cluster next to two dense ones
        sparse = 0.05 + 0.35 * rng.random((n_min + 2, n_dim))
        pts = np.vstack([sparse, blob(0.7, 0.012, 2 * n_min + 2) + np.array([0.0, -0.2] + [0.0] * (n_dim - 2)),
                         blob(0.75, 0.012, 2 * n_min + 3) + np.array([0.0, 0.15] + [0.0] * (n_dim - 2))])
        pts = np.clip(pts, 0.001, 0.999)
    elif kind == 'halo':     # a dense core inside a broad sparse halo, with a large minimum cluster size: the top-up path
        pts = np.vstack([blob(0.5, 0.02, 3 * n_min), np.clip(rng.normal(0.5, 0.12, (max(n_dim + 3, (2 * n_min) // 3), n_dim)), 0.001, 0.999)])
    elif kind == 'tiny':     # two separated clusters at a scale where volumes are far outside the range of exp() (log V ~ -750)
        def ball(n):
            v = rng.normal(size=(n, n_dim))
            v /= np.linalg.norm(v, axis=1)[:, None]
            return v * rng.random(n)[:, None] ** (1.0 / n_dim)
        r = 2.6e-55
        a, b = r * ball(25 * n_min), r * ball(25 * n_min)          # around the origin: this set is used with unit=False
        b[:, 0] += 1e5 * r
        pts = np.vstack([a, b])
    elif kind == 'random':
        k = int(rng.integers(1, 5))
        parts = []
        for _ in range(k):
            n = int(rng.integers(n_min, 4 * n_min))
            c = 0.15 + 0.7 * rng.random(n_dim)
            w = float(rng.choice([0.01, 0.03, 0.08]))
            parts.append(np.clip(c + (rng.normal(0, w, (n, n_dim)) if rng.random() < 0.5 else
                                      w * 2 * (rng.random((n, n_dim)) - 0.5)), 0.001, 0.999))
        pts = np.vstack(parts)
        if len(pts) < n_dim + 2:
            pts = np.vstack([pts, blob(0.5, 0.05, n_dim + 2)])
    else:
        raise ValueError(kind)
    return pts


def subtree(task):
    """run all words below a first letter on one point set; returns list of records"""
    spec, first, depth, seed = task
    os.environ.setdefault('OMP_NUM_THREADS', '1')
    um = install()
    from nautilus.bounds.basic import Ellipsoid, UnitCubeEllipsoidMixture
    kind, n_dim, n_min, pseed, member = spec
    pts = point_set(spec)
    Obs.rows = {np.ascontiguousarray(p).tobytes(): i for i, p in enumerate(pts)}
    if len(Obs.rows) != len(pts):
        return []
    cls = Ellipsoid if member == 'E' else UnitCubeEllipsoidMixture
    letters = [l for l in LETTERS if not (l == 'S0' and member != 'E')]
    u0 = um.ObsUnion.compute(pts, n_points_min=n_min, bound_class=cls, rng=np.random.default_rng(seed), unit=(kind != 'tiny'))
    header = 'union %d %d %d fixed' % (n_dim, n_min, len(pts))
    records = []

    def rec(u, word, words_so_far, states_so_far, trimmed, d):
        for l in letters if word else [first]:
            u2 = copy.deepcopy(u)
            tr2 = set(trimmed)
            words, state, fails = do_op(u2, l, um, tr2)
            w2 = word + [l]
            ws2 = words_so_far + [words]
            st2 = states_so_far + [state]
            records.append({'spec': list(spec), 'word': w2, 'req': header + ' ; ' + ' ; '.join(' '.join(w) for w in ws2),
                            'impl': st2, 'fails': fails})
            if d > 1 and not any(f[0].startswith('operation-raises') for f in fails):
                rec(u2, w2, ws2, st2, tr2, d - 1)
    rec(u0, [], [], [], set(), depth)
    return records


def run(chk):
    chk.extra['source_digest'] = common.source_digest(FILES)
    chk.prove([(MODULE, THEOREMS), *common.core_tie(['unionSplit', 'unionTrim', 'unionReset'])], None, {'NautilusVerif/Generated/CoreSrc.lean': __import__('gen_core').generate(common.REPO)[0]})
    if chk.tier == 'thorough':
        chk.leanchecker([MODULE])
    depth = 4 if chk.tier == 'quick' else 5
    s = chk.seed
    # fixed corpus first (point sets on which the pinned code violated the property: D6 and D2)
    specs = [('uneven', 2, 7, 5, 'E'), ('uneven', 2, 7, 27, 'E'),
             ('one', 2, 6, 100 + s, 'E'), ('two', 2, 6, 200 + s, 'E'), ('uneven', 2, 6, 28 + s, 'E'),
             ('three', 2, 5, 300 + s, 'E'), ('two', 3, 6, 400 + s, 'M'), ('three', 2, 5, 500 + s, 'M'),
             ('discs', 2, 5, 900 + s, 'E'), ('discs', 2, 4, 901 + s, 'M'), ('bigdiscs', 2, 5, 920 + s, 'E'), ('sparse_dense', 2, 5, 910 + s, 'E'),
             ('sparse_dense', 2, 6, 911 + s, 'E'), ('sparse_dense', 3, 5, 912 + s, 'M'),
             ('halo', 2, 30, 930 + s, 'E'), ('halo', 3, 40, 931 + s, 'M'), ('halo', 2, 52, 932 + s, 'E'),
             ('tiny', 6, 12, 940 + s, 'E')]
    specs += [('random', 2, int(4 + (j % 3)), 1000 + 10 * s + j, 'E' if j % 3 else 'M') for j in range(6)]
    if chk.tier == 'thorough':
        specs += [('four', 2, 4, 600 + s, 'E'), ('uneven', 2, 7, 29 + s, 'M'), ('one', 4, 8, 700 + s, 'E'),
                  ('four', 3, 5, 800 + s, 'M')]
    tasks = []
    for spec in specs:
        d = depth if spec[0] not in ('four', 'bigdiscs', 'halo', 'tiny') else depth - 1
        for l in LETTERS:
            if l == 'S0' and spec[4] != 'E':
                continue
            tasks.append((spec, l, d, 7 + s))
    with mp.get_context('fork').Pool(min(16, os.cpu_count() or 4)) as pool:
        results = pool.map(subtree, tasks, chunksize=1)
    records = [r for rs in results for r in rs]
    replies = common.run_driver([r['req'] for r in records])
    dis = []
    kinds = {}
    nontriv = set()
    for r, rep in zip(records, replies):
        for key, what in r['fails']:
            chk.fail(key, what, {'input': {'point_set': r['spec'], 'word': r['word']}})
        model = rep.split(' ;; ') if rep != 'bad-op' else None
        last = r['impl'][-1]
        kinds[last.split(' || ')[0]] = kinds.get(last.split(' || ')[0], 0) + 1
        if model is None or model != r['impl']:
            k = next((i for i, (a, b) in enumerate(zip(model or [], r['impl'])) if a != b), len(model or []))
            dis.append({'point_set': r['spec'], 'word': r['word'], 'first_difference_at_op': k,
                        'impl': r['impl'][k] if k < len(r['impl']) else None,
                        'model': model[k] if model and k < len(model) else rep[:200]})
        if last.count('[') >= 9:      # at least three members in the final state
            nontriv.add(last)
    chk.count(len(records), len(nontriv))
    chk.cov['traces_validated_against_impl'] = len(records)
    chk.cov['disagreements_checked'] = len(dis)
    chk.cov['exhaustive'] = True
    chk.extra['point_sets'] = [list(x) for x in specs]
    chk.extra['word_depth'] = depth
    chk.extra['outcomes_of_last_op'] = kinds
    chk.cov['rule'] = ('all operation words of length <= %d over {split(overlap ok), split(no overlap, ellipsoid members only), '
                       'trim(1e3), trim(1.5), sample(50)} on %d point sets (1-4 clusters, sizes near 2*n_points_min, ellipsoid '
                       'and cube-ellipsoid-mixture members); non-trivial = distinct final record state with >= 3 members'
                       % (depth, len(specs)))
    for r in records[-2:]:
        chk.sample({'point_set': r['spec'], 'word': r['word'], 'final': r['impl'][-1][:300]})
    if dis:
        failing_words = {(tuple(f['replay']['input']['point_set']), tuple(f['replay']['input']['word'])) for f in chk.failing}
        acc = all(any((tuple(d['point_set']), tuple(d['word'][:k])) in failing_words for k in range(1, len(d['word']) + 1))
                  for d in dis)
        chk.correspondence_broken('Union records vs UnionRec', dis[:8], accounted=acc)
    chk.assumptions += ['numeric kernels (GaussianMixture, MVEE, overlap test, densities) are oracles: the theorems hold for '
                        'every answer; the replay feeds the observed answers',
                        'split(allow_overlap=False) on cube-ellipsoid mixtures raises by documented contract and is not in the alphabet']
    chk.trusted += ['harness/c13.py (instrumentation of nautilus.bounds.union from outside, abstraction of records)']


def replay(doc):
    spec = tuple(doc['input']['point_set'])
    word = doc['input']['word']
    um = install()
    from nautilus.bounds.basic import Ellipsoid, UnitCubeEllipsoidMixture
    pts = point_set(spec)
    Obs.rows = {np.ascontiguousarray(p).tobytes(): i for i, p in enumerate(pts)}
    cls = Ellipsoid if spec[4] == 'E' else UnitCubeEllipsoidMixture
    u = um.ObsUnion.compute(pts, n_points_min=spec[2], bound_class=cls, rng=np.random.default_rng(7 + int(doc.get('seed', 0))))
    trimmed = set()
    bad = False
    for l in word:
        _, state, fails = do_op(u, l, um, trimmed)
        print(l, '->', state[:200])
        for f in fails:
            print('   FAIL', f)
            bad = True
    return bad
