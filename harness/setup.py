"""setup: regenerate every Generated/*.lean from /repo and build all property modules once."""
import importlib
import os
import sys

sys.path.insert(0, os.path.dirname(os.path.abspath(__file__)))
import common  # noqa: E402

GENERATORS = {'gen_c02': 'NautilusVerif/Generated/C02.lean', 'gen_c11': 'NautilusVerif/Generated/C11.lean', 'gen_c08': 'NautilusVerif/Generated/C08.lean', 'gen_c07': 'NautilusVerif/Generated/C07.lean', 'gen_c05': 'NautilusVerif/Generated/C05.lean', 'gen_c09': 'NautilusVerif/Generated/C09.lean', 'gen_c16': 'NautilusVerif/Generated/C16.lean', 'gen_c14': 'NautilusVerif/Generated/C14.lean', 'gen_core': 'NautilusVerif/Generated/CoreSrc.lean'}
MODULES = ['nvdriver', 'NautilusVerif.Properties.C16', 'NautilusVerif.Properties.C16Tie', 'NautilusVerif.Properties.C14',
           'NautilusVerif.Properties.C14Tie',
           'NautilusVerif.Properties.C15', 'NautilusVerif.Properties.C13', 'NautilusVerif.Properties.C01',
           'NautilusVerif.Properties.C02', 'NautilusVerif.Properties.C03', 'NautilusVerif.Properties.C10', 'NautilusVerif.Properties.C12', 'NautilusVerif.Properties.C09Tie', 'NautilusVerif.Properties.C05', 'NautilusVerif.Properties.C05Tie', 'NautilusVerif.Properties.C06', 'NautilusVerif.Properties.C07', 'NautilusVerif.Properties.C07Tie', 'NautilusVerif.Properties.C08', 'NautilusVerif.Properties.C08Tie', 'NautilusVerif.Properties.C11', 'NautilusVerif.Properties.C11Tie', 'NautilusVerif.Properties.C04', 'NautilusVerif.Properties.C10Run', 'NautilusVerif.Properties.C02Est', 'NautilusVerif.Properties.C02EstTie',
           'NautilusVerif.Properties.CoreRun', 'NautilusVerif.Properties.C08Buf', 'NautilusVerif.Properties.C03Eval']
MODULES += ['NautilusVerif.Properties.CoreTie.' + f[:-5] for f in sorted(os.listdir(os.path.join(common.LEAN, 'NautilusVerif', 'Properties', 'CoreTie')))
            if f.endswith('.lean')]


def main():
    for g, rel in GENERATORS.items():
        text, _ = importlib.import_module(g).generate(common.REPO)
        common.write_if_changed(os.path.join(common.LEAN, rel), text)
    ok, log = common.lake_build(MODULES)
    print(log[-3000:])
    # warm the driver
    common.run_driver(['centre 1 -1'])
    return 0 if ok else 1


if __name__ == '__main__':
    sys.exit(main())
