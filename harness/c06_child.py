"""child process of the C06 check: a checkpointed sampler run that logs every completed checkpoint.

usage: c06_child.py <checkpoint path> <side log> <json config>
After every completed Sampler.write / write_shell_update it (1) issues a marker syscall (access on <ck>.MARK) and
(2) appends the sha1 of the logical content of the checkpoint to the side log."""
import hashlib
import json
import os
import sys

sys.path.insert(0, os.path.dirname(os.path.abspath(__file__)))
import common  # noqa: E402,F401
import runs  # noqa: E402


def content_hash(path):
    import h5py
    from c09 import dump
    with h5py.File(path, 'r') as f:
        d = dump(f)
    h = hashlib.sha1()
    for k in sorted(d):
        h.update(k.encode())
        h.update(repr(d[k][:2]).encode())
        h.update(d[k][2])
    return h.hexdigest()


def main():
    ck, side, cfg = sys.argv[1], sys.argv[2], json.loads(sys.argv[3])
    mk, run_kw = cfg['make'], cfg['run']
    s, lk = runs.make_sampler(filepath=ck, resume=cfg.get('resume', False), **mk)
    ow, ou = s.write, s.write_shell_update
    log = open(side, 'a')
    n = [0]

    def done(kind):
        os.access(ck + '.MARK', os.F_OK)
        n[0] += 1
        log.write('%d %s %s %d\n' % (n[0], kind, content_hash(ck), int(s.n_like)))
        log.flush()
        os.fsync(log.fileno())

    def write(filepath, overwrite=False):
        r = ow(filepath, overwrite=overwrite)
        if str(filepath) == ck:
            done('write')
        return r

    def update(filepath, shell):
        r = ou(filepath, shell)
        done('update')
        return r
    s.write, s.write_shell_update = write, update
    ret = s.run(**run_kw)
    log.write('END %s %d\n' % (ret, int(s.n_like)))
    log.flush()


if __name__ == '__main__':
    main()
