"""Tiny Python-expression -> Lean-expression translator (the G4 part of the tie).

Only closed-form arithmetic is supported.  Anything else raises Untranslatable, and the
caller then emits *no* definition, so that the theorem mentioning it stops elaborating
(a broken tie, handled by the verdict logic).
"""
import ast


class Untranslatable(Exception):
    pass


def src(node):
    return ast.unparse(node)


def find_class(tree, name):
    for n in tree.body:
        if isinstance(n, ast.ClassDef) and n.name == name:
            return n
    raise Untranslatable('class %s not found' % name)


def find_func(scope, name):
    for n in scope.body:
        if isinstance(n, (ast.FunctionDef,)) and n.name == name:
            return n
    raise Untranslatable('function %s not found' % name)


def strip_doc(body):
    if body and isinstance(body[0], ast.Expr) and isinstance(getattr(body[0], 'value', None), ast.Constant) \
            and isinstance(body[0].value.value, str):
        return body[1:]
    return body


class ExprT:
    """Translate an expression.

    env   : dict  unparsed-python-subexpression -> Lean term (checked before anything else)
    ops   : dict  giving the Lean spelling of each operation for the target type:
            add sub mul div neg mod1 lit(int|float|Fraction->str) ite(c,a,b) and optional
            call_<name>(args) hooks, cmp_<op>(a,b)
    """

    def __init__(self, env, ops):
        self.env = env
        self.ops = ops

    def tr(self, n):
        s = src(n)
        if s in self.env:
            return self.env[s]
        o = self.ops
        if isinstance(n, ast.Constant):
            if isinstance(n.value, bool):
                return 'true' if n.value else 'false'
            if isinstance(n.value, (int, float)):
                return o['lit'](n.value)
            raise Untranslatable('constant ' + s)
        if isinstance(n, ast.UnaryOp):
            if isinstance(n.op, ast.USub):
                if isinstance(n.operand, ast.Constant) and isinstance(n.operand.value, (int, float)) \
                        and not isinstance(n.operand.value, bool):
                    return o['lit'](-n.operand.value)
                return o['neg'](self.tr(n.operand))
            if isinstance(n.op, ast.UAdd):
                return self.tr(n.operand)
            if isinstance(n.op, ast.Not) and 'not' in o:
                return o['not'](self.tr(n.operand))
            if isinstance(n.op, ast.Invert) and 'not' in o:
                return o['not'](self.tr(n.operand))
            raise Untranslatable('unary ' + s)
        if isinstance(n, ast.BinOp):
            if isinstance(n.op, ast.Mod):
                if isinstance(n.right, ast.Constant) and n.right.value == 1 and 'mod1' in o:
                    return o['mod1'](self.tr(n.left))
                raise Untranslatable('modulo other than % 1: ' + s)
            if isinstance(n.op, ast.Pow) and 'pow' in o:
                return o['pow'](self.tr(n.left), self.tr(n.right))
            if isinstance(n.op, ast.BitAnd) and 'and' in o:
                return o['and'](self.tr(n.left), self.tr(n.right))
            if isinstance(n.op, ast.BitOr) and 'or' in o:
                return o['or'](self.tr(n.left), self.tr(n.right))
            name = {ast.Add: 'add', ast.Sub: 'sub', ast.Mult: 'mul', ast.Div: 'div',
                    ast.FloorDiv: 'floordiv'}.get(type(n.op))
            if name is None or name not in o:
                raise Untranslatable('binop ' + s)
            return o[name](self.tr(n.left), self.tr(n.right))
        if isinstance(n, ast.IfExp):
            return o['ite'](self.tr(n.test), self.tr(n.body), self.tr(n.orelse))
        if isinstance(n, ast.Compare) and len(n.ops) == 1:
            name = {ast.Lt: 'lt', ast.LtE: 'le', ast.Gt: 'gt', ast.GtE: 'ge', ast.Eq: 'eq',
                    ast.NotEq: 'ne'}.get(type(n.ops[0]))
            if name and ('cmp_' + name) in o:
                return o['cmp_' + name](self.tr(n.left), self.tr(n.comparators[0]))
            raise Untranslatable('compare ' + s)
        if isinstance(n, ast.BoolOp):
            key = 'and' if isinstance(n.op, ast.And) else 'or'
            if key in o:
                parts = [self.tr(v) for v in n.values]
                out = parts[0]
                for p in parts[1:]:
                    out = o[key](out, p)
                return out
            raise Untranslatable('boolop ' + s)
        if isinstance(n, ast.Call):
            fn = src(n.func)
            key = 'call_' + fn.replace('.', '_')
            if key in o:
                if n.keywords and not o.get('kw_ok_' + fn.replace('.', '_')):
                    raise Untranslatable('keywords in ' + s)
                return o[key](*[self.tr(a) for a in n.args])
            raise Untranslatable('call ' + s)
        raise Untranslatable('expression ' + s)


def par(s):
    return '(' + s + ')'


def rat_lit(v):
    from fractions import Fraction
    f = Fraction(v)  # exact value of the float / int literal
    if f.denominator == 1:
        return '(%d : Rat)' % f.numerator
    return '((%d : Rat) / %d)' % (f.numerator, f.denominator)


RAT_OPS = dict(
    add=lambda a, b: par(a + ' + ' + b), sub=lambda a, b: par(a + ' - ' + b),
    mul=lambda a, b: par(a + ' * ' + b), div=lambda a, b: par(a + ' / ' + b),
    neg=lambda a: par('-' + a), lit=rat_lit,
    ite=lambda c, a, b: par('if %s then %s else %s' % (c, a, b)),
)


def dy_lit(v):
    import math
    v = float(v)
    if v == 0:
        return '(⟨0, 0⟩ : Dy)'
    m, e = math.frexp(v)
    m = int(m * 2 ** 53)
    e -= 53
    while m % 2 == 0:
        m //= 2
        e += 1
    return '(⟨%d, %d⟩ : Dy)' % (m, e)



DY_OPS = dict(
    add=lambda a, b: par('Dy.add %s %s' % (a, b)), sub=lambda a, b: par('Dy.sub %s %s' % (a, b)),
    neg=lambda a: par('Dy.neg ' + a), lit=dy_lit,
    ite=lambda c, a, b: par('if %s then %s else %s' % (c, a, b)),
    mul=lambda a, b: par('Dy.mul %s %s' % (a, b)),
)
