"""C06 — a kill at any instant leaves an atomic, loadable checkpoint.

proof:  lean/NautilusVerif/Properties/C06.lean — for every system-call trace that respects the atomic-writer
        discipline, *every* crash prefix leaves a safe checkpoint (inode-level file-system model)
tie:    correspondence F — real checkpointed runs under `strace`; every system call touching the checkpoint or its
        temporary sibling is abstracted to the model's `Sys` alphabet and the Lean driver evaluates `atomicOK` and the
        exact classifier `firstUnsafe` on the observed trace (so every system call of the run is a crash point);
        real child processes are killed (SIGKILL injected by strace at the k-th traced system call) and the file
        left behind is opened, compared with the states recorded after each completed checkpoint, and resumed.
search: when the trace is not atomic, the child is killed at the first unsafe system call the model predicts.
"""
import hashlib
import json
import multiprocessing as mp
import os
import re
import shutil
import subprocess
import sys

import numpy as np

import common

THEOREMS = ['C06_atomic', 'C06_classifier', 'C06_atomic_classified', 'C06_legacy_unsafe', 'C06_hardlink_unsafe']
MODULE = 'NautilusVerif.Properties.C06'
FILES = ['nautilus/sampler.py', 'nautilus/bounds/nautilus.py', 'nautilus/bounds/union.py']
HERE = os.path.dirname(os.path.abspath(__file__))
SYSCALLS = ('openat,open,creat,write,pwrite64,writev,pwritev,pwritev2,sendfile,copy_file_range,ftruncate,truncate,'
            'fallocate,close,unlink,unlinkat,rename,renameat,renameat2,link,linkat,symlink,symlinkat,access,faccessat,'
            'faccessat2,dup,dup2,dup3,mmap')
MUTATING = ('write', 'pwrite64', 'writev', 'pwritev', 'pwritev2', 'ftruncate', 'fallocate')
KILLSET = 'openat,pwrite64,write,ftruncate,sendfile,copy_file_range,close,unlink,unlinkat,rename,renameat,renameat2,link,linkat'


def strace_cmd(ck, out, extra=()):
    return ['strace', '-f', '-o', out, '-e', 'trace=' + SYSCALLS, '-P', ck, '-P', ck + '.tmp', '-P', ck + '.MARK'] + list(extra)


def child_cmd(ck, side, cfg):
    return ['/venv/bin/python', os.path.join(HERE, 'c06_child.py'), ck, side, json.dumps(cfg)]


LINE = re.compile(r'^(\d+)\s+(\w+)\((.*)\)\s+=\s+(-?\d+|\?)(.*)$')


def parse_trace(path, ck):
    """strace log -> (ops in the driver's syntax, human-readable list, notes)"""
    paths = {ck: 0, ck + '.tmp': 1}
    ops, human, notes = [], [], []
    fdmap = {}              # (pid, fd) -> path id (only for our paths)

    def pid_of(p):
        if p not in paths:
            paths[p] = len(paths) + 5
        return paths[p]
    for line in open(path, errors='replace'):
        if '<unfinished' in line or 'resumed>' in line:
            notes.append('interleaved system call line: ' + line.strip()[:80])
            continue
        m = LINE.match(line.rstrip('\n'))
        if not m:
            continue
        pid, name, args, ret = m.group(1), m.group(2), m.group(3), m.group(4)
        strs = re.findall(r'"((?:[^"\\]|\\.)*)"', args)
        if name in ('openat', 'open', 'creat'):
            if not strs or strs[0] not in (ck, ck + '.tmp') or ret in ('?',) or int(ret) < 0:
                continue
            flags = args
            w = 'O_WRONLY' in flags or 'O_RDWR' in flags or name == 'creat'
            t = 'O_TRUNC' in flags or name == 'creat'
            c = 'O_CREAT' in flags or name == 'creat'
            fd = int(ret)
            fdmap[(pid, fd)] = pid_of(strs[0])
            ops.append('o%d,%d,%d%d%d' % (fd, pid_of(strs[0]), w, t, c))
        elif name in MUTATING:
            fd = int(args.split(',')[0])
            if (pid, fd) in fdmap:
                ops.append('m%d' % fd)
            else:
                continue
        elif name == 'sendfile':
            fd = int(args.split(',')[0])
            if (pid, fd) in fdmap:
                ops.append('m%d' % fd)
            else:
                continue
        elif name == 'copy_file_range':
            parts = [a.strip() for a in args.split(',')]
            fd = int(parts[2])
            if (pid, fd) in fdmap:
                ops.append('m%d' % fd)
            else:
                continue
        elif name == 'close':
            fd = int(args.split(',')[0]) if args.strip() else -1
            if (pid, fd) in fdmap:
                ops.append('c%d' % fd)
                del fdmap[(pid, fd)]
            else:
                continue
        elif name in ('unlink', 'unlinkat'):
            if strs and strs[0] in (ck, ck + '.tmp') and ret == '0':
                ops.append('u%d' % pid_of(strs[0]))
            else:
                continue
        elif name in ('rename', 'renameat', 'renameat2'):
            if len(strs) >= 2 and ret == '0':
                ops.append('r%d,%d' % (pid_of(strs[0]), pid_of(strs[1])))
            else:
                continue
        elif name in ('access', 'faccessat', 'faccessat2'):
            if strs and strs[0] == ck + '.MARK':
                ops.append('k')
            else:
                continue
        elif name in ('truncate',):
            if strs and strs[0] == ck:
                ops.append('o99,0,110')       # a path-based truncation of the checkpoint: an open with O_TRUNC
                ops.append('c99')
            else:
                continue
        elif name in ('link', 'linkat') and len(strs) >= 2 and strs[0] in (ck, ck + '.tmp') and strs[1] in (ck, ck + '.tmp'):
            if ret == '0':
                ops.append('l%d,%d' % (pid_of(strs[0]), pid_of(strs[1])))
            else:
                continue
        elif name in ('link', 'linkat', 'symlink', 'symlinkat', 'dup', 'dup2', 'dup3', 'mmap'):
            if name == 'mmap' and ('PROT_WRITE' not in args or 'MAP_SHARED' not in args):
                continue
            if name.startswith('dup'):
                fd = int(args.split(',')[0])
                if (pid, fd) not in fdmap:
                    continue
            notes.append('unmodelled system call on the checkpoint: ' + line.strip()[:100])
            continue
        else:
            continue
        human.append(line.strip()[:140])
    return ops, human, notes


def read_side(side):
    vers, end = [], None
    try:
        for l in open(side):
            p = l.split()
            if p and p[0] == 'END':
                end = p
            elif len(p) == 4:
                vers.append((p[1], p[2], int(p[3])))
    except OSError:
        pass
    return vers, end


def inspect_file(ck, cfg):
    """what a kill left behind: (status, content hash or error)"""
    sys.path.insert(0, HERE)
    from c06_child import content_hash
    if not os.path.exists(ck):
        return 'missing', None
    try:
        h = content_hash(ck)
    except Exception as e:
        return 'unreadable', '%s: %s' % (type(e).__name__, str(e)[:80])
    return 'ok', h


def child_env(cfg, tmp):
    """environment of the child; `other_tmpdir`: TMPDIR on a different filesystem than the checkpoint (a common cluster setup)"""
    env = dict(os.environ)
    if cfg.get('other_tmpdir') and os.path.isdir('/dev/shm'):
        d = os.path.join('/dev/shm', 'nvc06_' + os.path.basename(tmp))
        os.makedirs(d, exist_ok=True)
        env['TMPDIR'] = d
    return env


def cleanup_env(env):
    d = env.get('TMPDIR', '')
    if d.startswith('/dev/shm/nvc06_'):
        shutil.rmtree(d, ignore_errors=True)


def kill_experiment(args):
    cfg, k, ref_hashes, tag = args
    tmp = common.scratch_dir('nvc06k')
    env = child_env(cfg, tmp)
    try:
        ck, side = os.path.join(tmp, 'ck.h5'), os.path.join(tmp, 'side.log')
        cmd = ['strace', '-f', '-o', '/dev/null', '-e', 'trace=' + KILLSET, '-P', ck, '-P', ck + '.tmp',
               '-e', 'inject=%s:signal=SIGKILL:when=%d' % (KILLSET, k)] + child_cmd(ck, side, cfg)
        p = subprocess.run(cmd, stdout=subprocess.DEVNULL, stderr=subprocess.DEVNULL, timeout=900, env=env)
        vers, end = read_side(side)
        status, h = inspect_file(ck, cfg)
        res = {'k': k, 'completed_versions': len(vers), 'status': status, 'killed': end is None, 'tag': tag}
        if end is not None:
            res['verdict'] = 'run-finished-before-kill-point'
            return res
        if not vers:
            res['verdict'] = 'no-checkpoint-completed-yet'
            return res
        if status != 'ok':
            res['verdict'] = 'FAIL: checkpoint %s after a kill (%s) although %d checkpoint(s) had been completed' % (status, h, len(vers))
            return res
        j = len(vers)
        allowed = set(ref_hashes[max(0, j - 1): j + 1]) | {vers[-1][1]}
        if h not in allowed:
            res['verdict'] = ('FAIL: the checkpoint left by the kill is neither the last completed state (#%d) nor the one being '
                              'written (#%d): a mixture of two states' % (j, j + 1))
            return res
        # the documented promise: re-running the same script continues a valid computation
        rcfg = dict(cfg, resume=True)
        rcfg['run'] = dict(cfg['run'], n_like_max=vers[-1][2] + 2 * cfg['make'].get('n_batch', 50))
        p2 = subprocess.run(child_cmd(ck, os.path.join(tmp, 'side2.log'), rcfg), stdout=subprocess.DEVNULL, stderr=subprocess.PIPE,
                            timeout=900, text=True, env=env)
        if p2.returncode != 0:
            res['verdict'] = 'FAIL: resuming from the file left by the kill raised: ' + p2.stderr.strip().split('\n')[-1][:160]
            return res
        res['verdict'] = 'ok'
        return res
    except subprocess.TimeoutExpired:
        return {'k': k, 'verdict': 'timeout', 'tag': tag}
    finally:
        shutil.rmtree(tmp, ignore_errors=True)
        cleanup_env(env)


def reference(cfg):
    tmp = common.scratch_dir('nvc06r')
    env = child_env(cfg, tmp)
    try:
        ck, side, tr = os.path.join(tmp, 'ck.h5'), os.path.join(tmp, 'side.log'), os.path.join(tmp, 'tr.log')
        p = subprocess.run(strace_cmd(ck, tr) + child_cmd(ck, side, cfg), stdout=subprocess.DEVNULL, stderr=subprocess.PIPE, timeout=1800,
                           text=True, env=env)
        if p.returncode != 0:
            raise RuntimeError('traced reference run failed: ' + p.stderr[-500:])
        ops, human, notes = parse_trace(tr, ck)
        vers, end = read_side(side)
        # number of injectable syscalls (for choosing kill points): count lines of the KILLSET in the trace
        n_kill = 0
        killnames = set(KILLSET.split(','))
        for line in open(tr, errors='replace'):
            m = LINE.match(line.rstrip('\n'))
            if m and m.group(2) in killnames:
                n_kill += 1
        return {'ops': ops, 'human': human, 'notes': notes, 'versions': vers, 'end': end, 'n_kill': n_kill}
    finally:
        shutil.rmtree(tmp, ignore_errors=True)
        cleanup_env(env)


def configs(tier, seed):
    C = [{'make': dict(kind='gauss', n_dim=2, n_live=60, n_batch=30, n_networks=0, seed=seed), 'run': dict(n_eff=100)}]
    if tier == 'thorough':
        C += [{'make': dict(kind='bimodal', n_dim=2, n_live=80, n_batch=40, n_networks=1, blob='two', seed=seed + 1), 'run': dict(n_eff=150)},
              {'make': dict(kind='wrap', n_dim=2, n_live=80, n_batch=40, n_networks=0, periodic=[0], blob='float', seed=seed + 2),
               'run': dict(n_eff=150, discard_exploration=True)},
              {'make': dict(kind='halfspace', n_dim=3, n_live=80, n_batch=25, n_networks=0, blob='array', seed=seed + 3), 'run': dict(n_eff=120)}]
    else:
        C += [{'make': dict(kind='wrap', n_dim=2, n_live=60, n_batch=30, n_networks=1, periodic=[0], blob='two', seed=seed + 1),
               'run': dict(n_eff=80, discard_exploration=True)}]
    # the system temporary directory on another filesystem than the checkpoint
    C += [{'make': dict(kind='gauss', n_dim=2, n_live=50, n_batch=25, n_networks=0, seed=seed + 5), 'run': dict(n_eff=60), 'other_tmpdir': True}]
    return C


def run(chk):
    chk.extra['source_digest'] = common.source_digest(FILES)
    chk.prove(MODULE, THEOREMS)
    if chk.tier == 'thorough':
        chk.leanchecker([MODULE])
    rng = np.random.default_rng(600 + chk.seed)
    C = configs(chk.tier, chk.seed)
    with mp.get_context('fork').Pool(len(C)) as pool:
        refs = pool.map(reference, C)
    replies = common.run_driver(['crash ' + ' '.join(r['ops']) for r in refs])
    kills = []
    total_points = 0
    for cfg, ref, rep in zip(C, refs, replies):
        info = dict(x.split('=') for x in rep.split())
        total_points += len(ref['ops'])
        hashes = [v[1] for v in ref['versions']]
        chk.sample({'config': cfg, 'system_calls_on_checkpoint': len(ref['ops']), 'completed_checkpoints': len(hashes),
                    'model': info, 'trace_head': ref['human'][:12]}, cap=2)
        for n in ref['notes'][:5]:
            chk.notes.append(n)
        if ref['notes']:
            chk.correspondence_broken('strace trace -> CrashFS.Sys (unmodelled system call)', ref['notes'][:5])
        n_k = 4 if chk.tier == 'quick' else 24
        if info['atomic'] != 'true':
            # the model predicts an unsafe crash point: exhibit it on the real process
            chk.correspondence_broken('observed system-call trace does not follow the atomic protocol (first violating call #%s: %s)' % (
                info['firstBadOp'], ref['human'][int(info['firstBadOp'])] if info['firstBadOp'] != 'none' else '?'),
                {'model': info, 'config': cfg}, accounted=True)
            # translate the model index (ops) into an index of injectable syscalls: marks ('k') are not injectable
            ks = set()
            if info['firstUnsafe'] != 'none':
                fu = int(info['firstUnsafe'])
                ks.add(sum(1 for o in ref['ops'][:fu] if o != 'k'))
                # the same kind of call later in the run (exploration / sampling phase)
                unsafe_kind = ref['ops'][fu - 1][0] if fu > 0 else 'u'
                later = [i for i, o in enumerate(ref['ops']) if o[0] in ('u', 'm') and i > fu]
                for i in (later[len(later) // 2:len(later) // 2 + 1] + later[-3:-2]):
                    ks.add(sum(1 for o in ref['ops'][:i + 1] if o != 'k'))
            for k in sorted(ks)[:4]:
                kills.append((cfg, int(k), hashes, 'model-predicted-unsafe'))
        ks = sorted(set(int(x) for x in rng.integers(1, max(2, int(0.8 * ref['n_kill'])), n_k)))
        for k in ks:
            kills.append((cfg, k, hashes, 'sampled'))
    with mp.get_context('fork').Pool(min(16, max(1, len(kills)))) as pool:
        results = pool.map(kill_experiment, kills)
    n_fail = 0
    verdicts = {}
    for (cfg, k, hashes, tag), res in zip(kills, results):
        v = res.get('verdict', '?')
        verdicts[v.split(':')[0]] = verdicts.get(v.split(':')[0], 0) + 1
        if v.startswith('FAIL'):
            n_fail += 1
            kind = 'missing-or-unreadable' if ('missing' in v or 'unreadable' in v) else ('mixture' if 'mixture' in v else 'resume-fails')
            chk.fail('kill-leaves-bad-checkpoint:' + kind, 'SIGKILL at traced system call #%d: %s' % (k, v[6:]),
                     {'input': {'config': cfg, 'kill_at_syscall': k}, 'observed': res})
    unexplained = [b for b in chk.broken if b.startswith('correspondence observed') and not n_fail]
    if unexplained:
        chk.accounted.clear()       # the model predicted an unsafe point but no real kill exhibited it
    chk.count(total_points + len(kills), len(kills))
    chk.cov['traces_validated_against_impl'] = len(refs)
    chk.cov['exhaustive'] = True
    chk.extra['kill_experiments'] = len(kills)
    chk.extra['kill_verdicts'] = verdicts
    chk.extra['crash_points_per_run'] = [len(r['ops']) for r in refs]
    chk.cov['rule'] = ('evaluations = system calls on the checkpoint and its temporary sibling in the traced runs (each is a crash '
                       'point decided by the model: the theorem covers all prefixes of an atomic trace, the exact classifier covers any '
                       'trace) + real SIGKILL experiments; non-trivial = the kill experiments (file left behind opened, compared with the '
                       'recorded completed states, resumed)')
    chk.assumptions += ['a process kill does not lose completed write system calls (page cache) and rename(2) is atomic',
                        'strace reports every system call of the traced set on the two paths; h5py/HDF5 do not mmap the file writable']
    chk.trusted += ['harness/c06.py (strace parsing, abstraction to Sys)', 'harness/c06_child.py']


def replay(doc):
    inp = doc['input']
    res = kill_experiment((inp['config'], int(inp['kill_at_syscall']), doc.get('observed', {}).get('ref_hashes', []), 'replay'))
    print(res)
    return str(res.get('verdict', '')).startswith('FAIL') or res.get('status') in ('missing', 'unreadable')
