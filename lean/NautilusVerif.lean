-- Root of the `NautilusVerif` library: models (import-free) and property theorems.
import NautilusVerif.Model.Dyadic
import NautilusVerif.Model.Shift
