/-
  Line-protocol driver:  `lake env lean --run Driver/Main.lean < ops.txt`
  One request per line, one reply per line.  Unknown / malformed → `bad-op`.
-/
import NautilusVerif.Driver.ShiftD
import NautilusVerif.Driver.Prior
import NautilusVerif.Driver.ResampleD
import NautilusVerif.Driver.UnionD
import NautilusVerif.Driver.CoreD
import NautilusVerif.Driver.CrashD
import NautilusVerif.Driver.BoundD
import NautilusVerif.Driver.BufD
open NautilusVerif

def handlers : List (List String → Option String) := [ShiftDriver.handle, PriorDriver.handle, ResampleDriver.handle, UnionDriver.handle, CoreDriver.handle, CrashDriver.handle, BoundDriver.handle, BufDriver.handle]

def step (line : String) : String :=
  let ws := (line.trimAscii.toString.splitOn " ").filter (· ≠ "")
  match handlers.findSome? (fun h => h ws) with
  | some out => out
  | none => "bad-op"

partial def loop (h : IO.FS.Stream) (out : IO.FS.Stream) : IO Unit := do
  let line ← h.getLine
  if line.isEmpty then return ()
  out.putStrLn (step line)
  loop h out

def main : IO Unit := do
  let out ← IO.getStdout
  loop (← IO.getStdin) out
  out.flush
