/-
  Line-protocol driver:  `lake env lean --run Driver/Main.lean < ops.txt`
  One request per line, one reply per line.  Unknown / malformed → `bad-op`.
-/
import NautilusVerif.Model.Dyadic
import NautilusVerif.Model.Shift
open NautilusVerif

def parseInts (ws : List String) : Option (List Int) := ws.mapM String.toInt?

def dyPairs : List Int → Option (List Dy)
  | [] => some []
  | m :: e :: rest => (dyPairs rest).map (fun t => (⟨m, e⟩ : Dy) :: t)
  | _ => none

def handleShift : List String → Option String
  | ["shift1", inv, cm, ce, xm, xe] => do
      let [inv, cm, ce, xm, xe] ← parseInts [inv, cm, ce, xm, xe] | none
      some (Shift.F.shift1 ⟨cm, ce⟩ (inv != 0) ⟨xm, xe⟩).toString
  | ["shift1legacy", inv, cm, ce, xm, xe] => do
      let [inv, cm, ce, xm, xe] ← parseInts [inv, cm, ce, xm, xe] | none
      some (Shift.F.shift1Legacy ⟨cm, ce⟩ (inv != 0) ⟨xm, xe⟩).toString
  | "centre" :: rest => do
      let xs ← parseInts rest
      let ds ← dyPairs xs
      match Shift.F.centre ds with
      | some c => some c.toString
      | none => some "none"
  | _ => none

def handlers : List (List String → Option String) := [handleShift]

def step (line : String) : String :=
  let ws := (line.trimAscii.toString.splitOn " ").filter (· ≠ "")
  match handlers.findSome? (fun h => h ws) with
  | some out => out
  | none => "bad-op"

partial def loop (h : IO.FS.Stream) (out : IO.FS.Stream) : IO Unit := do
  let line ← h.getLine
  if line.isEmpty then return ()
  out.putStrLn (step line)
  loop h out

def main : IO Unit := do
  let out ← IO.getStdout
  loop (← IO.getStdin) out
  out.flush
