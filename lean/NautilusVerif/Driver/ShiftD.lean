import NautilusVerif.Model.Shift
open NautilusVerif
namespace ShiftDriver

def parseInts (ws : List String) : Option (List Int) := ws.mapM String.toInt?

def dyPairs : List Int → Option (List Dy)
  | [] => some []
  | m :: e :: rest => (dyPairs rest).map (fun t => (⟨m, e⟩ : Dy) :: t)
  | _ => none

def handle : List String → Option String
  | ["shift1", inv, cm, ce, xm, xe] => do
      let [inv, cm, ce, xm, xe] ← parseInts [inv, cm, ce, xm, xe] | none
      some (Shift.F.shift1 ⟨cm, ce⟩ (inv != 0) ⟨xm, xe⟩).toString
  | ["shift1legacy", inv, cm, ce, xm, xe] => do
      let [inv, cm, ce, xm, xe] ← parseInts [inv, cm, ce, xm, xe] | none
      some (Shift.F.shift1Legacy ⟨cm, ce⟩ (inv != 0) ⟨xm, xe⟩).toString
  | "centre" :: rest => do
      let xs ← parseInts rest
      let ds ← dyPairs xs
      match Shift.F.centre ds with
      | some c => some c.toString
      | none => some "none"
  | _ => none

end ShiftDriver
