import NautilusVerif.Model.Resample
import NautilusVerif.Driver.Prior
open NautilusVerif
namespace ResampleDriver

def pairs : List Rat → Option (List Rat × List Rat)
  | [] => some ([], [])
  | r :: u :: rest => (pairs rest).map (fun p => (r :: p.1, u :: p.2))
  | _ => none

/-- `resample r1 u1 r2 u2 ...` (rationals `p/q`) → the multiplicities -/
def handle : List String → Option String
  | "resample" :: rest => do
      let xs ← rest.mapM PriorDriver.parseRat
      let (rs, us) ← pairs xs
      some (" ".intercalate ((Resample.repsAll rs us).map toString))
  | _ => none

end ResampleDriver
