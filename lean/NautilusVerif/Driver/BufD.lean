import NautilusVerif.Model.SampleBuf
open NautilusVerif SampleBuf
namespace BufDriver

def splitTok (tok : String) : List String → List String → List (List String) → List (List String)
  | [], cur, acc => acc ++ [cur]
  | w :: ws, cur, acc => if w == tok then splitTok tok ws [] (acc ++ [cur]) else splitTok tok ws (cur ++ [w]) acc

def nats (ws : List String) : Option (List Nat) := ws.mapM String.toNat?

/-- `ps ids.. ps ids.. acc ids..` -/
def parseRound (ws : List String) : Option Round :=
  match splitTok "acc" ws [] [] with
  | [pre, acc] => do
      let passes ← (((splitTok "ps" pre [] []).drop 1).mapM nats)
      some { outerPasses := passes, accepted := ← nats acc }
  | _ => none

def parseRounds (ws : List String) : Option (List Round) := ((splitTok "rd" ws [] []).drop 1).mapM parseRound

def parseOp (ws : List String) : Option Op :=
  match ws with
  | ["reset"] => some .reset
  | "sample" :: n :: r :: "ser" :: rest => do some (.sample (← n.toNat?) (r == "1") (.serial (← parseRounds rest)))
  | "sample" :: n :: r :: "pool" :: rest => do
      some (.sample (← n.toNat?) (r == "1") (.pool (← ((splitTok "jb" rest [] []).drop 1).mapM parseRounds)))
  | _ => none

def fp (l : List Nat) : String :=
  let (n, s, w) := l.foldl (fun (acc : Nat × UInt64 × UInt64) x =>
    (acc.1 + 1, acc.2.1 + UInt64.ofNat x, acc.2.2 + UInt64.ofNat (acc.1 + 1) * UInt64.ofNat x)) (0, 0, 0)
  s!"{n}:{s}:{w}"

/-- `LvlOK` evaluated -/
def lvlOKb (l : Lvl) : Bool :=
  decide (l.nReject ≤ l.nSample) && (l.nSample - l.nReject == l.buf.length + l.out.length + l.discarded) && (l.nSample % batch == 0)

def okb (b : NB) : Bool := lvlOKb b.inner && lvlOKb b.outer && (b.inner.nSample == b.outer.out.length) && (b.inner.discarded == 0)

def lvlStr (l : Lvl) : String := s!"{fp l.buf}/{l.nSample}/{l.nReject}"

/-- `buf | op | op ...` → per op `ok=<OK> inner=<cache fp>/<n_sample>/<n_reject> outer=... ret=<fp of the points handed out>` -/
def handle (ws : List String) : Option String :=
  match ws with
  | "buf" :: "|" :: rest => do
      let ops ← ((splitTok "|" rest [] []).filter (· ≠ [])).mapM parseOp
      let (_, outs) := ops.foldl (fun (acc : Option NB × List String) op =>
        match acc.1 with
        | none => (none, acc.2 ++ ["bad-oracle"])
        | some b =>
          match step b op with
          | none => (none, acc.2 ++ ["bad-oracle"])
          | some (b', pts) => (some b', acc.2 ++ [s!"ok={okb b'} inner={lvlStr b'.inner} outer={lvlStr b'.outer} ret={fp pts}"]))
        (some {}, [])
      some (" ;; ".intercalate outs)
  | _ => none

end BufDriver
