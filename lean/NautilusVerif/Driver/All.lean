-- every driver handler module (so that `lake build NautilusVerif.Driver.All` compiles what Driver/Main.lean imports)
import NautilusVerif.Driver.ShiftD
import NautilusVerif.Driver.Prior
import NautilusVerif.Driver.ResampleD
import NautilusVerif.Driver.UnionD
import NautilusVerif.Driver.CoreD
import NautilusVerif.Driver.CrashD
import NautilusVerif.Driver.BoundD
import NautilusVerif.Driver.BufD
