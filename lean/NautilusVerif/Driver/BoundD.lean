import NautilusVerif.Model.BoundAlg
open NautilusVerif BoundAlg
namespace BoundDriver

/-- expression tokens:  `C` | `E e` | `M e hc he` | `U unit ( b ... )` | `N o net|-` | `X shift b [ b ... ]` -/
partial def parseBd : List String → Option (Bd × List String)
  | "C" :: r => some (.cube, r)
  | "E" :: e :: r => e.toNat?.map (fun e => (.ell e, r))
  | "M" :: e :: hc :: he :: r => e.toNat?.map (fun e => (.mix e (hc == "1") (he == "1"), r))
  | "U" :: unit :: "(" :: r => do
      let (ms, r') ← parseList r ")"
      some (.union ms (unit == "1"), r')
  | "N" :: o :: n :: r => do
      let o ← o.toNat?
      let n ← if n == "-" then some none else n.toNat?.map some
      some (.neural o n, r)
  | "X" :: s :: r => do
      let (o, r1) ← parseBd r
      match r1 with
      | "[" :: r2 => do
          let (ns, r3) ← parseList r2 "]"
          some (.nautilus (s == "1") o ns, r3)
      | _ => none
  | _ => none
where
  parseList : List String → String → Option (List Bd × List String)
    | t :: r, close => if t == close then some ([], r) else do
        let (b, r1) ← parseBd (t :: r)
        let (bs, r2) ← parseList r1 close
        some (b :: bs, r2)
    | [], _ => none

def bits (s : String) : Array Bool := (s.toList.map (· == '1')).toArray

def tableGet (tbl : List (String × Array Bool)) (name : String) (p : Nat) : Bool :=
  match tbl.find? (fun kv => kv.1 == name) with
  | some kv => kv.2.getD p false
  | none => false

/-- `bound <n> <expr tokens> | name=bits ... | sh=i,j,k...` → contains bits of points 0..n-1 -/
def handle : List String → Option String
  | "bound" :: n :: rest => do
      let n ← n.toNat?
      let (exprT, tail) := rest.span (· ≠ "|")
      let (b, leftover) ← parseBd exprT
      if leftover ≠ [] then none else
      let fields := tail.filter (· ≠ "|")
      let tbl : List (String × Array Bool) := fields.filterMap (fun f =>
        match f.splitOn "=" with
        | [k, v] => if k == "sh" then none else some (k, bits v)
        | _ => none)
      let sh : Array Nat := match fields.find? (fun f => f.startsWith "sh=") with
        | some f => (((f.drop 3).toString.splitOn ",").filterMap String.toNat?).toArray
        | none => #[]
      let L : Leaves := {
        cube := fun p => tableGet tbl "cube" p
        ell := fun e p => tableGet tbl ("ell" ++ toString e) p
        mixCube := fun e p => tableGet tbl ("mixc" ++ toString e) p
        net := fun k p => tableGet tbl ("net" ++ toString k) p
        sh := fun p => sh.getD p p
        unsh := fun p => p }
      some (String.ofList ((List.range n).map (fun p => if contains L b p then '1' else '0')))
  | _ => none

end BoundDriver
