import NautilusVerif.Model.CrashFS
open NautilusVerif CrashFS
namespace CrashDriver

/-- ops: `o<fd>,<path>,<w><t><c>`  `m<fd>`  `c<fd>`  `u<path>`  `r<src>,<dst>`  `l<src>,<dst>`  `k` -/
def parseOp (s : String) : Option Sys :=
  let body := (s.drop 1).toString
  match s.front with
  | 'o' => match body.splitOn "," with
    | [fd, p, flags] => do
        let fl := flags.toList
        some (.openat (← fd.toNat?) (← p.toNat?) (fl[0]? == some '1') (fl[1]? == some '1') (fl[2]? == some '1'))
    | _ => none
  | 'm' => body.toNat?.map .mutate
  | 'c' => body.toNat?.map .close
  | 'u' => body.toNat?.map .unlink
  | 'r' => match body.splitOn "," with
    | [a, b] => do some (.rename (← a.toNat?) (← b.toNat?))
    | _ => none
  | 'l' => match body.splitOn "," with
    | [a, b] => do some (.link (← a.toNat?) (← b.toNat?))
    | _ => none
  | 'k' => some .mark
  | _ => none

/-- `crash op op ...` → `atomic=<bool> firstUnsafe=<k|none> firstBadOp=<index of the first op violating opOK|none>` -/
def handle : List String → Option String
  | "crash" :: rest => do
      let tr ← rest.mapM parseOp
      let fu := match firstUnsafe tr with | some k => toString k | none => "none"
      -- first operation that violates the discipline
      let rec go (s : FSt) (i : Nat) : List Sys → Option Nat
        | [] => none
        | op :: ops => if opOK s op then go (apply s op) (i + 1) ops else some i
      let fb := match go {} 0 tr with | some k => toString k | none => "none"
      some s!"atomic={atomicOK tr} firstUnsafe={fu} firstBadOp={fb} n={tr.length}"
  | _ => none

end CrashDriver
