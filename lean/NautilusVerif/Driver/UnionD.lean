import NautilusVerif.Model.UnionRec
open NautilusVerif UnionRec
namespace UnionDriver

def parseNats (s : String) : Option (List Nat) :=
  if s == "" || s == "-" then some [] else (s.splitOn ",").mapM String.toNat?

def parseBits (s : String) : Option (List Bool) :=
  if s == "-" then some [] else s.toList.mapM (fun c => if c == '0' then some false else if c == '1' then some true else none)

def parseAttempt (s : String) : Option SplitOracle :=
  match s.splitOn ":" with
  | [idx, labels, r0, r1, ov, gr] => do
      some { index := ← idx.toNat?, labels := ← parseBits labels, rank0 := ← parseNats r0, rank1 := ← parseNats r1,
             overlap := ov == "1", grows := gr == "1" }
  | _ => none

def parseOp (ws : List String) : Option Op :=
  match ws with
  | "split" :: allow :: atts => do some (.split (allow == "1") (← atts.mapM parseAttempt))
  | ["trim", idx, drop] => do some (.trim ⟨← idx.toNat?, drop == "1"⟩)
  | ["sample", n, rej] => do some (.sample (← n.toNat?) (← parseNats rej))
  | _ => none

/-- split a word list at ";" -/
def splitSemi : List String → List String → List (List String) → List (List String)
  | [], cur, acc => (acc ++ [cur])
  | w :: ws, cur, acc => if w == ";" then splitSemi ws [] (acc ++ [cur]) else splitSemi ws (cur ++ [w]) acc

def stepMode (legacy : Bool) (u : U) : Op → U × Out
  | .split a os => if legacy then splitLegacy u a os else split u a os
  | .trim o => if legacy then trimLegacy u o else trim u o
  | .sample n r => sample u n r

/-- `union <nDim> <nMin> <n> <fixed|legacy> ; op ; op ...`  → `out || state ;; out || state ...` -/
def handle (ws : List String) : Option String :=
  match ws with
  | "union" :: nDim :: nMin :: n :: mode :: rest => do
      let u0 := compute (← nDim.toNat?) (← nMin.toNat?) (← n.toNat?)
      let legacy := mode == "legacy"
      -- split the remaining words at ";"
      let groups := (splitSemi rest [] []).filter (· ≠ [])
      let ops ← groups.mapM parseOp
      let (_, outs) := ops.foldl (fun (acc : U × List String) op =>
        let r := stepMode legacy acc.1 op
        (r.1, acc.2 ++ [r.2.str ++ " || " ++ r.1.str])) (u0, [])
      some (" ;; ".intercalate outs)
  | _ => none

end UnionDriver
