import NautilusVerif.Model.PriorModel
open NautilusVerif PriorModel

namespace PriorDriver

def parseRat (s : String) : Option Rat :=
  match s.splitOn "/" with
  | [n] => n.toInt?.map (fun n => (n : Rat))
  | [n, d] => do
      let n ← n.toInt?
      let d ← d.toNat?
      if d == 0 then none else some (mkRat n d)
  | _ => none

def parse2 (s : String) : Option (Rat × Rat) :=
  match s.splitOn "," with
  | [a, b] => do some ((← parseRat a), (← parseRat b))
  | _ => none

def parseKey (s : String) : Option KeyArg :=
  if s == "auto" then some .auto
  else if s == "nonstr" then some .nonStr
  else if s.startsWith "s=" then some (.str (s.drop 2).toString)
  else none

def parseDist (s : String) : Option DistArg :=
  if s == "o" then some .other
  else if s.startsWith "r=" then (parse2 (s.drop 2).toString).map (fun ab => .range ab.1 ab.2)
  else if s.startsWith "i=" then (parse2 (s.drop 2).toString).map (fun ab => .isf ab.1 ab.2)
  else if s.startsWith "n=" then (parseRat (s.drop 2).toString).map .number
  else if s.startsWith "l=" then some (.link (s.drop 2).toString)
  else none

def parseOp (s : String) : Option (KeyArg × DistArg) :=
  match s.splitOn ":" with
  | [k, d] => do some ((← parseKey k), (← parseDist d))
  | _ => none

def dictStr (d : List (String × Rat)) : String :=
  ",".intercalate (d.map (fun kv => kv.1 ++ "=" ++ ratStr kv.2))

def exceptStr {α} (f : α → String) : Except Outcome α → String
  | .ok a => f a
  | .error e => "!" ++ e.str

/-- `prior <legacy|fixed> op op ... [u=r1,r2,..]` -/
def handle : List String → Option String
  | "prior" :: mode :: rest => do
      let addF ← if mode == "legacy" then some addLegacy else if mode == "fixed" then some add else none
      let (uArg, opsS) := rest.partition (fun s => s.startsWith "u=")
      let ops ← opsS.mapM parseOp
      let (p, outs) := ops.foldl (fun (acc : Prior × List Outcome) kd =>
        let r := addF acc.1 kd.1 kd.2; (r.1, acc.2 ++ [r.2])) (({} : Prior), [])
      let base := ",".intercalate (outs.map Outcome.str) ++ " ; " ++ p.str ++ " ; dim=" ++ toString (dimensionality p)
      match uArg with
      | [] => some base
      | [u] =>
        let body := (u.drop 2).toString
        let us ← if body == "" then some [] else (body.splitOn ",").mapM parseRat
        some (base ++ " ; phys=" ++ exceptStr (fun l => ",".intercalate (l.map ratStr)) (unitToPhysical p us)
                   ++ " ; dict=" ++ exceptStr dictStr (unitToDictionary p us))
      | _ => none
  | _ => none

end PriorDriver
