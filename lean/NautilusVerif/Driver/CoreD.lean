import NautilusVerif.Model.CoreInv
import NautilusVerif.Model.NodupFast
import NautilusVerif.Model.Run
open NautilusVerif Core
namespace CoreDriver

structure PtInfo where
  mask : Nat
  cube : Bool

/-- environment from a table `id ↦ (bitmask of containing bounds, inCube)` -/
def mkEnv (tbl : Array (Option PtInfo)) : Env :=
  { contains := fun b p => match tbl[p]? with
      | some (some i) => i.mask.testBit b
      | _ => false
    inCube := fun p => match tbl[p]? with
      | some (some i) => i.cube
      | _ => false }

def parsePt (s : String) : Option (Nat × PtInfo) :=
  match s.splitOn ":" with
  | [i, m, c] => do some ((← i.toNat?), { mask := ← m.toNat?, cube := c == "1" })
  | _ => none

def splitOnTok (tok : String) : List String → List String → List (List String) → List (List String)
  | [], cur, acc => acc ++ [cur]
  | w :: ws, cur, acc => if w == tok then splitOnTok tok ws [] (acc ++ [cur]) else splitOnTok tok ws (cur ++ [w]) acc

def nats (ws : List String) : Option (List Nat) := ws.mapM String.toNat?

/-- `R p p p K k k` groups -/
def parseRounds (ws : List String) : Option (List Round) :=
  let groups := (splitOnTok "R" ws [] []).filter (· ≠ [])
  groups.mapM (fun g =>
    match splitOnTok "K" g [] [] with
    | [ps, ks] => do some { props := ← nats ps, kept := ← nats ks }
    | _ => none)

def parseOp (ws : List String) : Option Op :=
  match ws with
  | ["B", "-"] => some (.addBound none)
  | ["B", b] => b.toNat?.map (fun b => .addBound (some b))
  | "S" :: sh :: rest =>
    match splitOnTok "T" rest [] [] with
    | [rs, ts] => do
        let shell ← if sh == "-" then some none else sh.toNat?.map some
        some (.addSamples shell (← parseRounds rs) (← nats ts))
    | _ => none
  | ["E", d] => some (.endExploration (d == "1"))
  | ["D", d] => some (.setDiscard (d == "1"))
  | _ => none

/-- events of `run()`: `RUN n_shell discard n_live n_like_max|-`, `END ret neffOK`, or an operation -/
def parseEv (ws : List String) : Option Run.Ev :=
  match ws with
  | ["RUN", ns, d, nl, mx] => do
      let m ← if mx == "-" then some none else mx.toNat?.map some
      some (.runStart { nShell := ← ns.toNat?, discard := d == "1", nLive := ← nl.toNat?, nLikeMax := m })
  | ["END", r, k] => some (.runEnd (r == "1") (k == "1"))
  | _ => (parseOp ws).map .op

def lstr (l : List Nat) : String := "[" ++ ",".intercalate (l.map toString) ++ "]"
def istr (l : List Int) : String := "[" ++ ",".intercalate (l.map toString) ++ "]"

/-- compact fingerprint of a list: length, sum and position-weighted sum modulo 2^64 (a reordering, a missing or a
    foreign element changes it) -/
def fp (l : List Nat) : String :=
  let (n, s, w) := l.foldl (fun (acc : Nat × UInt64 × UInt64) x =>
    (acc.1 + 1, acc.2.1 + UInt64.ofNat x, acc.2.2 + UInt64.ofNat (acc.1 + 1) * UInt64.ofNat x)) (0, 0, 0)
  s!"{n}:{s}:{w}"

def shellStr (full : Bool) (sh : Shell) : String :=
  if full then
    s!"b={sh.bound} p={lstr sh.pts} l={lstr sh.ls} x={lstr sh.bs} ns={sh.nSample} nse={sh.nSampleExp} ee={sh.endExp} n={sh.nShown}"
  else
    s!"b={sh.bound} p={fp sh.pts} l={fp sh.ls} x={fp sh.bs} ns={sh.nSample} nse={sh.nSampleExp} ee={sh.endExp} n={sh.nShown}"

def stStr (full : Bool) (s : St) : String :=
  " ; ".intercalate (s.shells.map (shellStr full)) ++
  (if full then s!" # t={lstr s.tPts} {lstr s.tLs} {lstr s.tBs} {istr s.tShell}"
   else s!" # t={fp s.tPts} {fp s.tLs} {fp s.tBs} {fp (s.tShell.map (fun t => (t + 1).toNat))}") ++
  s!" # ex={s.explored} d={s.discard} nl={s.nLike}"

def outStr : Out → String
  | .ok => "ok" | .okB b => s!"ok:{b}" | .badOracle w => "bad-oracle:" ++ w | .raised w => "raised:" ++ w

def invStr (env : Env) (s : St) : String :=
  s!"inshells={decide (InShells env s)} tlast={decide (TransfersInLast env s)} nodup={nodupFast (allStored s ++ (if s.explored then [] else unusedTransfers s))} " ++
  s!"aligned={decide (Aligned s)} counts={decide (Counts s)} shape={decide (ExploredShape s)}"

/-- `core <nBatch> | P id:mask:cube ... | op | op ...` → per op `out # state # invariants`, joined by ` ;; ` -/
def handle (ws : List String) : Option String :=
  match ws with
  | mode :: nb :: "|" :: rest => do
      let full ← if mode == "corefull" then some true else if mode == "core" then some false else none
      let nBatch ← nb.toNat?
      let groups := splitOnTok "|" rest [] []
      match groups with
      | ("P" :: pts) :: opsW => do
          let infos ← pts.mapM parsePt
          let size := infos.foldl (fun m ip => max m (ip.1 + 1)) 0
          let tbl := infos.foldl (fun (t : Array (Option PtInfo)) ip => t.set! ip.1 (some ip.2))
            (Array.replicate size none)
          let env := mkEnv tbl
          -- `R` = a new sampler object resumed from the checkpoint file: the identity on the model state (the recorded
          -- abstraction of the resumed sampler must equal the model state), legal only between `run()` calls
          let evs ← (opsW.filter (· ≠ [])).mapM (fun ws => if ws == ["R"] then some none else (parseEv ws).map some)
          -- `run=`: the event sequence so far is one `run()` can issue (`Run.accept`, evaluated on the state before the event)
          let (_, _, outs) := evs.foldl (fun (acc : St × Option Run.Pos × List String) ev? =>
            let pos' := match ev? with
              | some ev => acc.2.1.bind (fun pos => Run.accept pos acc.1 ev)
              | none => acc.2.1.bind (fun pos => if pos == Run.Pos.idle then some Run.Pos.idle else none)
            let (s', out) := match ev? with
              | some (.op o) => let r := step env acc.1 o; (r.1, outStr r.2)
              | _ => (acc.1, "ok")
            (s', pos', acc.2.2 ++ [out ++ " # " ++ stStr full s' ++ " # " ++ invStr env s' ++ s!" run={pos'.isSome}"]))
            (init nBatch, some Run.Pos.idle, [])
          some (" ;; ".intercalate outs)
      | _ => none
  | _ => none

end CoreDriver
