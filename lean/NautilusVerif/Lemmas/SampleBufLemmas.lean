/- `SampleBuf`: the counters of both cache levels account for every point, through serial refills and pool merges. -/
import NautilusVerif.Model.SampleBuf
import Mathlib.Data.List.Basic
import Mathlib.Tactic.Linarith
import Mathlib.Tactic.Ring
namespace NautilusVerif.SampleBuf

theorem lvlOK_init : LvlOK {} := by simp [LvlOK]

theorem ok_init : OK {} := ⟨lvlOK_init, lvlOK_init, rfl, rfl⟩

theorem refill_ok (l : Lvl) (k : List Pt) (h : LvlOK l) (hk : k.length ≤ batch) : LvlOK (refill l k) := by
  obtain ⟨h1, h2, h3⟩ := h
  refine ⟨?_, ?_, ?_⟩
  · simp only [refill]; omega
  · simp only [refill, List.length_append]; omega
  · simp only [refill]; exact Nat.dvd_add h3 (dvd_refl _)

/-- `Union.sample(n)` hands out exactly `n` points, the first `n` of its cache, and its counters stay exact -/
theorem unionSample_spec : ∀ (ps : List (List Pt)) (l : Lvl) (n : Nat) (l' : Lvl) (pts : List Pt), LvlOK l →
    unionSample l n ps = some (l', pts) →
    LvlOK l' ∧ pts.length = n ∧ l'.out = l.out ++ pts ∧ l'.discarded = l.discarded ∧
    pts ++ l'.buf = l.buf ++ ps.flatten ∧ l'.nSample = l.nSample + batch * ps.length
  | [], l, n, l', pts, h, hs => by
    simp only [unionSample] at hs
    split at hs
    · rename_i hn
      simp only [Option.some.injEq, Prod.mk.injEq] at hs
      obtain ⟨rfl, rfl⟩ := hs
      obtain ⟨h1, h2, h3⟩ := h
      refine ⟨⟨h1, ?_, h3⟩, by simp [hn], rfl, rfl, by simp, by simp⟩
      simp only [List.length_append, List.length_drop, List.length_take]
      omega
    · exact absurd hs (by simp)
  | k :: ks, l, n, l', pts, h, hs => by
    simp only [unionSample] at hs
    split at hs
    · exact absurd hs (by simp)
    split at hs
    · exact absurd hs (by simp)
    rename_i hk
    obtain ⟨i1, i2, i3, i4, i5, i6⟩ := unionSample_spec ks (refill l k) n l' pts (refill_ok l k h (by omega)) hs
    refine ⟨i1, i2, i3, i4, ?_, ?_⟩
    · rw [i5]; simp [refill]
    · rw [i6]; simp only [refill, List.length_cons]; ring

theorem innerRound_spec (b b' : NB) (r : Round) (h : OK b) (hs : innerRound b r = some b') :
    OK b' ∧ b'.inner.out = b.inner.out ∧ b'.inner.buf = b.inner.buf ++ r.accepted ∧
    b'.inner.nSample = b.inner.nSample + batch ∧ (∀ p ∈ r.accepted, p ∈ b'.outer.out) := by
  unfold innerRound at hs
  split at hs
  · exact absurd hs (by simp)
  rename_i o' props hu
  split at hs
  · rename_i hsub
    simp only [Option.some.injEq] at hs
    subst hs
    obtain ⟨hi, ho, hl, hd⟩ := h
    obtain ⟨u1, u2, u3, u4, _, _⟩ := unionSample_spec _ _ _ _ _ ho hu
    have hsub' : r.accepted.Sublist props := List.isSublist_iff_sublist.mp hsub
    have hlen : r.accepted.length ≤ batch := by rw [← u2]; exact hsub'.length_le
    refine ⟨⟨refill_ok _ _ hi hlen, u1, ?_, ?_⟩, rfl, rfl, rfl, ?_⟩
    · simp only [Linked, refill, u3, List.length_append, u2]
      rw [hl]
    · simpa [refill] using hd
    · intro p hp
      rw [u3]
      exact List.mem_append_right _ (hsub'.subset hp)
  · exact absurd hs (by simp)

/-- the serial branch ends with at least `n` cached points; nothing is handed out; the cache grows by the accepted points of
    the rounds, in order -/
theorem fillSerial_spec : ∀ (rs : List Round) (b b' : NB) (n : Nat), OK b → fillSerial b n rs = some b' →
    OK b' ∧ n ≤ b'.inner.buf.length ∧ b'.inner.out = b.inner.out ∧
    b'.inner.buf = b.inner.buf ++ (rs.map (·.accepted)).flatten ∧ b'.inner.nSample = b.inner.nSample + batch * rs.length
  | [], b, b', n, h, hs => by
    simp only [fillSerial] at hs
    split at hs
    · rename_i hn
      simp only [Option.some.injEq] at hs
      subst hs
      exact ⟨h, hn, rfl, by simp, by simp⟩
    · exact absurd hs (by simp)
  | r :: rs, b, b', n, h, hs => by
    simp only [fillSerial] at hs
    split at hs
    · exact absurd hs (by simp)
    split at hs
    · exact absurd hs (by simp)
    rename_i b1 hr
    obtain ⟨k1, k2, k3, k4, _⟩ := innerRound_spec b b1 r h hr
    obtain ⟨i1, i2, i3, i4, i5⟩ := fillSerial_spec rs b1 b' n k1 hs
    refine ⟨i1, i2, i3.trans k2, ?_, ?_⟩
    · rw [i4, k3]; simp
    · rw [i5, k4]; simp only [List.length_cons]; ring

/-- what a round hands to the network level comes from the outer union, whose hand-out log only grows -/
theorem innerRound_out (b b' : NB) (r : Round) (hs : innerRound b r = some b') (h : OK b) :
    ∃ props, b'.outer.out = b.outer.out ++ props ∧ ∀ p ∈ r.accepted, p ∈ props := by
  unfold innerRound at hs
  split at hs
  · exact absurd hs (by simp)
  rename_i o' props hu
  split at hs
  · rename_i hsub
    simp only [Option.some.injEq] at hs
    subst hs
    obtain ⟨_, _, u3, _⟩ := unionSample_spec _ _ _ _ _ h.2.1 hu
    exact ⟨props, u3, fun p hp => (List.isSublist_iff_sublist.mp hsub).subset hp⟩
  · exact absurd hs (by simp)

/-- soundness of the cache: every point the serial loop adds to the cache was handed out by the outer union (and, by the oracle
    `accepted`, passed the networks) — the cache never holds a point that did not come through both levels -/
theorem fillSerial_sound : ∀ (rs : List Round) (b b' : NB) (n : Nat), OK b → fillSerial b n rs = some b' →
    (∃ extra, b'.outer.out = b.outer.out ++ extra ∧ ∀ p ∈ b'.inner.buf, p ∈ b.inner.buf ∨ p ∈ extra)
  | [], b, b', n, _, hs => by
    simp only [fillSerial] at hs
    split at hs
    · simp only [Option.some.injEq] at hs; subst hs; exact ⟨[], by simp, fun p hp => Or.inl hp⟩
    · exact absurd hs (by simp)
  | r :: rs, b, b', n, h, hs => by
    simp only [fillSerial] at hs
    split at hs
    · exact absurd hs (by simp)
    split at hs
    · exact absurd hs (by simp)
    rename_i b1 hr
    obtain ⟨k1, _, k3, _, _⟩ := innerRound_spec b b1 r h hr
    obtain ⟨props, hp1, hp2⟩ := innerRound_out b b1 r hr h
    obtain ⟨extra, he1, he2⟩ := fillSerial_sound rs b1 b' n k1 hs
    refine ⟨props ++ extra, by rw [he1, hp1, List.append_assoc], ?_⟩
    intro p hp
    rcases he2 p hp with h1 | h1
    · rw [k3] at h1
      rcases List.mem_append.mp h1 with h2 | h2
      · exact Or.inl h2
      · exact Or.inr (List.mem_append_left _ (hp2 p h2))
    · exact Or.inr (List.mem_append_right _ h1)

theorem worker_spec (b w : NB) (n : Nat) (rs : List Round) (hs : worker b n rs = some w) :
    OK w ∧ n ≤ w.inner.buf.length ∧ w.inner.out = [] ∧ w.inner.buf = (rs.map (·.accepted)).flatten := by
  obtain ⟨h1, h2, h3, h4, _⟩ := fillSerial_spec rs (reset b) w n ok_init hs
  exact ⟨h1, h2, by simpa [reset] using h3, by simpa [reset] using h4⟩

/-- the merge of the pool branch keeps both levels exact: the worker's own counters belong to the inner level, the counters
    of the worker's outer bound to the outer level -/
theorem merge_ok (b w : NB) (hb : OK b) (hw : OK w) (hwo : w.inner.out = []) : OK (merge b w) := by
  obtain ⟨⟨a1, a2, a3⟩, ⟨b1, b2, b3⟩, hl, hd⟩ := hb
  obtain ⟨⟨c1, c2, c3⟩, ⟨d1, d2, d3⟩, hl', hd'⟩ := hw
  rw [hwo] at c2
  simp only [List.length_nil, Nat.add_zero] at c2
  refine ⟨⟨?_, ?_, ?_⟩, ⟨?_, ?_, ?_⟩, ?_, ?_⟩
  · simp only [merge]; omega
  · simp only [merge, List.length_append]; omega
  · simp only [merge]; exact Nat.dvd_add a3 c3
  · simp only [merge]; omega
  · simp only [merge, List.length_append]; omega
  · simp only [merge]; exact Nat.dvd_add b3 d3
  · simp only [Linked, merge, List.length_append]; rw [hl, hl']
  · simpa [merge] using hd

theorem fillPool_aux (b0 : NB) (m : Nat) : ∀ (jobs : List (List Round)) (a a' : NB), OK a →
    jobs.foldl (fun acc rs => match acc, worker b0 m rs with
      | some a, some w => some (merge a w)
      | _, _ => none) (some a) = some a' →
    OK a' ∧ a.inner.buf.length + m * jobs.length ≤ a'.inner.buf.length ∧ a'.inner.out = a.inner.out ∧
    a'.inner.buf = a.inner.buf ++ (jobs.map (fun rs => (rs.map (·.accepted)).flatten)).flatten
  | [], a, a', h, hs => by
    simp only [List.foldl_nil, Option.some.injEq] at hs
    subst hs
    exact ⟨h, by simp, rfl, by simp⟩
  | rs :: jobs, a, a', h, hs => by
    simp only [List.foldl_cons] at hs
    cases hw : worker b0 m rs with
    | none =>
      rw [hw] at hs
      have : ∀ (js : List (List Round)), js.foldl (fun acc rs => match acc, worker b0 m rs with
          | some a, some w => some (merge a w)
          | _, _ => none) (none : Option NB) = none := by
        intro js; induction js with
        | nil => rfl
        | cons j js ih => simpa using ih
      rw [this] at hs
      exact absurd hs (by simp)
    | some w =>
      rw [hw] at hs
      obtain ⟨w1, w2, w3, w4⟩ := worker_spec b0 w m rs hw
      obtain ⟨i1, i2, i3, i4⟩ := fillPool_aux b0 m jobs (merge a w) a' (merge_ok a w h w1 w3) hs
      refine ⟨i1, ?_, ?_, ?_⟩
      · have : (merge a w).inner.buf.length = a.inner.buf.length + w.inner.buf.length := by simp [merge]
        rw [this] at i2
        simp only [List.length_cons]
        have : m * (jobs.length + 1) = m * jobs.length + m := by ring
        omega
      · rw [i3]; simp [merge]
      · rw [i4]; simp [merge, w4]

theorem perJob_enough (b : NB) (n jobs : Nat) (hj : 0 < jobs) : n ≤ b.inner.buf.length + perJob b n jobs * jobs := by
  unfold perJob
  have h := Nat.lt_mul_div_succ (max (n - b.inner.buf.length) 10000) hj
  have h2 : n - b.inner.buf.length ≤ max (n - b.inner.buf.length) 10000 := le_max_left _ _
  have : jobs * ((max (n - b.inner.buf.length) 10000) / jobs + 1) = ((max (n - b.inner.buf.length) 10000) / jobs + 1) * jobs := by ring
  omega

theorem fill_spec (b bf : NB) (n : Nat) (f : Fill) (h : OK b) (hf : fill b n f = some bf) :
    OK bf ∧ n ≤ bf.inner.buf.length ∧ bf.inner.out = b.inner.out := by
  unfold fill at hf
  split at hf
  · rename_i hn
    split at hf
    · cases hf; exact ⟨h, hn, rfl⟩
    · cases hf; exact ⟨h, hn, rfl⟩
    · exact absurd hf (by simp)
  · cases f with
    | serial rs =>
      obtain ⟨i1, i2, i3, _⟩ := fillSerial_spec rs b bf n h hf
      exact ⟨i1, i2, i3⟩
    | pool jobs =>
      simp only at hf
      split at hf
      · exact absurd hf (by simp)
      rename_i hj
      obtain ⟨i1, i2, i3, _⟩ := fillPool_aux b (perJob b n jobs.length) jobs b bf h hf
      have hpos : 0 < jobs.length := by
        cases jobs with
        | nil => simp at hj
        | cons _ _ => simp
      have := perJob_enough b n jobs.length hpos
      exact ⟨i1, by omega, i3⟩

/-- **`NautilusBound.sample` keeps the counters of both levels exact and hands out exactly the first `n` cached points**,
    serially or through a pool of any size -/
theorem sample_spec (b b' : NB) (n : Nat) (ret : Bool) (f : Fill) (pts : List Pt) (h : OK b)
    (hs : sample b n ret f = some (b', pts)) :
    OK b' ∧ (ret = true → pts.length = n ∧ b'.inner.out = b.inner.out ++ pts) ∧
    (ret = false → pts = [] ∧ n ≤ b'.inner.buf.length ∧ b'.inner.out = b.inner.out) := by
  unfold sample at hs
  split at hs
  · exact absurd hs (by simp)
  rename_i bf hf
  obtain ⟨k1, k2, k3⟩ := fill_spec b bf n f h hf
  cases ret with
  | false =>
    simp only [Bool.false_eq_true, if_false, Option.some.injEq, Prod.mk.injEq] at hs
    obtain ⟨rfl, rfl⟩ := hs
    exact ⟨k1, by simp, fun _ => ⟨rfl, k2, k3⟩⟩
  | true =>
    simp only [if_true, Option.some.injEq, Prod.mk.injEq] at hs
    obtain ⟨rfl, rfl⟩ := hs
    obtain ⟨⟨a1, a2, a3⟩, ho, hl, hd⟩ := k1
    refine ⟨⟨⟨a1, ?_, a3⟩, ho, hl, hd⟩, fun _ => ⟨by simp [k2], by simp [k3]⟩, by simp⟩
    simp only [List.length_append, List.length_drop, List.length_take]
    omega

/-- consequence for the reported volume: the acceptance fraction `1 - n_reject / n_sample` of a level is
    (points that reached its cache) / (proposals drawn), never negative, never above one -/
theorem accepted_le (l : Lvl) (h : LvlOK l) : acceptedCount l ≤ l.nSample ∧
    acceptedCount l = l.buf.length + l.out.length + l.discarded := ⟨Nat.sub_le _ _, h.2.1⟩

end NautilusVerif.SampleBuf
