/- Lemmas for C13 (statements fixed by Properties/C13.lean). -/
import NautilusVerif.Model.UnionRec
import Mathlib.Data.List.Basic
import Mathlib.Data.List.Perm.Basic
import Mathlib.Tactic.Linarith
import Mathlib.Tactic.Ring
namespace NautilusVerif.UnionRec

/-- one consistent record per ellipsoid -/
def InvU (u : U) : Prop :=
  u.bounds.length = u.pts.length ∧ u.logv.length = u.pts.length ∧ u.block.length = u.pts.length ∧
  u.bounds = u.pts ∧ u.logv = u.pts ∧
  (∀ (i : Nat) (P : List Pt), u.pts[i]? = some P → P.length < 2 * u.nMin → u.block[i]? = some true) ∧
  u.nReject ≤ u.nSample ∧ 1 ≤ u.pts.length

/-- the two clusters the model forms from member `o.index` with oracle `o` -/
def clusters (u : U) (o : SplitOracle) : List Pt × List Pt :=
  match u.pts[o.index]? with
  | some P => (select P (topUp u.nMin o true) false, select P (topUp u.nMin o true) true)
  | none => ([], [])


/-! ### auxiliary lemmas -/

theorem select_nil (labels : List Bool) (v : Bool) : select [] labels v = [] := by simp [select]

theorem select_cons (p : Pt) (P : List Pt) (l : Bool) (ls : List Bool) (v : Bool) :
    select (p :: P) (l :: ls) v = if l == v then p :: select P ls v else select P ls v := by
  unfold select
  cases l <;> cases v <;> simp [List.zip_cons_cons]

theorem countL_cons (l : Bool) (ls : List Bool) (v : Bool) :
    countL (l :: ls) v = if l == v then countL ls v + 1 else countL ls v := by
  unfold countL
  cases l <;> cases v <;> simp

theorem select_perm : ∀ (P : List Pt) (labels : List Bool), labels.length = P.length →
    (select P labels false ++ select P labels true).Perm P
  | [], labels, _ => by simp [select_nil]
  | p :: P, [], h => by simp at h
  | p :: P, l :: ls, h => by
    have ih := select_perm P ls (by simpa using h)
    cases l
    · simpa [select_cons] using ih
    · simp only [select_cons]
      simpa using (List.perm_middle.trans (ih.cons p))

theorem select_length : ∀ (P : List Pt) (labels : List Bool) (v : Bool), labels.length = P.length →
    (select P labels v).length = countL labels v
  | [], [], _, _ => by simp [select_nil, countL]
  | [], _ :: _, _, h => by simp at h
  | p :: P, [], _, h => by simp at h
  | p :: P, l :: ls, v, h => by
    have ih := select_length P ls v (by simpa using h)
    rw [select_cons, countL_cons]
    split <;> simp [ih]

theorem topUp_length (nMin : Nat) (o : SplitOracle) (b : Bool) : (topUp nMin o b).length = o.labels.length := by
  unfold topUp
  simp only []
  split_ifs <;> simp [setLabels]

theorem flatten_eraseIdx_perm : ∀ (l : List (List Pt)) (i : Nat) (P : List Pt), l[i]? = some P →
    ((l.eraseIdx i).flatten ++ P).Perm l.flatten
  | [], i, P, h => by simp at h
  | x :: l, 0, P, h => by
    simp at h; subst h
    simpa using List.perm_append_comm
  | x :: l, i + 1, P, h => by
    have ih := flatten_eraseIdx_perm l i P (by simpa using h)
    simpa [List.append_assoc] using ih.append_left x

theorem sum_eraseIdx (vol : List Pt → Rat) : ∀ (l : List (List Pt)) (i : Nat) (P : List Pt), l[i]? = some P →
    (l.map vol).sum = ((l.eraseIdx i).map vol).sum + vol P
  | [], i, P, h => by simp at h
  | x :: l, 0, P, h => by
    simp at h; subst h
    simp [add_comm]
  | x :: l, i + 1, P, h => by
    have ih := sum_eraseIdx vol l i P (by simpa using h)
    simp [ih, add_assoc]


/-- the state after a successful split of member `o.index` (points `P`) when the flags are `blk` -/
def splitSucc (u : U) (blk : List Bool) (o : SplitOracle) (P : List Pt) : U :=
  reset { u with
    bounds := u.bounds.eraseIdx o.index ++
      [select P (topUp u.nMin o true) false, select P (topUp u.nMin o true) true]
    pts := u.pts.eraseIdx o.index ++
      [select P (topUp u.nMin o true) false, select P (topUp u.nMin o true) true]
    logv := u.bounds.eraseIdx o.index ++
      [select P (topUp u.nMin o true) false, select P (topUp u.nMin o true) true]
    block := blk.eraseIdx o.index ++
      [decide ((select P (topUp u.nMin o true) false).length < 2 * u.nMin),
       decide ((select P (topUp u.nMin o true) true).length < 2 * u.nMin)] }

/-- what a successful attempt with oracle `o` on member `P` under flags `blk` guarantees -/
def SuccAt (u : U) (blk : List Bool) (o : SplitOracle) (P : List Pt) : Prop :=
  o.grows = false ∧ u.pts[o.index]? = some P ∧ blk[o.index]? = some false ∧ o.labels.length = P.length ∧
  u.nMin ≤ countL (topUp u.nMin o true) false ∧ u.nMin ≤ countL (topUp u.nMin o true) true

theorem splitAttempt_some (u : U) (a : Bool) (o : SplitOracle) (u' : U) (out : Out)
    (h : splitAttempt u a o = some (u', out)) :
    (u' = u ∧ (out = .ret false ∨ out = .badOracle)) ∨
    (out = .ret true ∧ ∃ P, SuccAt u u.block o P ∧ u' = splitSucc u u.block o P) := by
  unfold splitAttempt at h
  split at h
  · rename_i P hP hB
    by_cases h1 : o.labels.length ≠ P.length
    · rw [if_pos h1] at h
      simp only [Option.some.injEq, Prod.mk.injEq] at h
      exact Or.inl ⟨h.1.symm, Or.inr h.2.symm⟩
    rw [if_neg h1] at h
    dsimp only at h
    by_cases h2 : (!(decide (u.nMin ≤ countL (topUp u.nMin o true) false) &&
        decide (u.nMin ≤ countL (topUp u.nMin o true) true))) = true
    · rw [if_pos h2] at h; simp at h
    rw [if_neg h2] at h
    by_cases h3 : (!a && o.overlap) = true
    · rw [if_pos h3] at h
      simp only [Option.some.injEq, Prod.mk.injEq] at h
      exact Or.inl ⟨h.1.symm, Or.inl h.2.symm⟩
    rw [if_neg h3] at h
    by_cases h4 : o.grows = true
    · rw [if_pos h4] at h; simp at h
    rw [if_neg h4] at h
    simp only [Option.some.injEq, Prod.mk.injEq] at h
    refine Or.inr ⟨h.2.symm, P, ⟨?_, hP, hB, ?_, ?_, ?_⟩, h.1.symm⟩
    · simpa using h4
    · simpa using h1
    · simp at h2; exact h2.1
    · simp at h2; exact h2.2
  · simp only [Option.some.injEq, Prod.mk.injEq] at h
    exact Or.inl ⟨h.1.symm, Or.inr h.2.symm⟩

/-- master description of `split` -/
theorem split_char : ∀ (os : List SplitOracle) (u : U) (a : Bool),
    ∃ blk : List Bool, blk.length = u.block.length ∧ (∀ i : Nat, u.block[i]? = some true → blk[i]? = some true) ∧
      (((split u a os).1 = { u with block := blk } ∧
          ((split u a os).2 = .ret false ∨ (split u a os).2 = .badOracle ∨
            (∃ w, (split u a os).2 = .raised w ∧ broadcastOk blk.length u.logv.length = false))) ∨
       ((split u a os).2 = .ret true ∧ ∃ o ∈ os, ∃ P, SuccAt u blk o P ∧ (split u a os).1 = splitSucc u blk o P))
  | [], u, a => by
    refine ⟨u.block, rfl, fun _ h => h, Or.inl ⟨?_, ?_⟩⟩
    · unfold split; split_ifs <;> rfl
    · unfold split; split_ifs <;> simp
  | o :: os, u, a => by
    unfold split
    split_ifs with h1 h2
    · exact ⟨u.block, rfl, fun _ h => h, Or.inl ⟨rfl, Or.inl rfl⟩⟩
    · refine ⟨u.block, rfl, fun _ h => h, Or.inl ⟨rfl, Or.inr (Or.inr ⟨_, rfl, ?_⟩)⟩⟩
      simpa using h2
    · split
      · rename_i r hr
        obtain ⟨u', out⟩ := r
        rcases splitAttempt_some u a o u' out hr with ⟨rfl, ho⟩ | ⟨ho, P, hs, hu'⟩
        · refine ⟨u'.block, rfl, fun _ h => h, Or.inl ⟨rfl, ?_⟩⟩
          rcases ho with ho | ho
          · exact Or.inl ho
          · exact Or.inr (Or.inl ho)
        · exact ⟨u.block, rfl, fun _ h => h, Or.inr ⟨ho, o, List.mem_cons_self, P, hs, hu'⟩⟩
      · obtain ⟨blk, hl, hm, hc⟩ := split_char os { u with block := u.block.set o.index true } a
        refine ⟨blk, by simpa using hl, ?_, ?_⟩
        · intro i hi
          apply hm
          simp only [List.getElem?_set]
          split_ifs with e1 e2
          · rfl
          · exfalso
            rw [List.getElem?_eq_none (by omega)] at hi
            simp at hi
          · exact hi
        · rcases hc with hc | ⟨h1, o', ho', P, hs, hu'⟩
          · exact Or.inl hc
          · exact Or.inr ⟨h1, o', List.mem_cons_of_mem _ ho', P, hs, hu'⟩

/-! ### invariant helpers -/

theorem sound_eraseIdx (pts : List (List Pt)) (blk : List Bool) (nMin k : Nat)
    (hs : ∀ (i : Nat) (P : List Pt), pts[i]? = some P → P.length < 2 * nMin → blk[i]? = some true) :
    ∀ (i : Nat) (P : List Pt), (pts.eraseIdx k)[i]? = some P → P.length < 2 * nMin →
      (blk.eraseIdx k)[i]? = some true := by
  intro i P hP hl
  rw [List.getElem?_eraseIdx] at hP ⊢
  split_ifs at hP ⊢ with h1
  · exact hs _ _ hP hl
  · exact hs _ _ hP hl

theorem sound_append2 (pts : List (List Pt)) (blk : List Bool) (nMin : Nat) (A B : List Pt)
    (hlen : blk.length = pts.length)
    (hs : ∀ (i : Nat) (P : List Pt), pts[i]? = some P → P.length < 2 * nMin → blk[i]? = some true) :
    ∀ (i : Nat) (P : List Pt), (pts ++ [A, B])[i]? = some P → P.length < 2 * nMin →
      (blk ++ [decide (A.length < 2 * nMin), decide (B.length < 2 * nMin)])[i]? = some true := by
  intro i P hP hl
  rw [List.getElem?_append] at hP ⊢
  rw [hlen]
  split_ifs at hP ⊢ with h1
  · exact hs _ _ hP hl
  · obtain ⟨j, rfl⟩ : ∃ j, i = pts.length + j := ⟨i - pts.length, by omega⟩
    simp only [Nat.add_sub_cancel_left] at hP ⊢
    match j, hP with
    | 0, hP =>
      simp at hP; subst hP; simpa using hl
    | 1, hP =>
      simp at hP; subst hP; simpa using hl
    | j + 2, hP => simp at hP

theorem InvU_blocked (u u' : U) (h : InvU u) (hb : u'.bounds = u.bounds) (hp : u'.pts = u.pts)
    (hl : u'.logv = u.logv) (hlen : u'.block.length = u.block.length)
    (hm : ∀ i : Nat, u.block[i]? = some true → u'.block[i]? = some true) (hn : u'.nMin = u.nMin)
    (hr : u'.nReject ≤ u'.nSample) : InvU u' := by
  obtain ⟨h1, h2, h3, h4, h5, h6, _, h8⟩ := h
  refine ⟨?_, ?_, ?_, ?_, ?_, ?_, hr, ?_⟩
  · rw [hb, hp]; exact h1
  · rw [hl, hp]; exact h2
  · rw [hlen, hp]; exact h3
  · rw [hb, hp]; exact h4
  · rw [hl, hp]; exact h5
  · intro i P hP hlt
    rw [hp] at hP; rw [hn] at hlt
    exact hm i (h6 i P hP hlt)
  · rw [hp]; exact h8

theorem InvU_erase (u : U) (h : InvU u) (k : Nat) (hk : k < u.pts.length) (h2 : 2 ≤ u.pts.length) :
    InvU (reset { u with bounds := u.bounds.eraseIdx k, pts := u.pts.eraseIdx k, logv := u.bounds.eraseIdx k,
                         block := u.block.eraseIdx k }) := by
  obtain ⟨h1, h2', h3, h4, h5, h6, _, h8⟩ := h
  have e : (u.pts.eraseIdx k).length = u.pts.length - 1 := List.length_eraseIdx_of_lt hk
  refine ⟨?_, ?_, ?_, ?_, ?_, ?_, ?_, ?_⟩ <;> simp only [reset]
  · rw [h4]
  · rw [h4]
  · rw [List.length_eraseIdx_of_lt (by omega), e, h3]
  · rw [h4]
  · rw [h4]
  · exact sound_eraseIdx u.pts u.block u.nMin k h6
  · exact Nat.le_refl _
  · rw [e]; omega

theorem InvU_splitSucc (u : U) (h : InvU u) (blk : List Bool) (o : SplitOracle) (P : List Pt)
    (hlen : blk.length = u.block.length)
    (hm : ∀ i : Nat, u.block[i]? = some true → blk[i]? = some true) (hs : SuccAt u blk o P) :
    InvU (splitSucc u blk o P) := by
  obtain ⟨h1, h2', h3, h4, h5, h6, _, h8⟩ := h
  obtain ⟨_, hP, _, _, _, _⟩ := hs
  have hk : o.index < u.pts.length := by
    rcases Nat.lt_or_ge o.index u.pts.length with hk | hk
    · exact hk
    · rw [List.getElem?_eq_none hk] at hP; simp at hP
  have e : (u.pts.eraseIdx o.index).length = u.pts.length - 1 := List.length_eraseIdx_of_lt hk
  have eb : (blk.eraseIdx o.index).length = u.pts.length - 1 := by
    rw [List.length_eraseIdx_of_lt (by omega), hlen, h3]
  refine ⟨?_, ?_, ?_, ?_, ?_, ?_, ?_, ?_⟩ <;> simp only [splitSucc, reset]
  · rw [h4]
  · rw [h4]
  · simp only [List.length_append, eb, e, List.length_cons, List.length_nil]
  · rw [h4]
  · rw [h4]
  · apply sound_append2 _ _ _ _ _ (by rw [eb, e])
    apply sound_eraseIdx
    intro i Q hQ hlt
    exact hm i (h6 i Q hQ hlt)
  · exact Nat.le_refl _
  · simp only [List.length_append, e, List.length_cons, List.length_nil]; omega

theorem sample_char : ∀ (rej : List Nat) (u : U) (n : Nat),
    (sample u n rej).1.pts = u.pts ∧ (sample u n rej).1.bounds = u.bounds ∧
    (sample u n rej).1.logv = u.logv ∧ (sample u n rej).1.block = u.block ∧
    (sample u n rej).1.nMin = u.nMin ∧ (sample u n rej).1.nDim = u.nDim ∧
    (u.nReject ≤ u.nSample → (sample u n rej).1.nReject ≤ (sample u n rej).1.nSample) ∧
    ((sample u n rej).2 = .ret true ∨ (sample u n rej).2 = .badOracle)
  | [], u, n => by
    unfold sample
    split_ifs <;> simp
  | r :: rs, u, n => by
    unfold sample
    split_ifs with h1 h2
    · simp
    · simp
    · obtain ⟨a1, a2, a3, a4, a5, a6, a7, a8⟩ := sample_char rs
        { u with cache := u.cache + (1000 - r), nSample := u.nSample + 1000, nReject := u.nReject + r } n
      refine ⟨a1, a2, a3, a4, a5, a6, ?_, a8⟩
      intro hle
      apply a7
      show u.nReject + r ≤ u.nSample + 1000
      omega

theorem trim_char (u : U) (o : TrimOracle) :
    ((trim u o).1 = u ∧ ((trim u o).2 = .ret false ∨ (trim u o).2 = .badOracle)) ∨
    ((trim u o).2 = .ret true ∧ u.bounds.length ≠ 1 ∧ o.index < u.bounds.length ∧ o.index < u.pts.length ∧
      (trim u o).1 = reset { u with bounds := u.bounds.eraseIdx o.index, pts := u.pts.eraseIdx o.index,
                                    logv := u.bounds.eraseIdx o.index, block := u.block.eraseIdx o.index }) := by
  unfold trim
  split_ifs with h1 h2 h3
  · exact Or.inl ⟨rfl, Or.inl rfl⟩
  · exact Or.inl ⟨rfl, Or.inr rfl⟩
  · simp at h1 h2
    exact Or.inr ⟨rfl, h1, h2.1, h2.2, rfl⟩
  · exact Or.inl ⟨rfl, Or.inl rfl⟩

/-! ### the C13 lemmas -/

theorem inv_compute (nDim nMin n : Nat) : InvU (compute nDim nMin n) := by
  refine ⟨rfl, rfl, rfl, rfl, rfl, ?_, Nat.le_refl _, Nat.le_refl _⟩
  intro i P hP hl
  simp only [compute] at hP hl ⊢
  match i, hP with
  | 0, hP =>
    simp at hP; subst hP
    simpa using hl
  | i + 1, hP => simp at hP

theorem inv_step (u : U) (op : Op) (h : InvU u) : InvU (step u op).1 := by
  cases op with
  | split a os =>
    show InvU (split u a os).1
    obtain ⟨blk, hlen, hm, hc⟩ := split_char os u a
    rcases hc with ⟨he, _⟩ | ⟨_, o, _, P, hs, he⟩
    · rw [he]
      exact InvU_blocked u _ h rfl rfl rfl hlen hm rfl h.2.2.2.2.2.2.1
    · rw [he]
      exact InvU_splitSucc u h blk o P hlen hm hs
  | trim o =>
    show InvU (trim u o).1
    rcases trim_char u o with ⟨he, _⟩ | ⟨_, hne, _, hk, he⟩
    · rw [he]; exact h
    · rw [he]
      have := h.1
      have := h.2.2.2.2.2.2.2
      exact InvU_erase u h o.index hk (by omega)
  | sample n r =>
    show InvU (sample u n r).1
    obtain ⟨a1, a2, a3, a4, a5, _, a7, _⟩ := sample_char r u n
    exact InvU_blocked u _ h a2 a1 a3 (by rw [a4]) (by rw [a4]; exact fun _ h => h) a5 (a7 h.2.2.2.2.2.2.1)

theorem inv_exec (u : U) (ops : List Op) (h : InvU u) : InvU (exec u ops) := by
  induction ops generalizing u with
  | nil => exact h
  | cons op ops ih =>
    show InvU (exec (step u op).1 ops)
    exact ih _ (inv_step u op h)

theorem step_nMin (u : U) (op : Op) : (step u op).1.nMin = u.nMin ∧ (step u op).1.nDim = u.nDim := by
  cases op with
  | split a os =>
    show (split u a os).1.nMin = u.nMin ∧ (split u a os).1.nDim = u.nDim
    obtain ⟨blk, _, _, hc⟩ := split_char os u a
    rcases hc with ⟨he, _⟩ | ⟨_, o, _, P, _, he⟩ <;> rw [he] <;> exact ⟨rfl, rfl⟩
  | trim o =>
    show (trim u o).1.nMin = u.nMin ∧ (trim u o).1.nDim = u.nDim
    rcases trim_char u o with ⟨he, _⟩ | ⟨_, _, _, _, he⟩ <;> rw [he] <;> exact ⟨rfl, rfl⟩
  | sample n r =>
    obtain ⟨_, _, _, _, a5, a6, _, _⟩ := sample_char r u n
    exact ⟨a5, a6⟩

/-- points: a split only regroups, a trim removes exactly one member, sampling touches nothing -/
theorem split_points (u : U) (a : Bool) (os : List SplitOracle) :
    (split u a os).1.pts.flatten.Perm u.pts.flatten := by
  obtain ⟨blk, _, _, hc⟩ := split_char os u a
  rcases hc with ⟨he, _⟩ | ⟨_, o, _, P, hs, he⟩
  · rw [he]
  · rw [he]
    obtain ⟨_, hP, _, hl, _, _⟩ := hs
    simp only [splitSucc, reset, List.flatten_append, List.flatten_cons, List.flatten_nil, List.append_nil]
    refine List.Perm.trans ?_ (flatten_eraseIdx_perm u.pts o.index P hP)
    apply List.Perm.append_left
    exact select_perm P _ (by rw [topUp_length, hl])

theorem trim_points (u : U) (o : TrimOracle) :
    ((trim u o).2 = .ret true → (trim u o).1.pts = u.pts.eraseIdx o.index ∧ o.index < u.pts.length) ∧
    ((trim u o).2 ≠ .ret true → (trim u o).1.pts = u.pts) := by
  rcases trim_char u o with ⟨he, ho | ho⟩ | ⟨ho, _, _, hk, he⟩
  · rw [he, ho]; simp
  · rw [he, ho]; simp
  · rw [he, ho]; exact ⟨fun _ => ⟨rfl, hk⟩, fun hne => absurd rfl hne⟩

theorem sample_points (u : U) (n : Nat) (rej : List Nat) :
    (sample u n rej).1.pts = u.pts ∧ (sample u n rej).1.bounds = u.bounds ∧
    (sample u n rej).1.logv = u.logv ∧ (sample u n rej).1.block = u.block := by
  obtain ⟨a1, a2, a3, a4, _⟩ := sample_char rej u n
  exact ⟨a1, a2, a3, a4⟩

/-- a successful split replaces one member by two, each with at least `nMin` points, together the old points -/
theorem split_min (u : U) (a : Bool) (os : List SplitOracle) (h : (split u a os).2 = .ret true) :
    ∃ (i : Nat) (P A B : List Pt), u.pts[i]? = some P ∧
      (split u a os).1.pts = u.pts.eraseIdx i ++ [A, B] ∧
      u.nMin ≤ A.length ∧ u.nMin ≤ B.length ∧ (A ++ B).Perm P := by
  obtain ⟨blk, _, _, hc⟩ := split_char os u a
  rcases hc with ⟨_, ho | ho | ⟨w, ho, _⟩⟩ | ⟨_, o, _, P, hs, he⟩
  · rw [ho] at h; cases h
  · rw [ho] at h; cases h
  · rw [ho] at h; cases h
  · obtain ⟨_, hP, _, hl, hA, hB⟩ := hs
    have hlen : (topUp u.nMin o true).length = P.length := by rw [topUp_length, hl]
    refine ⟨o.index, P, select P (topUp u.nMin o true) false, select P (topUp u.nMin o true) true, hP, ?_, ?_, ?_,
      select_perm P _ hlen⟩
    · rw [he]; rfl
    · rw [select_length P _ _ hlen]; exact hA
    · rw [select_length P _ _ hlen]; exact hB

/-- a successful split never increases the summed volume, for every volume function the oracle answers are
    consistent with -/
theorem split_volume (u : U) (hu : InvU u) (a : Bool) (os : List SplitOracle) (vol : List Pt → Rat)
    (hc : ∀ o ∈ os, o.grows = false → ∀ P, u.pts[o.index]? = some P →
        vol (clusters u o).1 + vol (clusters u o).2 ≤ vol P)
    (h : (split u a os).2 = .ret true) :
    ((split u a os).1.logv.map vol).sum ≤ (u.logv.map vol).sum := by
  obtain ⟨blk, _, _, hch⟩ := split_char os u a
  rcases hch with ⟨_, ho | ho | ⟨w, ho, _⟩⟩ | ⟨_, o, hmem, P, hs, he⟩
  · rw [ho] at h; cases h
  · rw [ho] at h; cases h
  · rw [ho] at h; cases h
  · obtain ⟨hg, hP, _, _, _, _⟩ := hs
    have hv := hc o hmem hg P hP
    simp only [clusters, hP] at hv
    rw [he]
    simp only [splitSucc, reset]
    rw [hu.2.2.2.1, hu.2.2.2.2.1, sum_eraseIdx vol u.pts o.index P hP]
    simp only [List.map_append, List.sum_append, List.map_cons, List.map_nil, List.sum_cons, List.sum_nil]
    linarith

/-- a refused operation leaves ellipsoids and points unchanged; only may-split flags may be gained -/
theorem refused (u : U) (op : Op) (h : (step u op).2 = .ret false) :
    (step u op).1.bounds = u.bounds ∧ (step u op).1.pts = u.pts ∧ (step u op).1.logv = u.logv ∧
    (step u op).1.block.length = u.block.length ∧
    ∀ i : Nat, u.block[i]? = some true → (step u op).1.block[i]? = some true := by
  cases op with
  | split a os =>
    change (split u a os).2 = .ret false at h
    show (split u a os).1.bounds = u.bounds ∧ (split u a os).1.pts = u.pts ∧ (split u a os).1.logv = u.logv ∧
      (split u a os).1.block.length = u.block.length ∧
      ∀ i : Nat, u.block[i]? = some true → (split u a os).1.block[i]? = some true
    obtain ⟨blk, hlen, hm, hc⟩ := split_char os u a
    rcases hc with ⟨he, _⟩ | ⟨ho, _⟩
    · rw [he]; exact ⟨rfl, rfl, rfl, hlen, hm⟩
    · rw [ho] at h; cases h
  | trim o =>
    change (trim u o).2 = .ret false at h
    show (trim u o).1.bounds = u.bounds ∧ (trim u o).1.pts = u.pts ∧ (trim u o).1.logv = u.logv ∧
      (trim u o).1.block.length = u.block.length ∧
      ∀ i : Nat, u.block[i]? = some true → (trim u o).1.block[i]? = some true
    rcases trim_char u o with ⟨he, _⟩ | ⟨ho, _⟩
    · rw [he]; exact ⟨rfl, rfl, rfl, rfl, fun _ h => h⟩
    · rw [ho] at h; cases h
  | sample n r =>
    change (sample u n r).2 = .ret false at h
    obtain ⟨_, _, _, _, _, _, _, ho | ho⟩ := sample_char r u n <;> (rw [ho] at h; cases h)

/-- no operation raises on a well-formed union -/
theorem no_raise (u : U) (hu : InvU u) (op : Op) (w : String) : (step u op).2 ≠ .raised w := by
  cases op with
  | split a os =>
    show (split u a os).2 ≠ .raised w
    intro h
    obtain ⟨blk, hlen, _, hc⟩ := split_char os u a
    rcases hc with ⟨_, ho | ho | ⟨w', _, hb⟩⟩ | ⟨ho, _⟩
    · rw [ho] at h; cases h
    · rw [ho] at h; cases h
    · rw [hlen, hu.2.2.1, hu.2.1] at hb
      simp [broadcastOk] at hb
    · rw [ho] at h; cases h
  | trim o =>
    show (trim u o).2 ≠ .raised w
    intro h
    rcases trim_char u o with ⟨_, ho | ho⟩ | ⟨ho, _⟩ <;> (rw [ho] at h; cases h)
  | sample n r =>
    show (sample u n r).2 ≠ .raised w
    intro h
    obtain ⟨_, _, _, _, _, _, _, ho | ho⟩ := sample_char r u n <;> (rw [ho] at h; cases h)

end NautilusVerif.UnionRec

#print axioms NautilusVerif.UnionRec.inv_compute
#print axioms NautilusVerif.UnionRec.inv_step
#print axioms NautilusVerif.UnionRec.inv_exec
#print axioms NautilusVerif.UnionRec.step_nMin
#print axioms NautilusVerif.UnionRec.split_points
#print axioms NautilusVerif.UnionRec.trim_points
#print axioms NautilusVerif.UnionRec.sample_points
#print axioms NautilusVerif.UnionRec.split_min
#print axioms NautilusVerif.UnionRec.split_volume
#print axioms NautilusVerif.UnionRec.refused
#print axioms NautilusVerif.UnionRec.no_raise
