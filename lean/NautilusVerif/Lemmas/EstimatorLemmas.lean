/-
  C02: the estimators of `Sampler` in linear space (statements fixed by Properties/C02Est.lean).

  A shell `i` has a bound volume `Vb i`, `N i` proposals, and `n i` visible samples with likelihoods `L i j`
  (`j < n i`).  In the code these appear as `bounds[i].log_v`, `shell_n_sample[i]` (minus the exploration count in the
  discard view), `shell_n[i]`, `exp(log_l[i][j])`; `logsumexp` of logs is the sum, `+` of logs is the product.
-/
import Mathlib.Algebra.BigOperators.Field
import Mathlib.Algebra.BigOperators.Ring.Finset
import Mathlib.Analysis.SpecialFunctions.Log.Basic
import Mathlib.Tactic.FieldSimp
import Mathlib.Tactic.Ring
import Mathlib.Tactic.Positivity
import Mathlib.Tactic.Linarith
namespace NautilusVerif.Estimator
open Finset

variable {m : ℕ}

/-- shell volume: bound volume times the fraction of proposals that stayed in the shell -/
noncomputable def shellVol (Vb : Fin m → ℝ) (n N : Fin m → ℕ) (i : Fin m) : ℝ := Vb i * ((n i : ℝ) / (N i : ℝ))

/-- sum of the likelihoods of the visible samples of shell `i` -/
noncomputable def sumL (n : Fin m → ℕ) (L : (i : Fin m) → Fin (n i) → ℝ) (i : Fin m) : ℝ := ∑ j, L i j
noncomputable def sumL2 (n : Fin m → ℕ) (L : (i : Fin m) → Fin (n i) → ℝ) (i : Fin m) : ℝ := ∑ j, (L i j) ^ 2

/-- the importance-sampling evidence: every sample contributes likelihood × (shell volume / number of samples) -/
noncomputable def Z (Vb : Fin m → ℝ) (n N : Fin m → ℕ) (L : (i : Fin m) → Fin (n i) → ℝ) : ℝ :=
  ∑ i, ∑ j, L i j * (shellVol Vb n N i / (n i : ℝ))

/-- weight of sample `j` of shell `i` -/
noncomputable def w (Vb : Fin m → ℝ) (n N : Fin m → ℕ) (L : (i : Fin m) → Fin (n i) → ℝ) (i : Fin m) (j : Fin (n i)) : ℝ :=
  L i j * (shellVol Vb n N i / (n i : ℝ)) / Z Vb n N L

/-- log-space form used by `update_shell_info`: `exp(log Vb + log(n/N)) = Vb · n/N` -/
theorem shell_log_v_exp (logVb : ℝ) (n N : ℕ) (hn : 0 < n) (hN : 0 < N) :
    Real.exp (logVb + Real.log ((n : ℝ) / (N : ℝ))) = Real.exp logVb * ((n : ℝ) / (N : ℝ)) := by
  have hpos : (0 : ℝ) < (n : ℝ) / (N : ℝ) := div_pos (Nat.cast_pos.mpr hn) (Nat.cast_pos.mpr hN)
  rw [Real.exp_add, Real.exp_log hpos]

/-- the shell volume never exceeds the bound volume when the count does not exceed the proposals -/
theorem shellVol_le (Vb : Fin m → ℝ) (n N : Fin m → ℕ) (i : Fin m) (hV : 0 ≤ Vb i) (hN : 0 < N i) (h : n i ≤ N i) :
    shellVol Vb n N i ≤ Vb i := by
  unfold shellVol
  have hN' : (0 : ℝ) < (N i : ℝ) := Nat.cast_pos.mpr hN
  have hle : ((n i : ℝ)) / (N i : ℝ) ≤ 1 := (div_le_one hN').mpr (Nat.cast_le.mpr h)
  exact mul_le_of_le_one_right hV hle

/-- what `log_z` combines: `Σ_i (shell volume) × (mean likelihood of the shell)` is `Z` (empty shells contribute 0) -/
theorem Z_eq_shell_sum (Vb : Fin m → ℝ) (n N : Fin m → ℕ) (L : (i : Fin m) → Fin (n i) → ℝ) :
    Z Vb n N L = ∑ i, shellVol Vb n N i * (sumL n L i / (n i : ℝ)) := by
  unfold Z sumL
  refine Finset.sum_congr rfl (fun i _ => ?_)
  rw [← Finset.sum_mul]
  ring

/-- the weights `posterior()` returns are the per-sample terms normalised to one -/
theorem weights_sum_one (Vb : Fin m → ℝ) (n N : Fin m → ℕ) (L : (i : Fin m) → Fin (n i) → ℝ) (hZ : Z Vb n N L ≠ 0) :
    ∑ i, ∑ j, w Vb n N L i j = 1 := by
  unfold w
  have h : ∑ i, ∑ j, L i j * (shellVol Vb n N i / (n i : ℝ)) / Z Vb n N L
      = (∑ i, ∑ j, L i j * (shellVol Vb n N i / (n i : ℝ))) / Z Vb n N L := by
    rw [Finset.sum_div]
    refine Finset.sum_congr rfl (fun i _ => ?_)
    rw [Finset.sum_div]
  rw [h]
  exact div_self hZ

/-- **n_eff is the Kish effective sample size of the weights**: combining the per-shell statistics the way the code
    does, `(Σ_i Z_i)² / Σ_i Z_i² / nEff_i` with `Z_i = shellVol_i · mean L_i` and `nEff_i = (ΣL)²/ΣL²`, equals
    `(Σ w)² / Σ w²` over all samples.  Shells whose likelihoods are all zero contribute to neither sum. -/
theorem kish_identity (Vb : Fin m → ℝ) (n N : Fin m → ℕ) (L : (i : Fin m) → Fin (n i) → ℝ)
    (hpos : ∀ i, 0 < n i) :
    (∑ i, shellVol Vb n N i * (sumL n L i / (n i : ℝ))) ^ 2 /
        (∑ i, (shellVol Vb n N i / (n i : ℝ)) ^ 2 * sumL2 n L i) =
      (∑ i, ∑ j, L i j * (shellVol Vb n N i / (n i : ℝ))) ^ 2 /
        (∑ i, ∑ j, (L i j * (shellVol Vb n N i / (n i : ℝ))) ^ 2) := by
  have hnum : (∑ i, shellVol Vb n N i * (sumL n L i / (n i : ℝ)))
      = ∑ i, ∑ j, L i j * (shellVol Vb n N i / (n i : ℝ)) := by
    have := Z_eq_shell_sum Vb n N L
    unfold Z at this
    exact this.symm
  have hden : (∑ i, (shellVol Vb n N i / (n i : ℝ)) ^ 2 * sumL2 n L i)
      = ∑ i, ∑ j, (L i j * (shellVol Vb n N i / (n i : ℝ))) ^ 2 := by
    unfold sumL2
    refine Finset.sum_congr rfl (fun i _ => ?_)
    rw [Finset.mul_sum]
    refine Finset.sum_congr rfl (fun j _ => ?_)
    ring
  rw [hnum, hden]

/-- per-shell form used by the code: `Z_i² / nEff_i = (shellVol_i / n_i)² · ΣL²` when `ΣL ≠ 0` -/
theorem shell_term (v : ℝ) (nn : ℕ) (sL sL2 : ℝ) (hs : sL ≠ 0) (hn : 0 < nn) :
    (v * (sL / (nn : ℝ))) ^ 2 / (sL ^ 2 / sL2) = (v / (nn : ℝ)) ^ 2 * sL2 := by
  have hn' : (nn : ℝ) ≠ 0 := Nat.cast_ne_zero.mpr hn.ne'
  by_cases h2 : sL2 = 0
  · subst h2
    simp
  · field_simp

end NautilusVerif.Estimator

#print axioms NautilusVerif.Estimator.shell_log_v_exp
#print axioms NautilusVerif.Estimator.shellVol_le
#print axioms NautilusVerif.Estimator.Z_eq_shell_sum
#print axioms NautilusVerif.Estimator.weights_sum_one
#print axioms NautilusVerif.Estimator.kish_identity
#print axioms NautilusVerif.Estimator.shell_term
