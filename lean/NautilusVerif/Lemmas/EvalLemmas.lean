/- `Eval`: the three evaluation modes are the same function of the batch. -/
import NautilusVerif.Model.Eval
import NautilusVerif.Lemmas.PoolLemmas
namespace NautilusVerif.Eval
variable {P A R : Type}

theorem transformRows_fst (prior : P → A × P) (buf : List P) : (transformRows prior buf).1 = buf.map (fun p => (prior p).1) := by
  simp [transformRows, List.map_map, Function.comp_def]

/-- every mode returns, in proposal order, the likelihood of the transformed row; the caller's rows are untouched; the
    counter grows by the size of the batch -/
theorem evaluate_spec (mode : Mode) (prior : P → A × P) (like : A → R) (likeVec : List A → List R) (points : List P)
    (hvec : ∀ as, likeVec as = as.map like)
    (hsched : ∀ s, mode = .pool s → s.Perm (List.range points.length)) :
    evaluate mode prior like likeVec points = (points.map (fun p => some (like (prior p).1)), points, points.length) := by
  unfold evaluate
  simp only [transformRows_fst]
  have hargs : (transformRows prior points).1 = points.map (fun p => (prior p).1) := transformRows_fst prior points
  cases mode with
  | scalar => simp [transformRows, List.map_map, Function.comp_def]
  | vectorized => simp [transformRows, hvec, List.map_map, Function.comp_def]
  | pool s =>
    have hp := hsched s rfl
    have hlen : (points.map (fun p => (prior p).1)).length = points.length := by simp
    have := Pool.gather_eq_map like (points.map (fun p => (prior p).1)) s (by rw [hlen]; exact hp)
    simp only [transformRows, List.map_map, Function.comp_def] at this ⊢
    rw [this]
    simp [List.map_map, Function.comp_def]

theorem split_aligned {L B : Type} (res : List (L × B)) : (split res).1.zip (split res).2 = res := by
  induction res with
  | nil => rfl
  | cons r rs ih => simp [split] at ih ⊢; exact ih

end NautilusVerif.Eval
