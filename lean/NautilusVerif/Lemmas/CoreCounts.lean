/- C02/C03/C10/C12: counting, row and phase lemmas of the `Core` state machine
   (statements fixed by Properties/C02.lean, C03.lean, C10.lean, C12.lean). -/
import NautilusVerif.Lemmas.CoreWF
import Mathlib.Data.List.Basic
import Mathlib.Data.List.Nodup
import Mathlib.Data.List.Infix
import Mathlib.Tactic.Linarith
namespace NautilusVerif.Core

/-- counting invariants hold in every state reachable with the phase discipline of `run()`, for every oracle
    sequence (nothing is assumed about what the numerics return) -/
theorem counts_exec (env : Env) (nBatch : Nat) (ops : List Op) (hr : RunShaped env (init nBatch) ops) :
    Aligned (exec env (init nBatch) ops) ∧ Counts (exec env (init nBatch) ops) ∧
    ExploredShape (exec env (init nBatch) ops) := by
  sorry

/-- the per-shell arrays always have equal lengths (a corollary of alignment, stated separately) -/
theorem lengths_exec (env : Env) (nBatch : Nat) (ops : List Op) :
    ∀ sh ∈ (exec env (init nBatch) ops).shells, sh.ls.length = sh.pts.length ∧ sh.bs.length = sh.pts.length := by
  sorry

/-- posterior rows are (point, its log-likelihood, its blob) triples of the visible rows, in storage order -/
theorem posterior_rows (s : St) (h : Aligned s) :
    posteriorRows s = ((s.shells.map (visible s)).flatten).map (fun p => (p, p, p)) := by
  sorry

/-- ... and each evaluated point appears at most once -/
theorem posterior_nodup (s : St) (h : Aligned s) (hn : NoDup s) : ((posteriorRows s).map (·.1)).Nodup := by
  sorry

/-- a successful `add_samples` evaluates exactly one batch, counts it, and appends exactly those rows (after any
    transferred rows) to the three arrays of the target shell; all evaluated rows were proposed in this call -/
theorem addSamples_batch (env : Env) (s : St) (ha : Aligned s) (sh : Option Nat) (rounds : List Round)
    (idxT : List Nat) (hok : (addSamples env s sh rounds idxT).2 = .ok) :
    ∃ (evald moved : List Pt) (old : Shell) (new : Shell),
      evald.length = s.nBatch ∧
      (addSamples env s sh rounds idxT).1.nLike = s.nLike + s.nBatch ∧
      (∀ p ∈ evald, ∃ r ∈ rounds, p ∈ r.props) ∧
      s.shells[sh.getD (s.shells.length - 1)]? = some old ∧
      (addSamples env s sh rounds idxT).1.shells[sh.getD (s.shells.length - 1)]? = some new ∧
      new.pts = old.pts ++ moved ++ evald ∧ new.ls = old.ls ++ moved ++ evald ∧ new.bs = old.bs ++ moved ++ evald ∧
      (sh.isSome → moved = []) := by
  sorry

/-- an operation that is not a successful `add_samples` evaluates nothing -/
theorem nLike_other (env : Env) (s : St) (op : Op)
    (h : ∀ sh rs it, op = .addSamples sh rs it → (step env s op).2 ≠ .ok) : (step env s op).1.nLike = s.nLike := by
  sorry

/-- C12: after exploration, the operations of the sampling phase keep the phase, freeze the bounds and only
    append to the arrays of each shell -/
theorem sampling_step (env : Env) (s : St) (op : Op) (he : s.explored = true) (hop : SamplingOp op) :
    (step env s op).1.explored = true ∧ bounds (step env s op).1 = bounds s ∧
    (step env s op).1.shells.length = s.shells.length ∧
    ∀ (i : Nat) (a b : Shell), s.shells[i]? = some a → (step env s op).1.shells[i]? = some b →
      a.pts <+: b.pts ∧ a.ls <+: b.ls ∧ a.bs <+: b.bs ∧ b.endExp = a.endExp ∧ b.nSampleExp = a.nSampleExp ∧
      b.bound = a.bound := by
  sorry

/-- no operation ever ends the explored phase -/
theorem explored_mono (env : Env) (s : St) (op : Op) (he : s.explored = true) : (step env s op).1.explored = true := by
  sorry

/-- the setter is a pure change of view: stored arrays and proposal counts are untouched -/
theorem setDiscard_stored (s : St) (b : Bool) :
    (setDiscard s b).shells.map (fun sh => (sh.bound, sh.pts, sh.ls, sh.bs, sh.nSample, sh.nSampleExp, sh.endExp)) =
      s.shells.map (fun sh => (sh.bound, sh.pts, sh.ls, sh.bs, sh.nSample, sh.nSampleExp, sh.endExp)) ∧
    (setDiscard s b).tPts = s.tPts ∧ (setDiscard s b).tShell = s.tShell ∧ (setDiscard s b).nLike = s.nLike ∧
    (setDiscard s b).explored = s.explored := by
  sorry

/-- switching twice restores everything; switching to the current value changes nothing once counts are fresh -/
theorem setDiscard_toggle (s : St) (b b' : Bool) :
    setDiscard (setDiscard s b') b = setDiscard s b ∧ (Counts s → Aligned s → setDiscard s s.discard = s) := by
  sorry

/-- with discard on, the visible rows of a shell are exactly those appended after exploration ended -/
theorem discard_view (s : St) (he : s.explored = true) (sh : Shell) (h : sh ∈ (setDiscard s true).shells) :
    visible (setDiscard s true) sh = sh.pts.drop sh.endExp ∧ sh.nShown = (sh.ls.drop sh.endExp).length := by
  sorry

/-- at the end of exploration empty shells are removed and the split point is the current length -/
theorem endExploration_shape (s : St) (d : Bool) :
    (endExploration s d).explored = true ∧
    ∀ sh ∈ (endExploration s d).shells, sh.endExp = sh.pts.length ∧ sh.nSampleExp = sh.nSample ∧
      ∃ sh0 ∈ s.shells, sh0.nShown ≠ 0 ∧ sh.pts = sh0.pts ∧ sh.bound = sh0.bound := by
  sorry

end NautilusVerif.Core
