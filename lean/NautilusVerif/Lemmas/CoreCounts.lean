/- C02/C03/C10/C12: counting, row and phase lemmas of the `Core` state machine
   (statements fixed by Properties/C02.lean, C03.lean, C10.lean, C12.lean). -/
import NautilusVerif.Lemmas.CoreWF
import Mathlib.Data.List.Basic
import Mathlib.Data.List.Nodup
import Mathlib.Data.List.Infix
import Mathlib.Tactic.Linarith
namespace NautilusVerif.Core

/-! ## auxiliary lemmas -/

theorem mem_modify_cases {α} (f : α → α) : ∀ (l : List α) (i : Nat) (x : α), x ∈ l.modify i f → x ∈ l ∨ ∃ y ∈ l, x = f y
  | [], i, x, h => by simp at h
  | a :: l, 0, x, h => by
    simp only [List.modify_zero_cons, List.mem_cons] at h
    rcases h with h | h
    · exact Or.inr ⟨a, by simp, h⟩
    · exact Or.inl (by simp [h])
  | a :: l, i+1, x, h => by
    simp only [List.modify_succ_cons, List.mem_cons] at h
    rcases h with h | h
    · exact Or.inl (by simp [h])
    · rcases mem_modify_cases f l i x h with h | ⟨y, hy, e⟩
      · exact Or.inl (by simp [h])
      · exact Or.inr ⟨y, by simp [hy], e⟩

theorem addBoundOk_fields (env : Env) (s : St) (b : BId) :
    (addBoundOk env s b).explored = s.explored ∧ (addBoundOk env s b).discard = s.discard ∧
    (addBoundOk env s b).nLike = s.nLike ∧ (addBoundOk env s b).nBatch = s.nBatch := by
  unfold addBoundOk
  dsimp only
  split <;> simp

theorem setDiscard_eq (s : St) (b : Bool) :
    setDiscard s b = { s with discard := b, shells := s.shells.map (fun sh => { sh with nShown := (sh.ls.drop (if b && s.explored then sh.endExp else 0)).length }) } := by
  rfl

/-- rows moved from the transfer arrays by a successful `add_samples` -/
def mvd (useT : Bool) (idxT' : List Nat) (arr : List Pt) : List Pt :=
  if useT && !idxT'.isEmpty then idxT'.map (fun j => getD arr j 0) else []

/-- net effect of a successful `add_samples` on its target shell -/
def addF (s : St) (useT : Bool) (idxT' : List Nat) (points : List Pt) (nBound : Nat) (sh : Shell) : Shell :=
  { sh with
    nSample := sh.nSample + nBound
    pts := sh.pts ++ mvd useT idxT' s.tPts ++ points
    ls := sh.ls ++ mvd useT idxT' s.tLs ++ points
    bs := sh.bs ++ mvd useT idxT' s.tBs ++ points
    nShown := ((sh.ls ++ mvd useT idxT' s.tLs ++ points).drop (if s.discard && s.explored then sh.endExp else 0)).length }

theorem addSamples_nf (env : Env) (s : St) (shellArg : Option Nat) (rounds : List Round) (idxT : List Nat) :
    ((addSamples env s shellArg rounds idxT).1 = s ∧ (addSamples env s shellArg rounds idxT).2 ≠ .ok) ∨
    ∃ points nBound idxT' tShell',
      shellArg.getD (s.shells.length - 1) < s.shells.length ∧
      sampleRounds env (s.shells.map (·.bound)) (shellArg.getD (s.shells.length - 1))
        (shellArg.isNone && !s.tShell.isEmpty) s.nBatch rounds 0 0 [] s.tShell idxT [] =
          some (points, nBound, idxT', tShell') ∧
      ((shellArg.isNone && !s.tShell.isEmpty) = true → points.length + idxT'.length = nBound) ∧
      addSamples env s shellArg rounds idxT =
        ({ s with
            shells := s.shells.modify (shellArg.getD (s.shells.length - 1))
              (addF s (shellArg.isNone && !s.tShell.isEmpty) idxT' points nBound)
            tShell := tShell'
            nLike := s.nLike + points.length }, .ok) := by
  unfold addSamples
  dsimp only
  by_cases h1 : s.shells.isEmpty
  · left; rw [if_pos h1]; simp
  rw [if_neg h1]
  by_cases h2 : shellArg.getD (s.shells.length - 1) ≥ s.shells.length
  · left; rw [if_pos h2]; simp
  rw [if_neg h2]
  cases hsr : sampleRounds env (s.shells.map (·.bound)) (shellArg.getD (s.shells.length - 1))
        (shellArg.isNone && !s.tShell.isEmpty) s.nBatch rounds 0 0 [] s.tShell idxT [] with
  | none => left; simp
  | some res =>
    obtain ⟨points, nBound, idxT', tShell'⟩ := res
    dsimp only
    by_cases h3 : ((shellArg.isNone && !s.tShell.isEmpty) && decide (points.length + idxT'.length ≠ nBound)) = true
    · left; rw [if_pos h3]; simp
    right
    refine ⟨points, nBound, idxT', tShell', by omega, rfl, ?_, ?_⟩
    · intro hu; simpa [hu] using h3
    · rw [if_neg h3]
      refine Prod.ext ?_ rfl
      dsimp only [updateShellInfo]
      congr 1
      by_cases hc : ((shellArg.isNone && !s.tShell.isEmpty) && !idxT'.isEmpty) = true
      · rw [if_pos hc]
        have hm : ∀ arr, mvd (shellArg.isNone && !s.tShell.isEmpty) idxT' arr = idxT'.map (fun j => getD arr j 0) := by
          intro arr; unfold mvd; rw [if_pos hc]
        have hn : shellArg = none := by
          cases shellArg with
          | none => rfl
          | some i => simp at hc
        subst hn
        simp only [Option.getD_none]
        rw [List.modify_modify_eq, List.modify_modify_eq]
        congr 1
        funext sh
        simp only [addF, hm, shown, start, Function.comp, List.append_assoc]
      · rw [if_neg hc, List.modify_modify_eq]
        have hm : ∀ arr, mvd (shellArg.isNone && !s.tShell.isEmpty) idxT' arr = [] := by
          intro arr; unfold mvd; rw [if_neg hc]
        congr 1
        funext sh
        simp only [addF, hm, shown, start, Function.comp, List.append_nil]

theorem transferLoop_len (env : Env) (earlier : List BId) (inShell kept : List Pt) :
    ∀ (fuel sh : Nat) (tShell : List Int) (stream acc : List Nat) (res : List Int × List Nat × List Nat),
      transferLoop env earlier inShell kept fuel sh tShell stream acc = some res → res.1.length = tShell.length
  | 0, sh, tShell, stream, acc, res, h => by
    simp only [transferLoop, Option.some.injEq] at h
    subst h; rfl
  | fuel+1, sh, tShell, stream, acc, res, h => by
    unfold transferLoop at h
    dsimp only at h
    split at h
    · exact absurd h (by simp)
    · have := transferLoop_len env earlier inShell kept fuel _ _ _ _ res h
      simpa using this

theorem sampleRounds_spec_cc (env : Env) (bounds : List BId) (index : Nat) (useT : Bool) (nBatch : Nat) :
    ∀ (rounds : List Round) (nS nB : Nat) (pts : List Pt) (tShell : List Int) (stream idxT : List Nat)
      (res : List Pt × Nat × List Nat × List Int),
      sampleRounds env bounds index useT nBatch rounds nS nB pts tShell stream idxT = some res →
      pts.length = nS → nS ≤ nB →
      res.1.length = nBatch ∧ nBatch ≤ res.2.1 ∧ res.2.2.2.length = tShell.length ∧
      (∀ p ∈ res.1, p ∈ pts ∨ ∃ r ∈ rounds, p ∈ r.props)
  | [], nS, nB, pts, tShell, stream, idxT, res, h, hp, hb => by
    simp only [sampleRounds] at h
    split at h
    · rename_i hc
      simp only [Option.some.injEq] at h
      subst h
      simp only [Bool.and_eq_true, beq_iff_eq] at hc
      refine ⟨by dsimp only; omega, by dsimp only; omega, rfl, fun p hp => Or.inl hp⟩
    · exact absurd h (by simp)
  | r :: rs, nS, nB, pts, tShell, stream, idxT, res, h, hp, hb => by
    unfold sampleRounds at h
    dsimp only at h
    split at h
    · exact absurd h (by simp)
    rename_i hlt
    split at h
    · exact absurd h (by simp)
    rename_i hlen
    have hlen' : r.props.length = nBatch - nS := by simpa using hlen
    have hin : (r.props.filter (fun p => (bounds.drop (index + 1)).all (fun b => !env.contains b p))).length
        ≤ nBatch - nS := by
      rw [← hlen']; exact List.length_filter_le _ _
    have hmem : ∀ p ∈ r.props.filter (fun p => (bounds.drop (index + 1)).all (fun b => !env.contains b p)),
        p ∈ r.props := fun p hp => (List.mem_filter.mp hp).1
    split at h
    · split at h
      · exact absurd h (by simp)
      rename_i tShell' stream' picked htl
      split at h
      · exact absurd h (by simp)
      rename_i hk
      split at h
      · exact absurd h (by simp)
      have hk' : r.kept = (r.props.filter (fun p => (bounds.drop (index + 1)).all (fun b => !env.contains b p))).filter
          (fun p => r.kept.contains p) := by simpa using hk
      have hkl : r.kept.length ≤ nBatch - nS := by
        rw [hk']; exact le_trans (List.length_filter_le _ _) hin
      have ih := sampleRounds_spec_cc env bounds index useT nBatch rs _ _ _ _ _ _ res h
        (by simp [hp]) (by omega)
      obtain ⟨h1, h2, h3, h4⟩ := ih
      refine ⟨h1, h2, ?_, ?_⟩
      · rw [h3]; exact transferLoop_len _ _ _ _ _ _ _ _ _ _ htl
      · intro p hp
        rcases h4 p hp with h | ⟨r', hr', hpr⟩
        · rcases List.mem_append.mp h with h | h
          · exact Or.inl h
          · refine Or.inr ⟨r, by simp, ?_⟩
            rw [hk'] at h
            exact hmem p (List.mem_filter.mp h).1
        · exact Or.inr ⟨r', by simp [hr'], hpr⟩
    · split at h
      · exact absurd h (by simp)
      rename_i hk
      have hk' : r.kept = r.props.filter (fun p => (bounds.drop (index + 1)).all (fun b => !env.contains b p)) := by
        simpa using hk
      have hkl : r.kept.length ≤ nBatch - nS := by rw [hk']; exact hin
      have ih := sampleRounds_spec_cc env bounds index useT nBatch rs _ _ _ _ _ _ res h
        (by simp [hp]) (by omega)
      obtain ⟨h1, h2, h3, h4⟩ := ih
      refine ⟨h1, h2, h3, ?_⟩
      intro p hp
      rcases h4 p hp with h | ⟨r', hr', hpr⟩
      · rcases List.mem_append.mp h with h | h
        · exact Or.inl h
        · refine Or.inr ⟨r, by simp, ?_⟩
          rw [hk'] at h
          exact hmem p h
      · exact Or.inr ⟨r', by simp [hr'], hpr⟩

theorem map_modify_of_eq {α β} (g : α → β) (f : α → α) (h : ∀ x, g (f x) = g x) :
    ∀ (l : List α) (i : Nat), (l.modify i f).map g = l.map g
  | [], i => by simp
  | a :: l, 0 => by simp [h]
  | a :: l, i+1 => by simp [map_modify_of_eq g f h l i]

theorem zip_self3 (l : List Pt) : l.zip (l.zip l) = l.map (fun p => (p, p, p)) := by
  induction l <;> simp_all

theorem flatten_drop_sublist (f : Shell → Nat) :
    ∀ l : List Shell, ((l.map (fun sh => sh.pts.drop (f sh))).flatten).Sublist ((l.map (·.pts)).flatten)
  | [] => by simp
  | a :: l => by
    simp only [List.map_cons, List.flatten_cons]
    exact List.Sublist.append (List.drop_sublist _ _) (flatten_drop_sublist f l)

theorem maskKeep_length_le (env : Env) (b : BId) (l key : List Pt) (keep : Bool) :
    (maskKeep env b l key keep).length ≤ l.length := by
  unfold maskKeep
  rw [List.length_map]
  refine le_trans (List.length_filter_le _ _) ?_
  rw [List.length_zip]; exact Nat.min_le_left _ _

theorem length_flatten_zipIdx_replicate (g : Shell → Nat) : ∀ (l : List Shell) (k : Nat),
    (((l.zipIdx k).map (fun (shi : Shell × Nat) => List.replicate (g shi.1) (shi.2 : Int))).flatten).length
      = ((l.map (fun sh => List.replicate (g sh) (0 : Pt))).flatten).length
  | [], k => by simp
  | a :: l, k => by
    simp only [List.zipIdx_cons, List.map_cons, List.flatten_cons, List.length_append, List.length_replicate]
    rw [length_flatten_zipIdx_replicate g l (k + 1)]

theorem length_flatten_congr {α β γ} (f : γ → List α) (g : γ → List β) :
    ∀ (l : List γ), (∀ x ∈ l, (f x).length = (g x).length) → ((l.map f).flatten).length = ((l.map g).flatten).length
  | [], _ => by simp
  | a :: l, h => by
    simp only [List.map_cons, List.flatten_cons, List.length_append]
    rw [h a (by simp), length_flatten_congr f g l (fun x hx => h x (by simp [hx]))]

/-- shells after an accepted `add_bound` -/
theorem addBoundOk_shells_mem (env : Env) (s : St) (b : BId) : ∀ sh ∈ (addBoundOk env s b).shells,
    sh = { bound := b } ∨ ∃ sh0 ∈ s.shells, sh = { sh0 with
      pts := maskKeep env b sh0.pts sh0.pts false
      ls := maskKeep env b sh0.ls sh0.pts false
      bs := maskKeep env b sh0.bs sh0.pts false
      nShown := ((maskKeep env b sh0.ls sh0.pts false).drop (if s.discard && s.explored then sh0.endExp else 0)).length } := by
  intro sh hsh
  unfold addBoundOk at hsh
  dsimp only at hsh
  split at hsh
  · rename_i he
    have : s.shells = [] := by simpa using he
    left; simpa [this] using hsh
  · simp only [List.mem_map] at hsh
    obtain ⟨shi, hmem, rfl⟩ := hsh
    rw [List.mem_zipIdx_iff_getElem?, List.getElem?_append] at hmem
    simp only [List.length_map] at hmem
    split
    · rename_i hlt
      rw [if_pos hlt, List.getElem?_map] at hmem
      right
      cases hg : s.shells[shi.2]? with
      | none => rw [hg] at hmem; simp at hmem
      | some sh0 =>
        rw [hg] at hmem
        simp only [Option.map_some, Option.some.injEq] at hmem
        refine ⟨sh0, List.mem_of_getElem? hg, ?_⟩
        rw [← hmem]
        simp [shown, start]
    · rename_i hlt
      rw [if_neg hlt] at hmem
      left
      have := List.mem_of_getElem? hmem
      simpa using this

theorem addBoundOk_transfers (env : Env) (s : St) (b : BId) (ha : Aligned s) :
    (addBoundOk env s b).tLs = (addBoundOk env s b).tPts ∧ (addBoundOk env s b).tBs = (addBoundOk env s b).tPts ∧
    (addBoundOk env s b).tShell.length = (addBoundOk env s b).tPts.length := by
  unfold addBoundOk
  dsimp only
  split
  · exact ha.2
  · dsimp only
    refine ⟨?_, ?_, ?_⟩
    · congr 1; apply List.map_congr_left; intro sh hsh; rw [(ha.1 sh hsh).1]
    · congr 1; apply List.map_congr_left; intro sh hsh; rw [(ha.1 sh hsh).2]
    · rw [length_flatten_zipIdx_replicate (fun sh => (maskKeep env b sh.pts sh.pts true).length)]
      apply length_flatten_congr
      intro x _; simp

theorem mvd_len (env : Env) (bounds : List BId) (index : Nat) (useT : Bool) (nBatch : Nat) (rounds : List Round)
    (tShell : List Int) (stream : List Nat) (points : List Pt) (nBound : Nat) (idxT' : List Nat) (tShell' : List Int)
    (arr : List Pt)
    (hsr : sampleRounds env bounds index useT nBatch rounds 0 0 [] tShell stream [] = some (points, nBound, idxT', tShell'))
    (hu : useT = true → points.length + idxT'.length = nBound) :
    (mvd useT idxT' arr).length + points.length ≤ nBound := by
  obtain ⟨h1, h2, _, _⟩ := sampleRounds_spec_cc env bounds index useT nBatch rounds 0 0 [] tShell stream [] _ hsr rfl (le_refl _)
  dsimp only at h1 h2
  unfold mvd
  split
  · rename_i hc
    have : useT = true := by cases useT <;> simp_all
    have := hu this
    simp; omega
  · simp; omega

/-! ### alignment is preserved by every step -/

theorem alignedC_step (env : Env) (s : St) (op : Op) (ha : Aligned s) : Aligned (step env s op).1 := by
  cases op with
  | addBound r =>
    cases r with
    | none => simp only [step, addBound]; split <;> exact ha
    | some b =>
      simp only [step, addBound]
      refine ⟨?_, addBoundOk_transfers env s b ha⟩
      intro sh hsh
      rcases addBoundOk_shells_mem env s b sh hsh with rfl | ⟨sh0, h0, rfl⟩
      · exact ⟨rfl, rfl⟩
      · obtain ⟨h1, h2⟩ := ha.1 sh0 h0
        simp only [h1, h2, and_self]
  | addSamples shA rs it =>
    simp only [step]
    rcases addSamples_nf env s shA rs it with ⟨h, _⟩ | ⟨points, nBound, idxT', tShell', hi, hsr, hu, heq⟩
    · rw [h]; exact ha
    · rw [heq]
      obtain ⟨_, _, h3, _⟩ := sampleRounds_spec_cc _ _ _ _ _ _ _ _ _ _ _ _ _ hsr rfl (le_refl _)
      refine ⟨?_, ha.2.1, ha.2.2.1, ?_⟩
      · intro sh hsh
        rcases mem_modify_cases _ _ _ _ hsh with h | ⟨y, hy, rfl⟩
        · exact ha.1 sh h
        · obtain ⟨h1, h2⟩ := ha.1 y hy
          simp only [addF, h1, h2, ha.2.1, ha.2.2.1, and_self]
      · dsimp only at h3 ⊢
        rw [h3]; exact ha.2.2.2
  | endExploration d =>
    simp only [step]
    refine ⟨?_, ha.2⟩
    intro sh hsh
    simp only [endExploration, setDiscard, updateAll, List.mem_map, List.mem_filter] at hsh
    obtain ⟨sh1, ⟨sh0, ⟨h0, _⟩, rfl⟩, rfl⟩ := hsh
    exact ha.1 sh0 h0
  | setDiscard b =>
    simp only [step]
    refine ⟨?_, ha.2⟩
    intro sh hsh
    simp only [setDiscard, updateAll, List.mem_map] at hsh
    obtain ⟨sh0, h0, rfl⟩ := hsh
    exact ha.1 sh0 h0

theorem exec_cons (env : Env) (s : St) (op : Op) (ops : List Op) :
    exec env s (op :: ops) = exec env (step env s op).1 ops := rfl

theorem alignedC_exec (env : Env) : ∀ (ops : List Op) (s : St), Aligned s → Aligned (exec env s ops)
  | [], s, h => h
  | op :: ops, s, h => by rw [exec_cons]; exact alignedC_exec env ops _ (alignedC_step env s op h)

theorem alignedC_init (nBatch : Nat) : Aligned (init nBatch) := by
  simp [Aligned, init]

/-! ### the strengthened counting invariant -/

def CShell (d e : Bool) (sh : Shell) : Prop :=
  sh.nShown = (sh.ls.drop (if d && e then sh.endExp else 0)).length ∧ sh.pts.length ≤ sh.nSample ∧
  (e = true → sh.pts ≠ [] ∧ sh.endExp ≤ sh.pts.length ∧ sh.nSampleExp ≤ sh.nSample ∧
    (sh.pts.length - sh.endExp) + sh.nSampleExp ≤ sh.nSample)

def CInv (s : St) : Prop := ∀ sh ∈ s.shells, CShell s.discard s.explored sh

theorem cinv_step (env : Env) (s : St) (op : Op) (ha : Aligned s) (hc : CInv s) (hp : PhaseOK s op) :
    CInv (step env s op).1 := by
  cases op with
  | addBound r =>
    cases r with
    | none => simp only [step, addBound]; split <;> exact hc
    | some b =>
      have he : s.explored = false := hp
      simp only [step, addBound]
      intro sh hsh
      obtain ⟨f1, f2, _, _⟩ := addBoundOk_fields env s b
      rw [f1, f2]
      rcases addBoundOk_shells_mem env s b sh hsh with rfl | ⟨sh0, h0, rfl⟩
      · refine ⟨by simp, by simp, ?_⟩
        intro h; rw [he] at h; exact absurd h (by simp)
      · obtain ⟨c1, c2, _⟩ := hc sh0 h0
        refine ⟨rfl, ?_, ?_⟩
        · exact le_trans (maskKeep_length_le _ _ _ _ _) c2
        · intro h; rw [he] at h; exact absurd h (by simp)
  | addSamples shA rs it =>
    simp only [step]
    rcases addSamples_nf env s shA rs it with ⟨h, _⟩ | ⟨points, nBound, idxT', tShell', hi, hsr, hu, heq⟩
    · rw [h]; exact hc
    · rw [heq]
      intro sh hsh
      dsimp only at hsh ⊢
      rcases mem_modify_cases _ _ _ _ hsh with h | ⟨y, hy, rfl⟩
      · exact hc sh h
      · obtain ⟨c1, c2, c3⟩ := hc y hy
        have hm := mvd_len _ _ _ _ _ _ _ _ _ _ _ _ s.tPts hsr hu
        refine ⟨rfl, ?_, ?_⟩
        · simp only [addF, List.length_append]; omega
        · intro he
          obtain ⟨d1, d2, d3, d4⟩ := c3 he
          refine ⟨?_, ?_, ?_, ?_⟩
          · simp only [addF]; intro hnil
            simp only [List.append_eq_nil_iff] at hnil
            exact d1 hnil.1.1
          · simp only [addF, List.length_append]; omega
          · simp only [addF]; omega
          · simp only [addF, List.length_append]; omega
  | endExploration d =>
    have he : s.explored = false := hp
    simp only [step]
    intro sh hsh
    simp only [endExploration, setDiscard, updateAll, List.mem_map, List.mem_filter] at hsh
    obtain ⟨sh1, ⟨sh0, ⟨h0, hn⟩, rfl⟩, rfl⟩ := hsh
    obtain ⟨c1, c2, _⟩ := hc sh0 h0
    have hl := (ha.1 sh0 h0).1
    rw [he] at c1
    simp only [Bool.and_false, Bool.false_eq_true, if_false, List.drop_zero, hl] at c1
    have hne : sh0.pts.length ≠ 0 := by
      rw [← c1]; simpa using hn
    refine ⟨?_, c2, ?_⟩
    · simp [endExploration, setDiscard, updateAll, shown, start]
    · intro _
      refine ⟨?_, le_refl _, le_refl _, ?_⟩
      · intro h; apply hne; simp only at h; rw [h]; rfl
      · simp
  | setDiscard b =>
    simp only [step]
    intro sh hsh
    simp only [setDiscard, updateAll, List.mem_map] at hsh
    obtain ⟨sh0, h0, rfl⟩ := hsh
    obtain ⟨c1, c2, c3⟩ := hc sh0 h0
    exact ⟨by simp [setDiscard, updateAll, shown, start], c2, c3⟩

theorem cinv_exec (env : Env) : ∀ (ops : List Op) (s : St), Aligned s → CInv s → RunShaped env s ops →
    Aligned (exec env s ops) ∧ CInv (exec env s ops)
  | [], s, ha, hc, _ => ⟨ha, hc⟩
  | op :: ops, s, ha, hc, hr => by
    rw [exec_cons]
    exact cinv_exec env ops _ (alignedC_step env s op ha) (cinv_step env s op ha hc hr.1) hr.2

theorem counts_of_cinv (s : St) (ha : Aligned s) (hc : CInv s) : Counts s ∧ ExploredShape s := by
  constructor
  · intro sh hsh
    obtain ⟨c1, c2, c3⟩ := hc sh hsh
    have hl := (ha.1 sh hsh).1
    rw [hl] at c1
    refine ⟨c1, ?_⟩
    split
    · rename_i hde
      have he : s.explored = true := by simp only [Bool.and_eq_true] at hde; exact hde.2
      obtain ⟨d1, d2, d3, d4⟩ := c3 he
      rw [hde] at c1
      simp only [if_true, List.length_drop] at c1
      exact ⟨by omega, d2⟩
    · rename_i hde
      have : (s.discard && s.explored) = false := by simpa using hde
      rw [this] at c1
      simp only [Bool.false_eq_true, if_false, List.drop_zero] at c1
      omega
  · intro he sh hsh
    obtain ⟨_, _, c3⟩ := hc sh hsh
    obtain ⟨d1, d2, d3, _⟩ := c3 he
    exact ⟨d1, d2, d3⟩

/-! ## the theorems -/

/-- counting invariants hold in every state reachable with the phase discipline of `run()`, for every oracle
    sequence (nothing is assumed about what the numerics return) -/
theorem counts_exec (env : Env) (nBatch : Nat) (ops : List Op) (hr : RunShaped env (init nBatch) ops) :
    Aligned (exec env (init nBatch) ops) ∧ Counts (exec env (init nBatch) ops) ∧
    ExploredShape (exec env (init nBatch) ops) := by
  obtain ⟨ha, hc⟩ := cinv_exec env ops (init nBatch) (alignedC_init nBatch)
    (by intro sh hsh; simp [init] at hsh) hr
  exact ⟨ha, counts_of_cinv _ ha hc⟩

/-- the per-shell arrays always have equal lengths (a corollary of alignment, stated separately) -/
theorem lengths_exec (env : Env) (nBatch : Nat) (ops : List Op) :
    ∀ sh ∈ (exec env (init nBatch) ops).shells, sh.ls.length = sh.pts.length ∧ sh.bs.length = sh.pts.length := by
  intro sh hsh
  obtain ⟨h1, h2⟩ := (alignedC_exec env ops _ (alignedC_init nBatch)).1 sh hsh
  rw [h1, h2]; exact ⟨rfl, rfl⟩

/-- posterior rows are (point, its log-likelihood, its blob) triples of the visible rows, in storage order -/
theorem posterior_rows (s : St) (h : Aligned s) :
    posteriorRows s = ((s.shells.map (visible s)).flatten).map (fun p => (p, p, p)) := by
  unfold posteriorRows
  rw [List.map_flatten, List.map_map]
  congr 1
  apply List.map_congr_left
  intro sh hsh
  obtain ⟨h1, h2⟩ := h.1 sh hsh
  simp only [visible, visibleLs, visibleBs, h1, h2, Function.comp, zip_self3]

/-- ... and each evaluated point appears at most once -/
theorem posterior_nodup (s : St) (h : Aligned s) (hn : NoDup s) : ((posteriorRows s).map (·.1)).Nodup := by
  rw [posterior_rows s h, List.map_map]
  have : ((fun x : Pt × Pt × Pt => x.1) ∘ fun p : Pt => (p, p, p)) = id := rfl
  rw [this, List.map_id]
  exact (List.Nodup.of_append_left hn).sublist (flatten_drop_sublist (start s) s.shells)

/-- a successful `add_samples` evaluates exactly one batch, counts it, and appends exactly those rows (after any
    transferred rows) to the three arrays of the target shell; all evaluated rows were proposed in this call -/
theorem addSamples_batch (env : Env) (s : St) (ha : Aligned s) (sh : Option Nat) (rounds : List Round)
    (idxT : List Nat) (hok : (addSamples env s sh rounds idxT).2 = .ok) :
    ∃ (evald moved : List Pt) (old : Shell) (new : Shell),
      evald.length = s.nBatch ∧
      (addSamples env s sh rounds idxT).1.nLike = s.nLike + s.nBatch ∧
      (∀ p ∈ evald, ∃ r ∈ rounds, p ∈ r.props) ∧
      s.shells[sh.getD (s.shells.length - 1)]? = some old ∧
      (addSamples env s sh rounds idxT).1.shells[sh.getD (s.shells.length - 1)]? = some new ∧
      new.pts = old.pts ++ moved ++ evald ∧ new.ls = old.ls ++ moved ++ evald ∧ new.bs = old.bs ++ moved ++ evald ∧
      (sh.isSome → moved = []) := by
  rcases addSamples_nf env s sh rounds idxT with ⟨_, h⟩ | ⟨points, nBound, idxT', tShell', hi, hsr, hu, heq⟩
  · exact absurd hok h
  obtain ⟨h1, _, _, h4⟩ := sampleRounds_spec_cc _ _ _ _ _ _ _ _ _ _ _ _ _ hsr rfl (le_refl _)
  dsimp only at h1 h4
  refine ⟨points, mvd (sh.isNone && !s.tShell.isEmpty) idxT' s.tPts, s.shells[sh.getD (s.shells.length - 1)],
    addF s (sh.isNone && !s.tShell.isEmpty) idxT' points nBound (s.shells[sh.getD (s.shells.length - 1)]),
    h1, ?_, ?_, ?_, ?_, ?_, ?_, ?_, ?_⟩
  · rw [heq, h1]
  · intro p hp
    rcases h4 p hp with h | h
    · simp at h
    · exact h
  · exact List.getElem?_eq_getElem hi
  · rw [heq]
    simp only [List.getElem?_modify_eq, List.getElem?_eq_getElem hi, Option.map_eq_map, Option.map_some]
  · rfl
  · simp only [addF, ha.2.1]
  · simp only [addF, ha.2.2.1]
  · intro hs
    cases sh with
    | none => simp at hs
    | some i => simp [mvd]

/-- an operation that is not a successful `add_samples` evaluates nothing -/
theorem nLike_other (env : Env) (s : St) (op : Op)
    (h : ∀ sh rs it, op = .addSamples sh rs it → (step env s op).2 ≠ .ok) : (step env s op).1.nLike = s.nLike := by
  cases op with
  | addBound r =>
    cases r with
    | none => simp only [step, addBound]; split <;> rfl
    | some b => exact (addBoundOk_fields env s b).2.2.1
  | addSamples shA rs it =>
    have h' := h shA rs it rfl
    simp only [step] at h' ⊢
    rcases addSamples_nf env s shA rs it with ⟨h1, _⟩ | ⟨points, nBound, idxT', tShell', hi, hsr, hu, heq⟩
    · rw [h1]
    · exfalso; apply h'; rw [heq]
  | endExploration d => rfl
  | setDiscard b => rfl

/-- C12: after exploration, the operations of the sampling phase keep the phase, freeze the bounds and only
    append to the arrays of each shell -/
theorem sampling_step (env : Env) (s : St) (op : Op) (he : s.explored = true) (hop : SamplingOp op) :
    (step env s op).1.explored = true ∧ bounds (step env s op).1 = bounds s ∧
    (step env s op).1.shells.length = s.shells.length ∧
    ∀ (i : Nat) (a b : Shell), s.shells[i]? = some a → (step env s op).1.shells[i]? = some b →
      a.pts <+: b.pts ∧ a.ls <+: b.ls ∧ a.bs <+: b.bs ∧ b.endExp = a.endExp ∧ b.nSampleExp = a.nSampleExp ∧
      b.bound = a.bound := by
  cases op with
  | addBound r => exact absurd hop (by simp [SamplingOp])
  | endExploration d => exact absurd hop (by simp [SamplingOp])
  | addSamples shA rs it =>
    cases shA with
    | none => exact absurd hop (by simp [SamplingOp])
    | some j =>
      simp only [step]
      rcases addSamples_nf env s (some j) rs it with ⟨h1, _⟩ | ⟨points, nBound, idxT', tShell', hi, hsr, hu, heq⟩
      · rw [h1]
        refine ⟨he, rfl, rfl, ?_⟩
        intro i a b h1 h2
        rw [h1] at h2
        cases h2
        exact ⟨List.prefix_refl _, List.prefix_refl _, List.prefix_refl _, rfl, rfl, rfl⟩
      · rw [heq]
        refine ⟨he, ?_, by simp, ?_⟩
        · simp only [bounds]
          apply map_modify_of_eq
          intro x; rfl
        · intro i a b h1 h2
          dsimp only at h2
          rw [List.getElem?_modify, h1] at h2
          simp only [Option.map_eq_map, Option.map_some, Option.some.injEq] at h2
          split at h2
          · subst h2
            refine ⟨?_, ?_, ?_, rfl, rfl, rfl⟩ <;> simp only [addF, List.append_assoc] <;>
              exact List.prefix_append _ _
          · subst h2
            exact ⟨List.prefix_refl _, List.prefix_refl _, List.prefix_refl _, rfl, rfl, rfl⟩
  | setDiscard d =>
    simp only [step]
    refine ⟨he, ?_, by simp [setDiscard, updateAll], ?_⟩
    · simp [bounds, setDiscard, updateAll, List.map_map, Function.comp_def]
    · intro i a b h1 h2
      simp only [setDiscard, updateAll, List.getElem?_map, h1, Option.map_some, Option.some.injEq] at h2
      subst h2
      exact ⟨List.prefix_refl _, List.prefix_refl _, List.prefix_refl _, rfl, rfl, rfl⟩

/-- no operation ever ends the explored phase -/
theorem explored_mono (env : Env) (s : St) (op : Op) (he : s.explored = true) : (step env s op).1.explored = true := by
  cases op with
  | addBound r =>
    cases r with
    | none => simp only [step, addBound]; split <;> exact he
    | some b => simp only [step, addBound]; rw [(addBoundOk_fields env s b).1]; exact he
  | addSamples shA rs it =>
    simp only [step]
    rcases addSamples_nf env s shA rs it with ⟨h, _⟩ | ⟨points, nBound, idxT', tShell', hi, hsr, hu, heq⟩
    · rw [h]; exact he
    · rw [heq]; exact he
  | endExploration d => rfl
  | setDiscard b => exact he

/-- the setter is a pure change of view: stored arrays and proposal counts are untouched -/
theorem setDiscard_stored (s : St) (b : Bool) :
    (setDiscard s b).shells.map (fun sh => (sh.bound, sh.pts, sh.ls, sh.bs, sh.nSample, sh.nSampleExp, sh.endExp)) =
      s.shells.map (fun sh => (sh.bound, sh.pts, sh.ls, sh.bs, sh.nSample, sh.nSampleExp, sh.endExp)) ∧
    (setDiscard s b).tPts = s.tPts ∧ (setDiscard s b).tShell = s.tShell ∧ (setDiscard s b).nLike = s.nLike ∧
    (setDiscard s b).explored = s.explored := by
  refine ⟨?_, rfl, rfl, rfl, rfl⟩
  simp only [setDiscard, updateAll, List.map_map]
  rfl

/-- switching twice restores everything; switching to the current value changes nothing once counts are fresh -/
theorem setDiscard_toggle (s : St) (b b' : Bool) :
    setDiscard (setDiscard s b') b = setDiscard s b ∧ (Counts s → Aligned s → setDiscard s s.discard = s) := by
  constructor
  · simp only [setDiscard, updateAll, List.map_map]
    congr 1
  · intro hc ha
    have hs : s.shells.map (fun sh => { sh with nShown := shown { s with discard := s.discard } sh }) = s.shells := by
      conv_rhs => rw [← List.map_id s.shells]
      apply List.map_congr_left
      intro sh hsh
      obtain ⟨h1, _⟩ := hc sh hsh
      have h2 := (ha.1 sh hsh).1
      cases sh with
      | mk bd pts ls bs nS nSE eE nSh =>
        simp only [visible, start] at h1
        simp only at h2
        subst h2
        simp only [shown, start, id, Shell.mk.injEq, true_and]
        exact h1.symm
    simp only [setDiscard, updateAll, hs]

/-- with discard on, the visible rows of a shell are exactly those appended after exploration ended -/
theorem discard_view (s : St) (he : s.explored = true) (sh : Shell) (h : sh ∈ (setDiscard s true).shells) :
    visible (setDiscard s true) sh = sh.pts.drop sh.endExp ∧ sh.nShown = (sh.ls.drop sh.endExp).length := by
  simp only [setDiscard, updateAll, List.mem_map] at h
  obtain ⟨sh0, h0, rfl⟩ := h
  simp [visible, start, shown, he, setDiscard, updateAll]

/-- at the end of exploration empty shells are removed and the split point is the current length -/
theorem endExploration_shape (s : St) (d : Bool) :
    (endExploration s d).explored = true ∧
    ∀ sh ∈ (endExploration s d).shells, sh.endExp = sh.pts.length ∧ sh.nSampleExp = sh.nSample ∧
      ∃ sh0 ∈ s.shells, sh0.nShown ≠ 0 ∧ sh.pts = sh0.pts ∧ sh.bound = sh0.bound := by
  refine ⟨rfl, ?_⟩
  intro sh hsh
  simp only [endExploration, setDiscard, updateAll, List.mem_map, List.mem_filter] at hsh
  obtain ⟨sh1, ⟨sh0, ⟨h0, hn⟩, rfl⟩, rfl⟩ := hsh
  exact ⟨rfl, rfl, sh0, h0, by simpa using hn, rfl, rfl⟩

end NautilusVerif.Core

#print axioms NautilusVerif.Core.counts_exec
#print axioms NautilusVerif.Core.lengths_exec
#print axioms NautilusVerif.Core.posterior_rows
#print axioms NautilusVerif.Core.posterior_nodup
#print axioms NautilusVerif.Core.addSamples_batch
#print axioms NautilusVerif.Core.nLike_other
#print axioms NautilusVerif.Core.sampling_step
#print axioms NautilusVerif.Core.explored_mono
#print axioms NautilusVerif.Core.setDiscard_stored
#print axioms NautilusVerif.Core.setDiscard_toggle
#print axioms NautilusVerif.Core.discard_view
#print axioms NautilusVerif.Core.endExploration_shape
