/- Helper lemmas for C16 over exact rationals. -/
import NautilusVerif.Model.Shift
import Mathlib.Data.Rat.Floor
import Mathlib.Algebra.Order.Floor.Ring
import Mathlib.Tactic.Linarith
import Mathlib.Tactic.Ring
namespace NautilusVerif.Shift.Q
open Int

theorem fract_eq (x : ℚ) : fract x = Int.fract x := rfl

theorem fract_nonneg' (x : ℚ) : 0 ≤ fract x := by rw [fract_eq]; exact Int.fract_nonneg x
theorem fract_lt_one' (x : ℚ) : fract x < 1 := by rw [fract_eq]; exact Int.fract_lt_one x

theorem inv_fwd (c x : ℚ) (h0 : 0 ≤ x) (h1 : x < 1) : inv c (fwd c x) = x := by
  unfold inv fwd
  simp only [fract_eq]
  have h : Int.fract (x + (-c + 1/2)) - (-c + 1/2) = x - ⌊x + (-c + 1/2)⌋ := by
    rw [← Int.self_sub_floor]; ring
  rw [h, Int.fract_sub_intCast, Int.fract_eq_iff]
  exact ⟨h0, h1, 0, by simp⟩

theorem fwd_inv (c y : ℚ) (h0 : 0 ≤ y) (h1 : y < 1) : fwd c (inv c y) = y := by
  unfold inv fwd
  simp only [fract_eq]
  have h : Int.fract (y - (-c + 1/2)) + (-c + 1/2) = y - ⌊y - (-c + 1/2)⌋ := by
    rw [← Int.self_sub_floor]; ring
  rw [h, Int.fract_sub_intCast, Int.fract_eq_iff]
  exact ⟨h0, h1, 0, by simp⟩

end NautilusVerif.Shift.Q
