/- C16: the centre chosen by `PhaseShift.compute` puts the largest cyclic gap across the boundary. -/
import NautilusVerif.Lemmas.ShiftQ
import Mathlib.Data.List.Sort
namespace NautilusVerif.Shift
open Int

/-! ### argmax -/

theorem argmaxGo_spec (as : List ℚ) : ∀ (pre : List ℚ) (i bi : ℕ) (bv : ℚ),
    pre.length = i → (pre ++ as)[bi]? = some bv → (∀ a ∈ pre, a ≤ bv) →
    (∀ a ∈ pre ++ as, a ≤ (argmaxGo (fun a b => decide (a < b)) as i bi bv).2) ∧
      (pre ++ as)[(argmaxGo (fun a b => decide (a < b)) as i bi bv).1]? =
        some (argmaxGo (fun a b => decide (a < b)) as i bi bv).2 := by
  induction as with
  | nil =>
    intro pre i bi bv _ hbi hpre
    simp only [argmaxGo]
    refine ⟨?_, hbi⟩
    intro a ha
    rw [List.append_nil] at ha
    exact hpre a ha
  | cons a as ih =>
    intro pre i bi bv hlen hbi hpre
    have happ : pre ++ a :: as = (pre ++ [a]) ++ as := by simp
    have hlen' : (pre ++ [a]).length = i + 1 := by simp [hlen]
    simp only [argmaxGo]
    by_cases hlt : bv < a
    · simp only [hlt, decide_true, if_true]
      rw [happ]
      apply ih (pre ++ [a]) (i+1) i a hlen'
      · rw [← happ, List.getElem?_append_right (by omega)]
        simp [hlen]
      · intro b hb
        rcases List.mem_append.1 hb with hb | hb
        · exact le_trans (hpre b hb) (le_of_lt hlt)
        · simp at hb; rw [hb]
    · have hle : a ≤ bv := not_lt.1 hlt
      simp only [hlt, decide_false]
      rw [happ]
      apply ih (pre ++ [a]) (i+1) bi bv hlen'
      · rw [← happ]; exact hbi
      · intro b hb
        rcases List.mem_append.1 hb with hb | hb
        · exact hpre b hb
        · simp at hb; rw [hb]; exact hle

/-- `argmax` returns an element at least as large as every element (first-max semantics not needed here) -/
theorem argmax_is_max (l : List ℚ) (k : ℕ) (g : ℚ)
    (h : argmax (fun a b => decide (a < b)) l = some (k, g)) :
    (∀ a ∈ l, a ≤ g) ∧ l[k]? = some g := by
  cases l with
  | nil => simp [argmax] at h
  | cons a as =>
    simp only [argmax, Option.some.injEq] at h
    have := argmaxGo_spec as [a] 1 0 a rfl (by simp) (by simp)
    rw [h] at this
    simpa using this

/-! ### arithmetic core -/

theorem Q.fwd_centre_eq (xk g x : ℚ) :
    Q.fwd (Q.fract (xk + g / 2 + 1/2)) x = Int.fract (x - xk - g / 2) := by
  unfold Q.fwd
  simp only [Q.fract_eq]
  have h : x + (-Int.fract (xk + g / 2 + 1/2) + 1/2)
      = (x - xk - g / 2) + ((⌊xk + g / 2 + 1/2⌋ : ℤ) : ℚ) := by
    rw [← Int.self_sub_floor]; ring
  rw [h, Int.fract_add_intCast]

/-- the core arithmetic fact: a point outside the open arc `(xk, xk+g)` lands in `[g/2, 1-g/2]` -/
theorem Q.arc_core (xk g x : ℚ) (hxk0 : 0 ≤ xk) (hxk1 : xk < 1) (hx0 : 0 ≤ x) (hx1 : x < 1) (hg : 0 ≤ g)
    (harc : (x ≤ xk ∧ xk + g ≤ x + 1) ∨ xk + g ≤ x) :
    g / 2 ≤ Q.fwd (Q.fract (xk + g / 2 + 1/2)) x ∧ Q.fwd (Q.fract (xk + g / 2 + 1/2)) x ≤ 1 - g / 2 := by
  rw [Q.fwd_centre_eq]
  rcases harc with ⟨h1, h2⟩ | h
  · by_cases ht : x - xk - g / 2 < 0
    · have hf : Int.fract (x - xk - g / 2) = x - xk - g / 2 + 1 := by
        rw [Int.fract_eq_iff]
        refine ⟨by linarith, by linarith, -1, by simp⟩
      rw [hf]
      constructor <;> linarith
    · have hg0 : g = 0 := by linarith
      subst hg0
      have := Int.fract_nonneg (x - xk - 0 / 2)
      have := Int.fract_lt_one (x - xk - 0 / 2)
      constructor <;> linarith
  · have hf : Int.fract (x - xk - g / 2) = x - xk - g / 2 := by
      rw [Int.fract_eq_iff]
      refine ⟨by linarith, by linarith, 0, by simp⟩
    rw [hf]
    constructor <;> linarith

/-! ### gaps of a sorted list -/

theorem diffBy_length (xs : List ℚ) : (diffBy (fun b a => b - a) xs).length = xs.length - 1 := by
  induction xs with
  | nil => simp [diffBy]
  | cons a t ih =>
    cases t with
    | nil => simp [diffBy]
    | cons b t' =>
      simp only [diffBy, List.length_cons] at ih ⊢
      omega

theorem diffBy_getElem?_split (l1 : List ℚ) (a b : ℚ) (l2 : List ℚ) :
    (diffBy (fun b a => b - a) (l1 ++ a :: b :: l2))[l1.length]? = some (b - a) := by
  induction l1 with
  | nil => simp [diffBy]
  | cons c l1 ih =>
    cases l1 with
    | nil => simp [diffBy]
    | cons d l1' =>
      simp only [List.cons_append, diffBy, List.length_cons, List.getElem?_cons_succ] at ih ⊢
      exact ih

theorem getElem?_split (xs : List ℚ) : ∀ (k : ℕ) (xk : ℚ), xs[k]? = some xk →
    ∃ l1 l2, xs = l1 ++ xk :: l2 ∧ l1.length = k := by
  induction xs with
  | nil => intro k xk h; simp at h
  | cons a t ih =>
    intro k xk h
    cases k with
    | zero =>
      simp at h
      exact ⟨[], t, by simp [h], rfl⟩
    | succ k =>
      simp only [List.getElem?_cons_succ] at h
      obtain ⟨l1, l2, h1, h2⟩ := ih k xk h
      exact ⟨a :: l1, l2, by simp [h1], by simp [h2]⟩

theorem Q.gaps_spec (xs : List ℚ) (x0 xl : ℚ) (h0 : xs.head? = some x0) (hl : xs.getLast? = some xl) :
    Q.gaps xs = diffBy (fun b a => b - a) xs ++ [x0 - (xl - 1)] := by
  cases xs with
  | nil => simp at h0
  | cons a t =>
    simp only [List.head?_cons, Option.some.injEq] at h0
    subst h0
    unfold Q.gaps
    rw [hl]

theorem head?_le (xs : List ℚ) (x0 : ℚ) (h0 : xs.head? = some x0) (hs : xs.Pairwise (· ≤ ·)) :
    ∀ x ∈ xs, x0 ≤ x := by
  cases xs with
  | nil => simp at h0
  | cons a t =>
    simp only [List.head?_cons, Option.some.injEq] at h0
    subst h0
    rw [List.pairwise_cons] at hs
    intro x hx
    rcases List.mem_cons.1 hx with hx | hx
    · rw [hx]
    · exact hs.1 x hx

/-- Statement used by `C16_gap`. -/
theorem Q.centre_gap (xs : List ℚ) (hs : xs.Pairwise (· ≤ ·)) (hr : ∀ x ∈ xs, 0 ≤ x ∧ x < 1)
    (c : ℚ) (hc : Q.centreSorted xs = some c) :
    ∃ g, (∀ g' ∈ Q.gaps xs, g' ≤ g) ∧ g ∈ Q.gaps xs ∧
      ∀ x ∈ xs, g / 2 ≤ Q.fwd c x ∧ Q.fwd c x ≤ 1 - g / 2 := by
  unfold Q.centreSorted at hc
  cases ham : argmax (fun a b => decide (a < b)) (Q.gaps xs) with
  | none => rw [ham] at hc; simp at hc
  | some kg =>
    obtain ⟨k, g⟩ := kg
    rw [ham] at hc
    simp only at hc
    cases hxk : xs[k]? with
    | none => rw [hxk] at hc; simp at hc
    | some xk =>
      rw [hxk] at hc
      simp only [Option.some.injEq] at hc
      subst hc
      obtain ⟨hmax, hkg⟩ := argmax_is_max _ _ _ ham
      refine ⟨g, hmax, List.mem_of_getElem? hkg, ?_⟩
      obtain ⟨l1, l2, hxs, hl1⟩ := getElem?_split xs k xk hxk
      have hxkmem : xk ∈ xs := List.mem_of_getElem? hxk
      have hne : xs ≠ [] := List.ne_nil_of_mem hxkmem
      obtain ⟨x0, hx0⟩ : ∃ x0, xs.head? = some x0 := by
        cases xs with
        | nil => exact absurd rfl hne
        | cons a t => exact ⟨a, rfl⟩
      obtain ⟨xl, hxl⟩ : ∃ xl, xs.getLast? = some xl := by
        cases h : xs.getLast? with
        | none => rw [List.getLast?_eq_none_iff] at h; exact absurd h hne
        | some xl => exact ⟨xl, rfl⟩
      have hgaps := Q.gaps_spec xs x0 xl hx0 hxl
      have hx0le := head?_le xs x0 hx0 hs
      have hx0mem : x0 ∈ xs := List.mem_of_mem_head? (by rw [hx0]; rfl)
      rw [hgaps] at hkg
      subst hxs
      subst hl1
      obtain ⟨hs1, hs2, hs12⟩ := List.pairwise_append.1 hs
      cases l2 with
      | nil =>
        -- wrap gap
        have hxl' : xl = xk := by simpa using hxl.symm
        subst hxl'
        have hlen : (diffBy (fun b a => b - a) (l1 ++ [xl])).length = l1.length := by
          rw [diffBy_length]; simp
        rw [List.getElem?_append_right (by omega), hlen] at hkg
        simp at hkg
        subst hkg
        intro x hx
        have hxr := hr x hx
        have hx0r := hr x0 hx0mem
        have hxlr := hr xl hxkmem
        apply Q.arc_core xl _ x hxlr.1 hxlr.2 hxr.1 hxr.2 (by linarith)
        left
        refine ⟨?_, by linarith [hx0le x hx]⟩
        rcases List.mem_append.1 hx with hx | hx
        · exact hs12 x hx xl (by simp)
        · simp at hx; rw [hx]
      | cons b l2' =>
        have hlen : l1.length < (diffBy (fun b a => b - a) (l1 ++ xk :: b :: l2')).length := by
          rw [diffBy_length]; simp
        rw [List.getElem?_append_left hlen, diffBy_getElem?_split] at hkg
        simp only [Option.some.injEq] at hkg
        subst hkg
        have hbmem : b ∈ l1 ++ xk :: b :: l2' := by simp
        have hbr := hr b hbmem
        have hxkr := hr xk hxkmem
        rw [List.pairwise_cons] at hs2
        have hxkb : xk ≤ b := hs2.1 b (by simp)
        have hs2' := hs2.2
        rw [List.pairwise_cons] at hs2'
        intro x hx
        have hxr := hr x hx
        apply Q.arc_core xk _ x hxkr.1 hxkr.2 hxr.1 hxr.2 (by linarith)
        rcases List.mem_append.1 hx with hx | hx
        · left
          exact ⟨hs12 x hx xk (by simp), by linarith⟩
        · rcases List.mem_cons.1 hx with hx | hx
          · left; rw [hx]; exact ⟨le_refl _, by linarith⟩
          · right
            rcases List.mem_cons.1 hx with hx | hx
            · rw [hx]; linarith
            · have := hs2'.1 x hx; linarith

/-! ### sorting -/

theorem insertBy_perm (a : ℚ) (l : List ℚ) :
    (insertBy (fun a b => decide (a ≤ b)) a l).Perm (a :: l) := by
  induction l with
  | nil => exact List.Perm.refl _
  | cons b bs ih =>
    simp only [insertBy]
    split
    · exact List.Perm.refl _
    · exact (List.Perm.cons b ih).trans (List.Perm.swap a b bs)

theorem insertBy_pairwise (a : ℚ) (l : List ℚ) (hl : l.Pairwise (· ≤ ·)) :
    (insertBy (fun a b => decide (a ≤ b)) a l).Pairwise (· ≤ ·) := by
  induction l with
  | nil => simp [insertBy]
  | cons b bs ih =>
    rw [List.pairwise_cons] at hl
    simp only [insertBy]
    by_cases hab : a ≤ b
    · simp only [hab, decide_true, if_true]
      refine List.Pairwise.cons ?_ (List.Pairwise.cons hl.1 hl.2)
      intro x hx
      rcases List.mem_cons.1 hx with hx | hx
      · rw [hx]; exact hab
      · exact le_trans hab (hl.1 x hx)
    · simp only [hab, decide_false]
      refine List.Pairwise.cons ?_ (ih hl.2)
      intro x hx
      have hx' := (insertBy_perm a bs).mem_iff.1 hx
      rcases List.mem_cons.1 hx' with hx' | hx'
      · rw [hx']; exact le_of_lt (not_le.1 hab)
      · exact hl.1 x hx'

theorem sortBy_pairwise (l : List ℚ) : (sortBy (fun a b => decide (a ≤ b)) l).Pairwise (· ≤ ·) := by
  induction l with
  | nil => simp [sortBy]
  | cons a as ih => exact insertBy_pairwise a _ ih

theorem sortBy_perm (l : List ℚ) : (sortBy (fun a b => decide (a ≤ b)) l).Perm l := by
  induction l with
  | nil => exact List.Perm.refl _
  | cons a as ih => exact (insertBy_perm a _).trans (List.Perm.cons a ih)

end NautilusVerif.Shift

#print axioms NautilusVerif.Shift.argmax_is_max
#print axioms NautilusVerif.Shift.Q.arc_core
#print axioms NautilusVerif.Shift.Q.centre_gap
#print axioms NautilusVerif.Shift.sortBy_pairwise
#print axioms NautilusVerif.Shift.sortBy_perm
