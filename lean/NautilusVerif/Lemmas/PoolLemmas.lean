/- Lemma for C11 (statement fixed by Properties/C11.lean). -/
import NautilusVerif.Model.Pool
import Mathlib.Data.List.Basic
import Mathlib.Data.List.Perm.Basic
namespace NautilusVerif.Pool

/-- looking up index `i` among the arrivals of an arbitrary schedule (no permutation hypothesis) -/
theorem find_arrivals {α β : Type} (f : α → β) (xs : List α) (schedule : List Nat) (i : Nat) :
    ((arrivals f xs schedule).find? (fun r => r.1 == i)).map (·.2)
      = if i ∈ schedule then (xs[i]?).map f else none := by
  induction schedule with
  | nil => simp [arrivals]
  | cons a t ih =>
    unfold arrivals at ih ⊢
    rw [List.filterMap_cons]
    cases hx : xs[a]? with
    | none =>
      simp only [Option.map_none]
      rw [ih]
      by_cases hai : i = a
      · subst hai; simp [hx]
      · simp [hai]
    | some x =>
      simp only [Option.map_some]
      by_cases hai : i = a
      · subst hai; simp [hx]
      · have hne : ¬ ((fun r : Nat × β => r.1 == i) (a, f x)) = true := by
          simpa using (fun h : a = i => hai h.symm)
        rw [List.find?_cons_of_neg (p := fun r : Nat × β => r.1 == i) hne, ih]
        simp [hai]

/-- whatever order the workers finish in (any permutation of the task indices), gathering by index is `map` -/
theorem gather_eq_map {α β : Type} (f : α → β) (xs : List α) (schedule : List Nat)
    (h : schedule.Perm (List.range xs.length)) :
    gather xs.length (arrivals f xs schedule) = xs.map (fun x => some (f x)) := by
  unfold gather
  apply List.ext_getElem
  · simp
  · intro i h1 h2
    have hi : i < xs.length := by simpa using h1
    have hmem : i ∈ schedule := (h.mem_iff).2 (List.mem_range.2 hi)
    simp only [List.getElem_map, List.getElem_range]
    rw [find_arrivals, if_pos hmem, List.getElem?_eq_getElem hi]
    rfl

/-- auxiliary: index-wise evaluation over a prefix of the indices is `map` on the prefix -/
theorem filterMap_range_eq_take_map {α β : Type} (f : α → β) (xs : List α) (n : Nat) :
    (List.range n).filterMap (fun i => (xs[i]?).map f) = (xs.take n).map f := by
  induction n with
  | zero => simp
  | succ n ih =>
    rw [List.range_succ, List.filterMap_append, ih]
    by_cases hn : n < xs.length
    · rw [List.take_add_one, List.map_append]
      simp [List.getElem?_eq_getElem hn]
    · have hle : xs.length ≤ n := Nat.le_of_not_lt hn
      rw [List.take_of_length_le hle, List.take_of_length_le (Nat.le_succ_of_le hle)]
      simp [List.getElem?_eq_none hle]

theorem map_eq_index_map {α β : Type} (f : α → β) (xs : List α) :
    (xs.map f) = (List.range xs.length).filterMap (fun i => (xs[i]?).map f) := by
  rw [filterMap_range_eq_take_map, List.take_length]

end NautilusVerif.Pool

#print axioms NautilusVerif.Pool.gather_eq_map
#print axioms NautilusVerif.Pool.map_eq_index_map
