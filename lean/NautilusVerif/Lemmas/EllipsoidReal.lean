/- Leaf laws of C07 over the reals (statements fixed by Properties/C07.lean). -/
import Mathlib.Analysis.InnerProductSpace.PiL2
import Mathlib.Analysis.SpecialFunctions.Pow.Real
import Mathlib.Tactic.Linarith
import Mathlib.Tactic.Positivity
import Mathlib.Tactic.FieldSimp
namespace NautilusVerif.EllipsoidReal

/-- `Ellipsoid.sample`: a standard-normal direction `z ≠ 0`, normalised, times `u ^ (1/d)` with `u ∈ [0,1)`,
    lies strictly inside the unit ball of the ellipsoid's frame -/
theorem sample_in_unit_ball {d : ℕ} (hd : 0 < d) (z : EuclideanSpace ℝ (Fin d)) (hz : z ≠ 0) (u : ℝ)
    (hu0 : 0 ≤ u) (hu1 : u < 1) : ‖(u ^ ((1 : ℝ) / d)) • (‖z‖⁻¹ • z)‖ ^ 2 < 1 := by
  have hd' : (0 : ℝ) < (1 : ℝ) / d := by
    have : (0 : ℝ) < d := by exact_mod_cast hd
    positivity
  have h0 : 0 ≤ u ^ ((1 : ℝ) / d) := Real.rpow_nonneg hu0 _
  have h1 : u ^ ((1 : ℝ) / d) < 1 := Real.rpow_lt_one hu0 hu1 hd'
  have hn : ‖(u ^ ((1 : ℝ) / d)) • (‖z‖⁻¹ • z)‖ = u ^ ((1 : ℝ) / d) := by
    rw [norm_smul, norm_smul, norm_inv, norm_norm, inv_mul_cancel₀ (norm_ne_zero_iff.mpr hz), mul_one,
      Real.norm_of_nonneg h0]
  rw [hn]
  nlinarith

/-- `contains` undoes `transform(·, inverse=True)`: with `Binv * B = 1`, `Binv ((B y + c) - c) = y` -/
theorem frame_roundtrip {d : ℕ} (B Binv : Matrix (Fin d) (Fin d) ℝ) (h : Binv * B = 1) (c y : Fin d → ℝ) :
    Binv.mulVec ((B.mulVec y + c) - c) = y := by
  rw [add_sub_cancel_right, Matrix.mulVec_mulVec, h, Matrix.one_mulVec]

/-- MVEE rescaling and enlargement: if the quadratic form of a construction point is at most `scale`
    (`scale` = its maximum over the points, so that the farthest point is on the surface after `A /= scale`) and the
    matrix is then divided by `enl ^ 2` with `enl > 1`, the point is strictly inside -/
theorem enclosed_after_enlarge (q scale enl : ℝ) (hq0 : 0 ≤ q) (hs : 0 < scale) (hq : q ≤ scale) (he : 1 < enl) :
    q / scale / enl ^ 2 < 1 := by
  have h1 : q / scale ≤ 1 := (div_le_one hs).mpr hq
  have h2 : 1 < enl ^ 2 := by nlinarith
  rw [div_lt_one (by positivity)]
  linarith

/-- the quadratic form is homogeneous in the matrix: dividing `A` by `k` divides the form by `k` -/
theorem quadform_div {d : ℕ} (A : Matrix (Fin d) (Fin d) ℝ) (v : Fin d → ℝ) (k : ℝ) :
    v ⬝ᵥ (Matrix.mulVec (Matrix.of (fun i j => A i j / k)) v) = (v ⬝ᵥ A.mulVec v) / k := by
  simp only [Matrix.mulVec, dotProduct, Matrix.of_apply, Finset.sum_div, Finset.mul_sum]
  refine Finset.sum_congr rfl (fun i _ => Finset.sum_congr rfl (fun j _ => ?_))
  ring

end NautilusVerif.EllipsoidReal

#print axioms NautilusVerif.EllipsoidReal.sample_in_unit_ball
#print axioms NautilusVerif.EllipsoidReal.frame_roundtrip
#print axioms NautilusVerif.EllipsoidReal.enclosed_after_enlarge
#print axioms NautilusVerif.EllipsoidReal.quadform_div
