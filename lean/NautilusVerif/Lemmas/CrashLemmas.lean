/- Lemmas for C06 (statements fixed by Properties/C06.lean). -/
import NautilusVerif.Model.CrashFS
import Mathlib.Data.List.Basic
import Mathlib.Tactic.Linarith
namespace NautilusVerif.CrashFS

/-! ### `lookup` on the link table -/

theorem lookup_nil (k : Nat) : lookup [] k = none := rfl

theorem lookup_cons (a b : Nat) (l : List (Nat × Nat)) (k : Nat) :
    lookup ((a, b) :: l) k = if a = k then some b else lookup l k := by
  unfold lookup
  by_cases h : a = k
  · simp [h]
  · simp [h]

theorem lookup_filter (f : Nat → Bool) (l : List (Nat × Nat)) (k : Nat) :
    lookup (l.filter (fun kv => f kv.1)) k = if f k = true then lookup l k else none := by
  induction l with
  | nil => simp [lookup]
  | cons x l ih =>
    obtain ⟨a, b⟩ := x
    by_cases hfa : f a = true
    · rw [List.filter_cons_of_pos (by simpa using hfa), lookup_cons, lookup_cons, ih]
      by_cases hak : a = k
      · subst hak; simp [hfa]
      · simp [hak]
    · rw [List.filter_cons_of_neg (by simpa using hfa), lookup_cons, ih]
      by_cases hak : a = k
      · subst hak; simp [hfa]
      · simp [hak]

/-! ### content of an inode under `List.modify` / append -/

theorem contentOf_modInode_ne (s : FSt) (i j : Nat) (f : Inode → Inode) (h : i ≠ j) :
    contentOf (modInode s i f) j = contentOf s j := by
  simp [contentOf, modInode, h]

theorem contentOf_congr (s s' : FSt) (h : s'.inodes = s.inodes) (j : Nat) : contentOf s' j = contentOf s j := by
  simp [contentOf, h]

/-! ### the invariant -/

/-- the link table is injective (no hard links): two paths linked to the same inode are equal -/
def LinkInj (s : FSt) : Prop := ∀ p q i, lookup s.link p = some i → lookup s.link q = some i → p = q

/-- every linked inode exists -/
def LinkBound (s : FSt) : Prop := ∀ p i, lookup s.link p = some i → i < s.inodes.length

structure Inv (s : FSt) : Prop where
  safe : Safe s
  inj : LinkInj s
  bound : LinkBound s

theorem inv_init : Inv ({} : FSt) := by
  refine ⟨?_, ?_, ?_⟩
  · simp [Safe]
  · intro p q i h; simp [lookup] at h
  · intro p i h; simp [lookup] at h

/-- `Safe` is preserved when `installed`, the checkpoint's link and the content of the checkpoint's inode are -/
theorem safe_of_same (s s' : FSt) (hi : s'.installed = s.installed) (hl : inoOf s' ck = inoOf s ck)
    (hc : ∀ j, inoOf s ck = some j → contentOf s' j = contentOf s j) (h : Safe s) : Safe s' := by
  unfold Safe at h ⊢
  rw [hi]
  cases hinst : s.installed with
  | none => trivial
  | some c =>
    rw [hinst] at h
    obtain ⟨i, h1, h2⟩ := h
    exact ⟨i, by rw [hl, h1], by rw [hc i h1, h2]⟩

theorem safe_installed (s : FSt) (i : Nat) (c : List Nat) (hi : s.installed = some c) (hl : inoOf s ck = some i)
    (hc : contentOf s i = c) : Safe s := by
  unfold Safe; rw [hi]; exact ⟨i, hl, hc⟩

/-- the clock-bumped state -/
def tick (s : FSt) : FSt := { s with clock := s.clock + 1 }

theorem inv_tick (s : FSt) (h : Inv s) : Inv (tick s) := by
  refine ⟨safe_of_same s _ rfl rfl (fun j _ => rfl) h.safe, h.inj, h.bound⟩

/-- same link table, same `installed`, same number of inodes, same content of the checkpoint's inode -/
theorem inv_of_same (s s' : FSt) (hinv : Inv s) (hl : s'.link = s.link) (hi : s'.installed = s.installed)
    (hlen : s'.inodes.length = s.inodes.length)
    (hc : ∀ j, inoOf s ck = some j → contentOf s' j = contentOf s j) : Inv s' := by
  refine ⟨safe_of_same s s' hi (by simp [inoOf, hl]) hc hinv.safe, ?_, ?_⟩
  · intro p q i; rw [hl]; exact hinv.inj p q i
  · intro p i; rw [hl, hlen]; exact hinv.bound p i

/-- an inode other than the checkpoint's is modified, or the modification keeps the content -/
theorem inv_modify (s s' : FSt) (i : Nat) (f : Inode → Inode) (hinv : Inv s)
    (hin : s'.inodes = s.inodes.modify i f) (hl : s'.link = s.link) (hi : s'.installed = s.installed)
    (hne : ∀ j, inoOf s ck = some j → i ≠ j ∨ ∀ n, (f n).content = n.content) : Inv s' := by
  refine inv_of_same s s' hinv hl hi (by simp [hin]) ?_
  intro j hj
  rcases hne j hj with h | h
  · simp [contentOf, hin, h]
  · simp only [contentOf, hin, List.getElem?_modify]
    by_cases hij : i = j
    · cases s.inodes[j]? <;> simp [hij, h]
    · simp [hij]

/-- a fresh inode is created under a path that is not the checkpoint -/
theorem inv_create (s s' : FSt) (p : Nat) (n : Inode) (hinv : Inv s)
    (hin : s'.inodes = s.inodes ++ [n]) (hl : s'.link = (p, s.inodes.length) :: s.link)
    (hi : s'.installed = s.installed) (hp : p ≠ ck) : Inv s' := by
  refine ⟨safe_of_same s s' hi ?_ ?_ hinv.safe, ?_, ?_⟩
  · simp [inoOf, hl, lookup_cons, hp]
  · intro j hj
    have hb := hinv.bound ck j hj
    simp [contentOf, hin, List.getElem?_append_left hb]
  · intro a b i
    rw [hl, lookup_cons, lookup_cons]
    by_cases ha : p = a <;> by_cases hb : p = b
    · intro _ _; rw [← ha, ← hb]
    · rw [if_pos ha, if_neg hb]
      intro h1 h2
      have := hinv.bound b i h2
      simp at h1; omega
    · rw [if_neg ha, if_pos hb]
      intro h1 h2
      have := hinv.bound a i h1
      simp at h2; omega
    · rw [if_neg ha, if_neg hb]
      exact hinv.inj a b i
  · intro a i
    rw [hl, lookup_cons, hin]
    by_cases ha : p = a
    · rw [if_pos ha]; intro h; simp at h; simp; omega
    · rw [if_neg ha]; intro h; have := hinv.bound a i h; simp; omega

/-- a path other than the checkpoint is unlinked -/
theorem inv_unlink (s s' : FSt) (p : Nat) (hinv : Inv s)
    (hin : s'.inodes = s.inodes) (hl : s'.link = s.link.filter (fun kv => kv.1 != p))
    (hi : s'.installed = s.installed) (hp : p ≠ ck) : Inv s' := by
  have hlk : ∀ q, lookup s'.link q = if q ≠ p then lookup s.link q else none := by
    intro q
    rw [hl, lookup_filter (fun k => k != p)]
    by_cases hq : q = p <;> simp [hq]
  refine ⟨safe_of_same s s' hi ?_ ?_ hinv.safe, ?_, ?_⟩
  · simp [inoOf, hlk, Ne.symm hp]
  · intro j _; exact contentOf_congr s s' hin j
  · intro a b i
    rw [hlk, hlk]
    by_cases ha : a = p <;> by_cases hb : b = p <;> simp [ha, hb]
    exact hinv.inj a b i
  · intro a i
    rw [hlk, hin]
    by_cases ha : a = p <;> simp [ha]
    exact hinv.bound a i

/-- `src` (not the checkpoint, linked to `i`) is renamed to `dst` -/
theorem inv_rename (s s' : FSt) (src dst i : Nat) (hinv : Inv s)
    (hin : s'.inodes = s.inodes)
    (hl : s'.link = (dst, i) :: s.link.filter (fun kv => kv.1 != src && kv.1 != dst))
    (hi : s'.installed = if dst == ck then some (contentOf s i) else s.installed)
    (hsrc : src ≠ ck) (hlk : lookup s.link src = some i) : Inv s' := by
  have hlk' : ∀ q, lookup s'.link q =
      if dst = q then some i else if q ≠ src then lookup s.link q else none := by
    intro q
    rw [hl, lookup_cons, lookup_filter (fun k => k != src && k != dst)]
    by_cases hq : dst = q
    · simp [hq]
    · by_cases hq2 : q = src <;> simp [hq, hq2, Ne.symm hq]
  refine ⟨?_, ?_, ?_⟩
  · by_cases hd : dst = ck
    · refine safe_installed s' i (contentOf s i) (by simp [hi, hd]) (by simp [inoOf, hlk', hd])
        (contentOf_congr s s' hin i)
    · refine safe_of_same s s' (by simp [hi, hd]) ?_ (fun j _ => contentOf_congr s s' hin j) hinv.safe
      simp [inoOf, hlk', hd, Ne.symm hsrc]
  · intro a b j
    rw [hlk', hlk']
    by_cases ha : dst = a <;> by_cases hb : dst = b
    · intro _ _; rw [← ha, ← hb]
    · rw [if_pos ha, if_neg hb]
      by_cases hb2 : b = src
      · rw [if_neg (by simpa using hb2)]; intro _ h; exact absurd h (by simp)
      · rw [if_pos hb2]
        intro h1 h2
        simp at h1; subst h1
        exact absurd (hinv.inj b src i h2 hlk) hb2
    · rw [if_neg ha, if_pos hb]
      by_cases ha2 : a = src
      · rw [if_neg (by simpa using ha2)]; intro h; exact absurd h (by simp)
      · rw [if_pos ha2]
        intro h1 h2
        simp at h2; subst h2
        exact absurd (hinv.inj a src i h1 hlk) ha2
    · rw [if_neg ha, if_neg hb]
      by_cases ha2 : a = src
      · rw [if_neg (by simpa using ha2)]; intro h; exact absurd h (by simp)
      · by_cases hb2 : b = src
        · rw [if_pos ha2, if_neg (by simpa using hb2)]; intro _ h; exact absurd h (by simp)
        · rw [if_pos ha2, if_pos hb2]
          exact hinv.inj a b j
  · intro a j
    rw [hlk', hin]
    by_cases ha : dst = a
    · rw [if_pos ha]; intro h; simp at h; subst h; exact hinv.bound src i hlk
    · by_cases ha2 : a = src
      · rw [if_neg ha, if_neg (by simpa using ha2)]; intro h; exact absurd h (by simp)
      · rw [if_neg ha, if_pos ha2]; exact hinv.bound a j

/-- a checkpoint is declared complete -/
theorem inv_mark (s s' : FSt) (i : Nat) (hinv : Inv s)
    (hin : s'.inodes = s.inodes) (hl : s'.link = s.link) (hi : s'.installed = some (contentOf s i))
    (hlk : inoOf s ck = some i) : Inv s' := by
  refine ⟨safe_installed s' i _ hi (by simpa [inoOf, hl] using hlk) (contentOf_congr s s' hin i), ?_, ?_⟩
  · intro p q j; rw [hl]; exact hinv.inj p q j
  · intro p j; rw [hl, hin]; exact hinv.bound p j

theorem inoOf_tick (s : FSt) (p : Nat) :
    inoOf { inodes := s.inodes, link := s.link, fds := s.fds, installed := s.installed, clock := s.clock + 1 } p
      = inoOf s p := rfl

theorem fdInfo_tick (s : FSt) (fd : Nat) :
    fdInfo { inodes := s.inodes, link := s.link, fds := s.fds, installed := s.installed, clock := s.clock + 1 } fd
      = fdInfo s fd := rfl

theorem inv_openat (s : FSt) (fd p : Nat) (w t c : Bool) (hinv : Inv s)
    (hok : opOK s (.openat fd p w t c) = true) : Inv (apply s (.openat fd p w t c)) := by
  have hck : p ≠ ck ∨ (w = false ∧ t = false ∧ c = false) := by
    by_cases hp : p = ck
    · right; simpa [opOK, hp, and_assoc] using hok
    · exact Or.inl hp
  simp only [apply, inoOf_tick]
  cases hl : inoOf s p with
  | some i =>
    refine inv_modify s _ i _ hinv rfl rfl rfl ?_
    intro j hj
    rcases hck with hp | ⟨_, ht, _⟩
    · left; intro hij; subst hij; exact hp (hinv.inj p ck i hl hj)
    · right; intro n; simp [ht]
  | none =>
    by_cases hc : c = true
    · simp only [hc, if_true]
      have hp : p ≠ ck := by
        rcases hck with hp | ⟨_, _, h⟩
        · exact hp
        · simp [hc] at h
      exact inv_create s _ p _ hinv rfl rfl rfl hp
    · simp only [hc]
      exact inv_tick s hinv

theorem inv_mutate (s : FSt) (fd : Nat) (hinv : Inv s)
    (hok : opOK s (.mutate fd) = true) : Inv (apply s (.mutate fd)) := by
  simp only [apply, fdInfo_tick]
  cases hf : fdInfo s fd with
  | none => exact inv_tick s hinv
  | some iw =>
    obtain ⟨i, w⟩ := iw
    refine inv_modify s _ i _ hinv rfl rfl rfl ?_
    intro j hj
    left
    simpa [opOK, hf, hj] using hok

theorem inv_close (s : FSt) (fd : Nat) (hinv : Inv s) : Inv (apply s (.close fd)) := by
  simp only [apply, fdInfo_tick]
  cases hf : fdInfo s fd with
  | none => exact inv_tick s hinv
  | some iw =>
    obtain ⟨i, w⟩ := iw
    cases w with
    | false => exact inv_of_same s _ hinv rfl rfl rfl (fun j _ => rfl)
    | true =>
      refine inv_modify s _ i (fun n => { n with writers := n.writers - 1 }) hinv rfl rfl rfl ?_
      intro j _; right; intro n; rfl

theorem inv_step (s : FSt) (op : Sys) (hinv : Inv s) (hok : opOK s op = true) : Inv (apply s op) := by
  cases op with
  | openat fd p w t c => exact inv_openat s fd p w t c hinv hok
  | mutate fd => exact inv_mutate s fd hinv hok
  | close fd => exact inv_close s fd hinv
  | unlink p =>
    simp only [apply]
    exact inv_unlink s _ p hinv rfl rfl rfl (by simpa [opOK] using hok)
  | rename src dst =>
    simp only [apply, inoOf_tick]
    have hsrc : src ≠ ck := by
      simp only [opOK, Bool.and_eq_true] at hok
      simpa using hok.1
    cases hl : inoOf s src with
    | none => exact inv_tick s hinv
    | some i => exact inv_rename s _ src dst i hinv rfl rfl rfl hsrc hl
  | link src dst => simp [opOK] at hok
  | mark =>
    simp only [apply, inoOf_tick]
    cases hl : inoOf s ck with
    | none => exact inv_tick s hinv
    | some i => exact inv_mark s _ i hinv rfl rfl rfl hl

/-- run from an arbitrary start state -/
def runFrom (s : FSt) (tr : List Sys) : FSt := tr.foldl apply s

theorem inv_runFrom (tr : List Sys) : ∀ (s : FSt) (k : Nat), Inv s → atomicGo s tr = true → Inv (runFrom s (tr.take k)) := by
  induction tr with
  | nil => intro s k hs _; simpa [runFrom] using hs
  | cons op ops ih =>
    intro s k hs hgo
    cases k with
    | zero => simpa [runFrom] using hs
    | succ k =>
      simp only [atomicGo, Bool.and_eq_true] at hgo
      have := ih (apply s op) k (inv_step s op hs hgo.1) hgo.2
      simpa [runFrom] using this

/-- **atomic protocol ⇒ safe at every crash point**: if every system call of the trace respects the discipline
    `opOK` (evaluated against the state in which it is issued), then a kill after *any* number of system calls leaves
    a safe checkpoint -/
theorem atomic_safe (tr : List Sys) (h : atomicOK tr = true) (k : Nat) : Safe (run (tr.take k)) :=
  (inv_runFrom tr {} k inv_init h).safe

/-! ### the classifier -/

theorem find?_range_some (p : Nat → Bool) : ∀ (n k : Nat), (List.range n).find? p = some k →
    k < n ∧ p k = true ∧ ∀ j, j < k → p j = false := by
  intro n
  induction n with
  | zero => intro k h; simp at h
  | succ n ih =>
    intro k h
    rw [List.range_succ, List.find?_append] at h
    cases hf : (List.range n).find? p with
    | some k' =>
      rw [hf] at h
      simp at h
      subst h
      obtain ⟨h1, h2, h3⟩ := ih k' hf
      exact ⟨by omega, h2, h3⟩
    | none =>
      rw [hf] at h
      simp [List.find?_cons] at h
      by_cases hp : p n = true
      · simp [hp] at h
        subst h
        refine ⟨by omega, hp, ?_⟩
        intro j hj
        rw [List.find?_eq_none] at hf
        simpa using hf j (List.mem_range.mpr hj)
      · simp [hp] at h

/-- the classifier is exact: it returns `none` iff every crash prefix is safe ... -/
theorem firstUnsafe_none_iff (tr : List Sys) :
    firstUnsafe tr = none ↔ ∀ k, k ≤ tr.length → Safe (run (tr.take k)) := by
  unfold firstUnsafe
  rw [List.find?_eq_none]
  constructor
  · intro h k hk
    have := h k (List.mem_range.mpr (by omega))
    simpa using this
  · intro h k hk
    have := h k (by have := List.mem_range.mp hk; omega)
    simpa using this

/-- ... and otherwise it returns the first crash point that is not -/
theorem firstUnsafe_some (tr : List Sys) (k : Nat) (h : firstUnsafe tr = some k) :
    k ≤ tr.length ∧ ¬ Safe (run (tr.take k)) ∧ ∀ j, j < k → Safe (run (tr.take j)) := by
  unfold firstUnsafe at h
  obtain ⟨h1, h2, h3⟩ := find?_range_some _ _ _ h
  refine ⟨by omega, by simpa using h2, ?_⟩
  intro j hj
  simpa using h3 j hj

theorem atomic_firstUnsafe (tr : List Sys) (h : atomicOK tr = true) : firstUnsafe tr = none :=
  (firstUnsafe_none_iff tr).mpr (fun k _ => atomic_safe tr h k)

end NautilusVerif.CrashFS

#print axioms NautilusVerif.CrashFS.atomic_safe
#print axioms NautilusVerif.CrashFS.firstUnsafe_none_iff
#print axioms NautilusVerif.CrashFS.firstUnsafe_some
#print axioms NautilusVerif.CrashFS.atomic_firstUnsafe
