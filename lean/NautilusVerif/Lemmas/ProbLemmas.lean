/-
  C08 / C04: the sampling scheme of `Union.sample` / `NautilusBound.sample` and the shell estimator on a finite
  uniform space (statements fixed by Properties/C08.lean and Properties/C04.lean).

  `X` is a finite set of equiprobable cells; a member `E i` of a union is a finite set of cells (its "volume" is
  its cardinality); a proposal round picks member `i` with probability `|E i| / V` (`V = Σ |E j|`,
  the multinomial over `exp(log_v_all - logsumexp)`), a uniform cell of `E i`, rejects it outside the cube `C` and
  accepts it with probability `1 / multiplicity` (the test `u > 1 - 1/m` for a uniform `u`).
-/
import Mathlib.Algebra.BigOperators.Field
import Mathlib.Algebra.BigOperators.Ring.Finset
import Mathlib.Data.Rat.Defs
import Mathlib.Data.Fintype.Basic
import Mathlib.Tactic.FieldSimp
import Mathlib.Tactic.Ring
import Mathlib.Tactic.Positivity
import Mathlib.Tactic.Linarith
namespace NautilusVerif.Prob
open Finset

variable {X : Type} [DecidableEq X] {k : ℕ}

/-- multiplicity of a cell: the number of members containing it -/
def mult (E : Fin k → Finset X) (x : X) : ℕ := (univ.filter fun i => x ∈ E i).card

/-- total proposal volume -/
def totalVol (E : Fin k → Finset X) : ℚ := ∑ j, ((E j).card : ℚ)

/-- probability that one proposal round of `Union.sample` outputs the cell `x` -/
def outProb (E : Fin k → Finset X) (C : Finset X) (x : X) : ℚ :=
  ∑ i, ((E i).card : ℚ) / totalVol E * (if x ∈ E i then 1 / ((E i).card : ℚ) else 0) *
       (if x ∈ C then 1 / (mult E x : ℚ) else 0)

/-- the region `contains()` accepts -/
def region (E : Fin k → Finset X) (C : Finset X) : Finset X := (univ.biUnion E) ∩ C

/-- proposals are uniform over the region `contains()` accepts: every cell of it has the same probability -/
theorem outProb_uniform [Fintype X] (E : Fin k → Finset X) (C : Finset X) (x : X) (hx : x ∈ region E C) :
    outProb E C x = 1 / totalVol E := by
  classical
  obtain ⟨hU, hC⟩ := Finset.mem_inter.mp hx
  obtain ⟨i0, -, hi0⟩ := Finset.mem_biUnion.mp hU
  unfold outProb
  have hm : (mult E x : ℚ) ≠ 0 := by
    have : 0 < mult E x := Finset.card_pos.mpr ⟨i0, by simp [hi0]⟩
    exact_mod_cast this.ne'
  have key : ∀ i, ((E i).card : ℚ) / totalVol E *
        (if x ∈ E i then 1 / ((E i).card : ℚ) else 0) * (if x ∈ C then 1 / (mult E x : ℚ) else 0)
      = if x ∈ E i then 1 / totalVol E * (1 / (mult E x : ℚ)) else 0 := by
    intro i
    rw [if_pos hC]
    split_ifs with h
    · have hc : ((E i).card : ℚ) ≠ 0 := by
        have : 0 < (E i).card := Finset.card_pos.mpr ⟨x, h⟩
        exact_mod_cast this.ne'
      field_simp
    · simp
  simp only [key]
  rw [← Finset.sum_filter, Finset.sum_const, nsmul_eq_mul]
  show (mult E x : ℚ) * _ = _
  field_simp

/-- nothing outside the region is ever returned -/
theorem outProb_zero [Fintype X] (E : Fin k → Finset X) (C : Finset X) (x : X) (hx : x ∉ region E C) :
    outProb E C x = 0 := by
  classical
  unfold outProb
  apply Finset.sum_eq_zero
  intro i _
  by_cases hC : x ∈ C
  · have hi : x ∉ E i := by
      intro hi
      exact hx (Finset.mem_inter.mpr ⟨Finset.mem_biUnion.mpr ⟨i, Finset.mem_univ _, hi⟩, hC⟩)
    simp [hi]
  · simp [hC]

/-- the reported volume is calibrated: (sum of member volumes) × (expected fraction of accepted proposals) is the true
    measure of the region -/
theorem volume_calibrated [Fintype X] (E : Fin k → Finset X) (C : Finset X) (hV : 0 < totalVol E) :
    totalVol E * ∑ x, outProb E C x = ((region E C).card : ℚ) := by
  classical
  have h : ∀ x, outProb E C x = if x ∈ region E C then 1 / totalVol E else 0 := by
    intro x
    split_ifs with hx
    · exact outProb_uniform E C x hx
    · exact outProb_zero E C x hx
  simp only [h]
  rw [Finset.sum_ite_mem, Finset.univ_inter, Finset.sum_const, nsmul_eq_mul]
  field_simp

/-- without the 1/multiplicity correction overlapping cells are over-represented by exactly their multiplicity
    (what a broken implementation would do) -/
theorem uncorrected_overcounts [Fintype X] (E : Fin k → Finset X) (x : X) (hV : 0 < totalVol E) :
    ∑ i, ((E i).card : ℚ) / totalVol E * (if x ∈ E i then 1 / ((E i).card : ℚ) else 0) = (mult E x : ℚ) / totalVol E := by
  classical
  have key : ∀ i, ((E i).card : ℚ) / totalVol E *
        (if x ∈ E i then 1 / ((E i).card : ℚ) else 0)
      = if x ∈ E i then 1 / totalVol E else 0 := by
    intro i
    split_ifs with h
    · have hc : ((E i).card : ℚ) ≠ 0 := by
        have : 0 < (E i).card := Finset.card_pos.mpr ⟨x, h⟩
        exact_mod_cast this.ne'
      field_simp
    · simp
  simp only [key]
  rw [← Finset.sum_filter, Finset.sum_const, nsmul_eq_mul]
  show (mult E x : ℚ) * _ = _
  ring

/-- second level (`NautilusBound.sample`): rejecting uniform draws from `A` by a predicate `S` gives the uniform law
    on `A ∩ S`, and the acceptance fraction is `|A ∩ S| / |A|` -/
theorem nested_rejection (A S : Finset X) (x : X) (hA : 0 < A.card) :
    (if x ∈ A then (1 : ℚ) / A.card else 0) * (if x ∈ S then 1 else 0) = (if x ∈ A ∩ S then (1 : ℚ) / A.card else 0) ∧
    ∑ y ∈ A, (1 : ℚ) / A.card * (if y ∈ S then 1 else 0) = ((A ∩ S).card : ℚ) / A.card := by
  classical
  constructor
  · by_cases h1 : x ∈ A <;> by_cases h2 : x ∈ S <;> simp [h1, h2, Finset.mem_inter]
  · simp only [mul_ite, mul_one, mul_zero]
    rw [Finset.sum_ite_mem, Finset.sum_const, nsmul_eq_mul]
    ring

/-- pool path: the estimator computed from summed worker counters is the estimator of the pooled stream -/
theorem pool_merge (n r : List ℕ) (h : n.length = r.length) :
    (1 : ℚ) - ((r.sum : ℕ) : ℚ) / ((n.sum : ℕ) : ℚ) = (((n.sum : ℕ) : ℚ) - ((r.sum : ℕ) : ℚ)) / ((n.sum : ℕ) : ℚ) ∨ n.sum = 0 := by
  by_cases hn : n.sum = 0
  · exact Or.inr hn
  · left
    have : ((n.sum : ℕ) : ℚ) ≠ 0 := by exact_mod_cast hn
    rw [sub_div, div_self this]

/-! ### the shell estimator (C04) -/

/-- expectation of `f` under a uniform draw from `B` -/
def expect (B : Finset X) (f : X → ℚ) : ℚ := (∑ x ∈ B, f x) / (B.card : ℚ)

/-- one proposal in bound `B`, counted in shell `R ⊆ B`: `|B|/|X| · L(x) · [x ∈ R]` has expectation `Σ_{x∈R} L x / |X|` -/
theorem shell_term_unbiased [Fintype X] (B R : Finset X) (hRB : R ⊆ B) (hB : 0 < B.card) (L : X → ℚ) :
    ((B.card : ℚ) / Fintype.card X) * expect B (fun x => if x ∈ R then L x else 0) =
      (∑ x ∈ R, L x) / Fintype.card X := by
  classical
  unfold expect
  have hb : ((B.card : ℕ) : ℚ) ≠ 0 := by exact_mod_cast hB.ne'
  rw [Finset.sum_ite_mem, Finset.inter_eq_right.mpr hRB]
  rw [div_mul_div_comm, mul_comm, mul_div_mul_right _ _ hb]

/-- shells partition the space: every cell lies in exactly one `R i := B i \ ⋃_{j>i} B j` when `B 0` is everything -/
theorem shells_partition [Fintype X] {m : ℕ} (B : Fin (m + 1) → Finset X) (h0 : B 0 = univ) (x : X) :
    ∃! i : Fin (m + 1), x ∈ B i ∧ ∀ j : Fin (m + 1), i < j → x ∉ B j := by
  classical
  have hS : (univ.filter (fun i : Fin (m + 1) => x ∈ B i)).Nonempty :=
    ⟨0, by simp [h0]⟩
  refine ⟨(univ.filter (fun i : Fin (m + 1) => x ∈ B i)).max' hS, ⟨?_, ?_⟩, ?_⟩
  · exact (Finset.mem_filter.mp (Finset.max'_mem _ hS)).2
  · intro j hj hxj
    have : j ≤ (univ.filter (fun i : Fin (m + 1) => x ∈ B i)).max' hS :=
      Finset.le_max' _ j (by simp [hxj])
    exact absurd hj (not_lt.mpr this)
  · rintro i ⟨hi, hi'⟩
    have hle : i ≤ (univ.filter (fun i : Fin (m + 1) => x ∈ B i)).max' hS :=
      Finset.le_max' _ i (by simp [hi])
    rcases lt_or_eq_of_le hle with hlt | heq
    · exact absurd (Finset.mem_filter.mp (Finset.max'_mem _ hS)).2 (hi' _ hlt)
    · exact heq

/-- **the evidence estimator is unbiased** (exploration discarded: the bounds are fixed when the samples are drawn):
    summing the shell terms over the shells gives `Σ_x L x / |X|`, for any bounds, any likelihood, any number
    `N i ≥ 1` of proposals per bound (the mean over `N i` i.i.d. proposals has the expectation of one) -/
theorem evidence_unbiased [Fintype X] {m : ℕ} (B : Fin (m + 1) → Finset X) (h0 : B 0 = univ)
    (hB : ∀ i, 0 < (B i).card) (L : X → ℚ) :
    ∑ i : Fin (m + 1), ((B i).card : ℚ) / Fintype.card X *
        expect (B i) (fun x => if (x ∈ B i ∧ ∀ j : Fin (m + 1), i < j → x ∉ B j) then L x else 0) =
      (∑ x, L x) / Fintype.card X := by
  classical
  have hterm : ∀ i : Fin (m + 1), ((B i).card : ℚ) / Fintype.card X *
        expect (B i) (fun x => if (x ∈ B i ∧ ∀ j : Fin (m + 1), i < j → x ∉ B j) then L x else 0) =
      (∑ x, if (x ∈ B i ∧ ∀ j : Fin (m + 1), i < j → x ∉ B j) then L x else 0) / Fintype.card X := by
    intro i
    have hf : (fun x => if (x ∈ B i ∧ ∀ j : Fin (m + 1), i < j → x ∉ B j) then L x else 0) =
        (fun x => if x ∈ (B i).filter (fun x => ∀ j : Fin (m + 1), i < j → x ∉ B j) then L x else 0) := by
      funext x
      exact if_congr (by simp [Finset.mem_filter]) rfl rfl
    rw [hf, shell_term_unbiased (B i) _ (Finset.filter_subset _ _) (hB i) L]
    congr 1
    rw [Finset.sum_ite_mem, Finset.univ_inter]
  simp only [hterm]
  rw [← Finset.sum_div, Finset.sum_comm]
  congr 1
  apply Finset.sum_congr rfl
  intro x _
  obtain ⟨i, hi, huniq⟩ := shells_partition B h0 x
  rw [Finset.sum_eq_single i]
  · exact if_pos hi
  · intro b _ hb
    exact if_neg (fun h => hb (huniq b h))
  · intro h; exact absurd (Finset.mem_univ _) h

/-- the shell volumes add up to the prior volume (one): take `L = 1` -/
theorem shell_volumes_sum_to_one [Fintype X] [Nonempty X] {m : ℕ} (B : Fin (m + 1) → Finset X) (h0 : B 0 = univ)
    (hB : ∀ i, 0 < (B i).card) :
    ∑ i : Fin (m + 1), ((B i).card : ℚ) / Fintype.card X *
        expect (B i) (fun x => if (x ∈ B i ∧ ∀ j : Fin (m + 1), i < j → x ∉ B j) then 1 else 0) = 1 := by
  have h := evidence_unbiased B h0 hB (fun _ => (1 : ℚ))
  rw [h, Finset.sum_const, Finset.card_univ, nsmul_eq_mul, mul_one]
  have : (Fintype.card X : ℚ) ≠ 0 := by exact_mod_cast (Fintype.card_pos (α := X)).ne'
  exact div_self this

end NautilusVerif.Prob

#print axioms NautilusVerif.Prob.outProb_uniform
#print axioms NautilusVerif.Prob.outProb_zero
#print axioms NautilusVerif.Prob.volume_calibrated
#print axioms NautilusVerif.Prob.uncorrected_overcounts
#print axioms NautilusVerif.Prob.nested_rejection
#print axioms NautilusVerif.Prob.pool_merge
#print axioms NautilusVerif.Prob.shell_term_unbiased
#print axioms NautilusVerif.Prob.shells_partition
#print axioms NautilusVerif.Prob.evidence_unbiased
#print axioms NautilusVerif.Prob.shell_volumes_sum_to_one
