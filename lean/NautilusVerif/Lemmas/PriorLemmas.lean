/- Lemmas for C15 (statements are fixed by Properties/C15.lean). -/
import NautilusVerif.Model.PriorModel
import Mathlib.Data.List.Basic
import Mathlib.Tactic.Linarith
import Mathlib.Tactic.Ring
namespace NautilusVerif.PriorModel

theorem add_atomic (p : Prior) (k : KeyArg) (d : DistArg) (h : (add p k d).2 ≠ .ok) : (add p k d).1 = p := by
  sorry

theorem exec_wf (ops : List (KeyArg × DistArg)) :
    (exec {} ops).keys.Nodup ∧ (exec {} ops).keys.length = (exec {} ops).dists.length ∧
    ∀ (i : Nat) (t : String), (exec {} ops).dists[i]? = some (Dist.link t) →
      ∃ j : Nat, j < i ∧ (exec {} ops).keys[j]? = some t ∧ ∃ d : Dist, (exec {} ops).dists[j]? = some d ∧ d.isLink = false := by
  sorry

theorem dim_step (p : Prior) (k : KeyArg) (d : DistArg) :
    dimensionality ({} : Prior) = 0 ∧
    ((add p k d).2 = .ok →
      dimensionality (add p k d).1 = dimensionality p +
        (match d with | .range _ _ => 1 | .isf _ _ => 1 | _ => 0)) ∧
    ((add p k d).2 ≠ .ok → dimensionality (add p k d).1 = dimensionality p) := by
  sorry

theorem physical_spec (p : Prior) (u : List Rat) (h : u.length = dimensionality p) :
    unitToPhysical p u = .ok (List.zipWith (fun (ab : Rat × Rat) x => ab.1 + ab.2 * x)
      (p.dists.filterMap (fun d => match d with | .free a b => some (a, b) | _ => none)) u) := by
  sorry

theorem dict_spec (ops : List (KeyArg × DistArg)) (u : List Rat)
    (h : u.length = dimensionality (exec {} ops)) (hpos : 0 < u.length) :
    ∃ d, unitToDictionary (exec {} ops) u = .ok d ∧ (d.map (·.1)).Perm (exec {} ops).keys ∧
      ∀ k, lookup d k = lookup (Spec.eval (toDecls (exec {} ops).keys (exec {} ops).dists) u []) k := by
  sorry

theorem link_value (ops : List (KeyArg × DistArg)) (u : List Rat)
    (h : u.length = dimensionality (exec {} ops))
    (d : List (String × Rat)) (hd : unitToDictionary (exec {} ops) u = .ok d) (i : Nat) (k t : String)
    (hk : (exec {} ops).keys[i]? = some k) (ht : (exec {} ops).dists[i]? = some (Dist.link t)) :
    lookup d k = lookup d t ∧ (lookup d t).isSome := by
  sorry

theorem add_rejects (p : Prior) (d : DistArg) (s : String) :
    (add p .nonStr d).2 = .typeError ∧
    (s ∈ p.keys → (add p (.str s) d).2 = .valueError) ∧
    (autoKey p.keys.length ∈ p.keys → (add p .auto d).2 = .valueError) ∧
    (s ∉ p.keys → (add p (.str s) .other).2 = .typeError) ∧
    (s ∉ p.keys → ∀ t, t ∉ p.keys → (add p (.str s) (.link t)).2 = .valueError) ∧
    (s ∉ p.keys → (add p (.str s) (.link s)).2 = .valueError) := by
  sorry

theorem add_no_indexError (ops : List (KeyArg × DistArg)) (k : KeyArg) (d : DistArg) :
    (add (exec {} ops) k d).2 ≠ .indexError := by
  sorry

theorem range_shape (a b : Rat) (h : a < b) :
    (∀ u v : Rat, u < v → a + (b - a) * u < a + (b - a) * v) ∧ a + (b - a) * 0 = a ∧ a + (b - a) * 1 = b := by
  sorry

end NautilusVerif.PriorModel
