/- Lemmas for C15 (statements are fixed by Properties/C15.lean). -/
import NautilusVerif.Model.PriorModel
import Mathlib.Data.List.Basic
import Mathlib.Tactic.Linarith
import Mathlib.Tactic.Ring
namespace NautilusVerif.PriorModel

def keyOf (p : Prior) : KeyArg → Except Outcome String
  | .auto => .ok (autoKey p.keys.length)
  | .nonStr => .error .typeError
  | .str s => .ok s

def distOf (p : Prior) : DistArg → Except Outcome Dist
  | .range a b => .ok (.free a (b - a))
  | .number v => .ok (.fixed v)
  | .isf a b => .ok (.free a b)
  | .link s =>
    if s ∉ p.keys then .error .valueError
    else match resolve p.keys p.dists (p.dists.length + 1) s with
      | none => .error .indexError
      | some t => .ok (.link t)
  | .other => .error .typeError

theorem add_eq (p : Prior) (k : KeyArg) (d : DistArg) :
    add p k d = match keyOf p k with
      | .error e => (p, e)
      | .ok key => if key ∈ p.keys then (p, .valueError) else
        match distOf p d with
        | .error e => (p, e)
        | .ok dist => ({ keys := p.keys ++ [key], dists := p.dists ++ [dist] }, .ok) := by
  cases k <;> cases d <;> rfl

theorem keyOf_error {p : Prior} {k : KeyArg} {e : Outcome} (h : keyOf p k = .error e) : e = .typeError := by
  cases k <;> simp_all [keyOf]

theorem distOf_error {p : Prior} {d : DistArg} {e : Outcome} (h : distOf p d = .error e) : e ≠ .ok := by
  cases d with
  | link s =>
    by_cases hs : s ∈ p.keys
    · cases hr : resolve p.keys p.dists (p.dists.length + 1) s <;> simp [distOf, hs, hr] at h
      subst h; simp
    · simp [distOf, hs] at h; subst h; simp
  | other => simp [distOf] at h; subst h; simp
  | _ => simp [distOf] at h

/-- what a successful `add` appends -/
def DistOf (p : Prior) : DistArg → Dist → Prop
  | .range a b, dist => dist = .free a (b - a)
  | .number v, dist => dist = .fixed v
  | .isf a b, dist => dist = .free a b
  | .link s, dist => s ∈ p.keys ∧ ∃ t, resolve p.keys p.dists (p.dists.length + 1) s = some t ∧ dist = .link t
  | .other, _ => False

theorem distOf_ok {p : Prior} {d : DistArg} {dist : Dist} (h : distOf p d = .ok dist) : DistOf p d dist := by
  cases d with
  | link s =>
    by_cases hs : s ∈ p.keys
    · cases hr : resolve p.keys p.dists (p.dists.length + 1) s <;> simp [distOf, hs, hr] at h
      subst h; exact ⟨hs, _, hr, rfl⟩
    · simp [distOf, hs] at h
  | other => simp [distOf] at h
  | _ => simp [distOf] at h; subst h; simp [DistOf]

theorem add_spec (p : Prior) (k : KeyArg) (d : DistArg) :
    (∃ e, e ≠ Outcome.ok ∧ add p k d = (p, e)) ∨
    ∃ key dist, key ∉ p.keys ∧ keyOf p k = .ok key ∧ distOf p d = .ok dist ∧
      add p k d = ({ keys := p.keys ++ [key], dists := p.dists ++ [dist] }, .ok) := by
  rw [add_eq]
  cases hk : keyOf p k with
  | error e => left; exact ⟨e, by rw [keyOf_error hk]; simp, rfl⟩
  | ok key =>
    by_cases hmem : key ∈ p.keys
    · left; exact ⟨.valueError, by simp, by simp [hmem]⟩
    · cases hd : distOf p d with
      | error e => left; exact ⟨e, distOf_error hd, by simp [hmem]⟩
      | ok dist => right; exact ⟨key, dist, hmem, rfl, rfl, by simp [hmem]⟩

theorem add_atomic (p : Prior) (k : KeyArg) (d : DistArg) (h : (add p k d).2 ≠ .ok) : (add p k d).1 = p := by
  rcases add_spec p k d with ⟨e, _, he⟩ | ⟨key, dist, _, _, _, he⟩
  · rw [he]
  · rw [he] at h; exact absurd rfl h

theorem add_rejects (p : Prior) (d : DistArg) (s : String) :
    (add p .nonStr d).2 = .typeError ∧
    (s ∈ p.keys → (add p (.str s) d).2 = .valueError) ∧
    (autoKey p.keys.length ∈ p.keys → (add p .auto d).2 = .valueError) ∧
    (s ∉ p.keys → (add p (.str s) .other).2 = .typeError) ∧
    (s ∉ p.keys → ∀ t, t ∉ p.keys → (add p (.str s) (.link t)).2 = .valueError) ∧
    (s ∉ p.keys → (add p (.str s) (.link s)).2 = .valueError) := by
  refine ⟨?_, ?_, ?_, ?_, ?_, ?_⟩
  · rw [add_eq]; simp [keyOf]
  · intro h; rw [add_eq]; simp [keyOf, h]
  · intro h; rw [add_eq]; simp [keyOf, h]
  · intro h; rw [add_eq]; simp [keyOf, distOf, h]
  · intro h t ht; rw [add_eq]; simp [keyOf, distOf, h, ht]
  · intro h; rw [add_eq]; simp [keyOf, distOf, h]

theorem dim_step (p : Prior) (k : KeyArg) (d : DistArg) :
    dimensionality ({} : Prior) = 0 ∧
    ((add p k d).2 = .ok →
      dimensionality (add p k d).1 = dimensionality p +
        (match d with | .range _ _ => 1 | .isf _ _ => 1 | _ => 0)) ∧
    ((add p k d).2 ≠ .ok → dimensionality (add p k d).1 = dimensionality p) := by
  refine ⟨rfl, ?_, fun h => by rw [add_atomic p k d h]⟩
  intro h
  rcases add_spec p k d with ⟨e, hne, he⟩ | ⟨key, dist, _, _, hd, he⟩
  · rw [he] at h; exact absurd h hne
  · rw [he]
    have := distOf_ok hd
    cases d <;> simp only [DistOf] at this
    · subst this; simp [dimensionality, List.filter_append, List.filter, Dist.isFree]
    · subst this; simp [dimensionality, List.filter_append, List.filter, Dist.isFree]
    · subst this; simp [dimensionality, List.filter_append, List.filter, Dist.isFree]
    · obtain ⟨_, t, _, rfl⟩ := this; simp [dimensionality, List.filter_append, List.filter, Dist.isFree]

theorem range_shape (a b : Rat) (h : a < b) :
    (∀ u v : Rat, u < v → a + (b - a) * u < a + (b - a) * v) ∧ a + (b - a) * 0 = a ∧ a + (b - a) * 1 = b := by
  refine ⟨fun u v huv => ?_, by ring, by ring⟩
  have := mul_lt_mul_of_pos_left huv (sub_pos.mpr h)
  linarith


/-! ### well-formedness invariant -/
def WF (p : Prior) : Prop :=
  p.keys.Nodup ∧ p.keys.length = p.dists.length ∧
  ∀ (i : Nat) (t : String), p.dists[i]? = some (Dist.link t) →
    ∃ j : Nat, j < i ∧ p.keys[j]? = some t ∧ ∃ d : Dist, p.dists[j]? = some d ∧ d.isLink = false

theorem idxOf_of_getElem? {ks : List String} (hn : ks.Nodup) {j : Nat} {t : String}
    (h : ks[j]? = some t) : ks.idxOf t = j := by
  obtain ⟨hj, rfl⟩ := List.getElem?_eq_some_iff.mp h
  exact hn.idxOf_getElem j hj

theorem resolve_nonlink {keys : List String} {dists : List Dist} {n : Nat} {s : String} {d : Dist}
    (h : dists[keys.idxOf s]? = some d) (hd : d.isLink = false) :
    resolve keys dists (n + 1) s = some s := by
  cases d <;> simp_all [resolve, Dist.isLink]

theorem resolve_wf {p : Prior} (hp : WF p) {s : String} (hs : s ∈ p.keys) :
    ∃ t, resolve p.keys p.dists (p.dists.length + 1) s = some t ∧
      ∃ j, j < p.keys.length ∧ p.keys[j]? = some t ∧ ∃ d, p.dists[j]? = some d ∧ d.isLink = false := by
  obtain ⟨hn, hl, hlk⟩ := hp
  have hj : p.keys.idxOf s < p.keys.length := List.idxOf_lt_length_of_mem hs
  have hj' : p.keys.idxOf s < p.dists.length := hl ▸ hj
  obtain ⟨d, hd⟩ : ∃ d, p.dists[p.keys.idxOf s]? = some d := ⟨_, List.getElem?_eq_getElem hj'⟩
  cases hdl : d.isLink with
  | false => exact ⟨s, resolve_nonlink hd hdl, _, hj, List.getElem?_idxOf hs, d, hd, hdl⟩
  | true =>
    obtain ⟨t, rfl⟩ : ∃ t, d = .link t := by cases d <;> simp_all [Dist.isLink]
    obtain ⟨j, hji, hkj, d', hd', hdl'⟩ := hlk _ _ hd
    obtain ⟨m, hm⟩ : ∃ m, p.dists.length = m + 1 := ⟨p.dists.length - 1, by omega⟩
    refine ⟨t, ?_, j, by omega, hkj, d', hd', hdl'⟩
    rw [hm, resolve]
    simp only [hd]
    apply resolve_nonlink (d := d') _ hdl'
    rw [idxOf_of_getElem? hn hkj]; exact hd'

theorem wf_empty : WF {} := by
  refine ⟨List.nodup_nil, rfl, ?_⟩
  intro i t h; simp at h

theorem wf_add {p : Prior} (hp : WF p) (k : KeyArg) (d : DistArg) : WF (add p k d).1 := by
  rcases add_spec p k d with ⟨e, _, he⟩ | ⟨key, dist, hkey, _, hd, he⟩
  · rw [he]; exact hp
  · rw [he]
    have hD := distOf_ok hd
    obtain ⟨hn, hl, hlk⟩ := hp
    refine ⟨?_, by simp [hl], ?_⟩
    · show (p.keys ++ [key]).Nodup
      rw [List.nodup_append]
      refine ⟨hn, by simp, ?_⟩
      intro a ha b hb
      simp at hb; subst hb; rintro rfl; exact hkey ha
    · intro i t hi
      show ∃ j, j < i ∧ (p.keys ++ [key])[j]? = some t ∧ ∃ d : Dist, (p.dists ++ [dist])[j]? = some d ∧ d.isLink = false
      change (p.dists ++ [dist])[i]? = some (Dist.link t) at hi
      have key_lift : ∀ (j : Nat) (t' : String), j < p.keys.length → p.keys[j]? = some t' → (p.keys ++ [key])[j]? = some t' := by
        intro j t' hj h; rw [List.getElem?_append_left hj]; exact h
      have dist_lift : ∀ (j : Nat) (d' : Dist), p.dists[j]? = some d' → (p.dists ++ [dist])[j]? = some d' := by
        intro j d' h
        have hj : j < p.dists.length := (List.getElem?_eq_some_iff.mp h).1
        rw [List.getElem?_append_left hj]; exact h
      by_cases hlt : i < p.dists.length
      · rw [List.getElem?_append_left hlt] at hi
        obtain ⟨j, hji, hkj, d', hd', hdl'⟩ := hlk i t hi
        exact ⟨j, hji, key_lift j t (by omega) hkj, d', dist_lift j d' hd', hdl'⟩
      · rw [List.getElem?_append_right (by omega)] at hi
        have hi0 : i - p.dists.length = 0 := by
          by_contra hne
          rw [List.getElem?_eq_none (by simp; omega)] at hi
          cases hi
        rw [hi0] at hi
        simp at hi
        subst hi
        cases d <;> simp only [DistOf] at hD
        all_goals first | (cases hD; done) | skip
        obtain ⟨hs, t', hres, hEq⟩ := hD
        cases hEq
        obtain ⟨t'', hres', j, hj, hkj, d', hd', hdl'⟩ := resolve_wf ⟨hn, hl, hlk⟩ hs
        rw [hres] at hres'; cases hres'
        exact ⟨j, by omega, key_lift j _ hj hkj, d', dist_lift j d' hd', hdl'⟩

theorem wf_exec {p : Prior} (hp : WF p) (ops : List (KeyArg × DistArg)) : WF (exec p ops) := by
  induction ops generalizing p with
  | nil => exact hp
  | cons kd ops ih => exact ih (wf_add hp kd.1 kd.2)

theorem exec_wf (ops : List (KeyArg × DistArg)) :
    (exec {} ops).keys.Nodup ∧ (exec {} ops).keys.length = (exec {} ops).dists.length ∧
    ∀ (i : Nat) (t : String), (exec {} ops).dists[i]? = some (Dist.link t) →
      ∃ j : Nat, j < i ∧ (exec {} ops).keys[j]? = some t ∧ ∃ d : Dist, (exec {} ops).dists[j]? = some d ∧ d.isLink = false :=
  wf_exec wf_empty ops

theorem add_no_indexError (ops : List (KeyArg × DistArg)) (k : KeyArg) (d : DistArg) :
    (add (exec {} ops) k d).2 ≠ .indexError := by
  have hp : WF (exec {} ops) := wf_exec wf_empty ops
  generalize exec {} ops = p at hp
  rw [add_eq]
  cases hk : keyOf p k with
  | error e => rw [keyOf_error hk]; simp
  | ok key =>
    by_cases hmem : key ∈ p.keys
    · simp [hmem]
    · simp only [hmem, if_false]
      cases d with
      | link s =>
        by_cases hs : s ∈ p.keys
        · obtain ⟨t, ht, _⟩ := resolve_wf hp hs
          simp [distOf, hs, ht]
        · simp [distOf, hs]
      | _ => simp [distOf]

/-! ### unit_to_physical -/
theorem physLoop_spec (ds : List Dist) (u : List Rat) (h : u.length = (ds.filter Dist.isFree).length) :
    physLoop ds u = List.zipWith (fun (ab : Rat × Rat) x => ab.1 + ab.2 * x)
      (ds.filterMap (fun d => match d with | .free a b => some (a, b) | _ => none)) u := by
  induction ds generalizing u with
  | nil => simp [physLoop]
  | cons d ds ih =>
    cases d with
    | free a b =>
      cases u with
      | nil => simp [List.filter, Dist.isFree] at h
      | cons x us =>
        simp [List.filter, Dist.isFree] at h
        simp [physLoop, ih us h]
    | fixed v =>
      simp [List.filter, Dist.isFree] at h
      simp [physLoop, ih u h]
    | link t =>
      simp [List.filter, Dist.isFree] at h
      simp [physLoop, ih u h]

theorem physical_spec (p : Prior) (u : List Rat) (h : u.length = dimensionality p) :
    unitToPhysical p u = .ok (List.zipWith (fun (ab : Rat × Rat) x => ab.1 + ab.2 * x)
      (p.dists.filterMap (fun d => match d with | .free a b => some (a, b) | _ => none)) u) := by
  unfold unitToPhysical
  rw [if_neg (by simp [h]), physLoop_spec p.dists u h]


/-! ### dictionaries: lookup / assign -/
theorem lookup_cons (kv : String × Rat) (d : List (String × Rat)) (k : String) :
    lookup (kv :: d) k = if kv.1 = k then some kv.2 else lookup d k := by
  unfold lookup; rw [List.find?_cons]
  by_cases h : kv.1 = k
  · have hb : (kv.1 == k) = true := by simp [h]
    rw [hb, if_pos h]; rfl
  · have hb : (kv.1 == k) = false := by simp [h]
    rw [hb, if_neg h]

theorem lookup_append_of_some {d X : List (String × Rat)} {k : String} {v : Rat}
    (h : lookup d k = some v) : lookup (d ++ X) k = some v := by
  induction d with
  | nil => simp [lookup] at h
  | cons kv d ih =>
    rw [List.cons_append, lookup_cons]; rw [lookup_cons] at h
    split_ifs at h ⊢ with hk
    · exact h
    · exact ih h

theorem lookup_eq_none {d : List (String × Rat)} {k : String} (h : k ∉ d.map (·.1)) : lookup d k = none := by
  induction d with
  | nil => rfl
  | cons kv d ih =>
    simp only [List.map_cons, List.mem_cons, not_or] at h
    rw [lookup_cons, if_neg (fun e => h.1 e.symm)]; exact ih h.2

theorem lookup_eq_some_of_mem {d : List (String × Rat)} {k : String} {v : Rat}
    (hn : (d.map (·.1)).Nodup) (h : (k, v) ∈ d) : lookup d k = some v := by
  induction d with
  | nil => simp at h
  | cons kv d ih =>
    simp only [List.map_cons, List.nodup_cons] at hn
    rw [lookup_cons]
    rcases List.mem_cons.mp h with rfl | h'
    · simp
    · have : kv.1 ≠ k := by
        rintro rfl; exact hn.1 (List.mem_map.mpr ⟨_, h', rfl⟩)
      rw [if_neg this]; exact ih hn.2 h'

theorem lookup_isSome_of_mem_keys {d : List (String × Rat)} {k : String} (h : k ∈ d.map (·.1)) :
    (lookup d k).isSome = true := by
  induction d with
  | nil => simp at h
  | cons kv d ih =>
    rw [lookup_cons]
    by_cases hk : kv.1 = k
    · simp [hk]
    · rw [if_neg hk]; apply ih
      simp only [List.map_cons, List.mem_cons] at h
      rcases h with h | h
      · exact absurd h.symm hk
      · exact h

theorem assign_new {d : List (String × Rat)} {k : String} (v : Rat) (h : k ∉ d.map (·.1)) :
    assign d k v = d ++ [(k, v)] := by
  unfold assign
  rw [if_neg]
  simp only [List.any_eq_true, beq_iff_eq, not_exists, not_and]
  intro kv hkv hEq
  exact h (List.mem_map.mpr ⟨kv, hkv, hEq⟩)

/-! ### closed forms of the loops -/
def baseVals : List String → List Dist → List Rat → List (String × Rat)
  | k :: ks, .free a b :: ds, x :: us => (k, a + b * x) :: baseVals ks ds us
  | k :: ks, .fixed v :: ds, us => (k, v) :: baseVals ks ds us
  | _ :: ks, _ :: ds, us => baseVals ks ds us
  | _, _, _ => []

def nlKeys : List String → List Dist → List String
  | k :: ks, d :: ds => if d.isLink then nlKeys ks ds else k :: nlKeys ks ds
  | _, _ => []

def lkKeys : List String → List Dist → List String
  | k :: ks, d :: ds => if d.isLink then k :: lkKeys ks ds else lkKeys ks ds
  | _, _ => []

theorem physLoop_length (ds : List Dist) (u : List Rat) (h : u.length = (ds.filter Dist.isFree).length) :
    (physLoop ds u).length = (ds.filter Dist.isFree).length := by
  induction ds generalizing u with
  | nil => simp [physLoop]
  | cons d ds ih =>
    cases d with
    | free a b =>
      cases u with
      | nil => simp [List.filter, Dist.isFree] at h
      | cons x us =>
        simp [List.filter, Dist.isFree] at h
        simp [physLoop, ih us h, List.filter, Dist.isFree]
    | fixed v =>
      simp [List.filter, Dist.isFree] at h
      simp [physLoop, ih u h, List.filter, Dist.isFree]
    | link t =>
      simp [List.filter, Dist.isFree] at h
      simp [physLoop, ih u h, List.filter, Dist.isFree]

theorem dictLoop1_spec (ks : List String) (ds : List Dist) (us : List Rat) (acc : List (String × Rat))
    (hu : us.length = (ds.filter Dist.isFree).length) (hn : (acc.map (·.1) ++ ks).Nodup) :
    dictLoop1 ks ds (physLoop ds us) acc = acc ++ baseVals ks ds us := by
  induction ks generalizing ds us acc with
  | nil => simp [dictLoop1, baseVals]
  | cons k ks ih =>
    have hk : k ∉ acc.map (·.1) := by
      intro hmem
      rw [List.nodup_append] at hn
      exact hn.2.2 k hmem k (List.mem_cons_self) rfl
    have hn' : ∀ v : Rat, ((acc ++ [(k, v)]).map (·.1) ++ ks).Nodup := by
      intro v; simpa [List.append_assoc] using hn
    cases ds with
    | nil => simp [dictLoop1, baseVals]
    | cons d ds =>
      cases d with
      | free a b =>
        cases us with
        | nil => simp [List.filter, Dist.isFree] at hu
        | cons x us =>
          simp [List.filter, Dist.isFree] at hu
          simp only [physLoop, dictLoop1, baseVals]
          rw [assign_new _ hk, ih ds us _ hu (hn' _)]
          simp
      | fixed v =>
        simp [List.filter, Dist.isFree] at hu
        simp only [physLoop, dictLoop1, baseVals]
        rw [assign_new _ hk, ih ds us _ hu (hn' _)]
        simp
      | link t =>
        simp [List.filter, Dist.isFree] at hu
        have hn'' : (acc.map (·.1) ++ ks).Nodup := by
          rw [List.nodup_append] at hn ⊢
          exact ⟨hn.1, (List.nodup_cons.mp hn.2.1).2, fun a ha b hb => hn.2.2 a ha b (List.mem_cons_of_mem _ hb)⟩
        simp only [physLoop, dictLoop1, baseVals]
        rw [ih ds us _ hu hn'']


theorem baseVals_keys (ks : List String) (ds : List Dist) (us : List Rat)
    (hu : us.length = (ds.filter Dist.isFree).length) :
    (baseVals ks ds us).map (·.1) = nlKeys ks ds := by
  induction ks generalizing ds us with
  | nil => simp [baseVals, nlKeys]
  | cons k ks ih =>
    cases ds with
    | nil => simp [baseVals, nlKeys]
    | cons d ds =>
      cases d with
      | free a b =>
        cases us with
        | nil => simp [List.filter, Dist.isFree] at hu
        | cons x us =>
          simp [List.filter, Dist.isFree] at hu
          simp [baseVals, nlKeys, Dist.isLink, ih ds us hu]
      | fixed v =>
        simp [List.filter, Dist.isFree] at hu
        simp [baseVals, nlKeys, Dist.isLink, ih ds us hu]
      | link t =>
        simp [List.filter, Dist.isFree] at hu
        simp [baseVals, nlKeys, Dist.isLink, ih ds us hu]

theorem nl_lk_perm (ks : List String) (ds : List Dist) (hl : ks.length = ds.length) :
    (nlKeys ks ds ++ lkKeys ks ds).Perm ks := by
  induction ks generalizing ds with
  | nil => simp [nlKeys, lkKeys]
  | cons k ks ih =>
    cases ds with
    | nil => simp at hl
    | cons d ds =>
      have hl' : ks.length = ds.length := by simpa using hl
      simp only [nlKeys, lkKeys]
      cases d.isLink with
      | true => simpa using List.perm_middle.trans ((ih ds hl').cons k)
      | false => simpa using (ih ds hl').cons k

theorem mem_nlKeys {ks : List String} {ds : List Dist} {k : String} {d : Dist}
    (h : (k, d) ∈ ks.zip ds) (hd : d.isLink = false) : k ∈ nlKeys ks ds := by
  induction ks generalizing ds with
  | nil => simp at h
  | cons k' ks ih =>
    cases ds with
    | nil => simp at h
    | cons d' ds =>
      simp only [List.zip_cons_cons, List.mem_cons] at h
      simp only [nlKeys]
      rcases h with h | h
      · cases h; simp [hd]
      · split_ifs
        · exact ih h
        · exact List.mem_cons_of_mem _ (ih h)

theorem dictLoop2_spec (B : List (String × Rat)) (ks : List String) (ds : List Dist) (acc : List (String × Rat))
    (hB : ∃ X, acc = B ++ X)
    (hl : ∀ k t, (k, Dist.link t) ∈ ks.zip ds → (lookup B t).isSome = true)
    (hn : (acc.map (·.1) ++ lkKeys ks ds).Nodup) :
    ∃ Y, dictLoop2 ks ds acc = some (acc ++ Y) ∧ Y.map (·.1) = lkKeys ks ds ∧
      ∀ k t, (k, Dist.link t) ∈ ks.zip ds → ∃ v, lookup B t = some v ∧ (k, v) ∈ Y := by
  induction ks generalizing ds acc with
  | nil => exact ⟨[], by simp [dictLoop2], by simp [lkKeys], by simp⟩
  | cons k ks ih =>
    cases ds with
    | nil => exact ⟨[], by simp [dictLoop2], by simp [lkKeys], by simp⟩
    | cons d ds =>
      have hl' : ∀ k' t, (k', Dist.link t) ∈ ks.zip ds → (lookup B t).isSome = true :=
        fun k' t h => hl k' t (by simp [h])
      cases d with
      | link t =>
        obtain ⟨X, rfl⟩ := hB
        obtain ⟨v, hv⟩ := Option.isSome_iff_exists.mp (hl k t (by simp))
        have hacc : lookup (B ++ X) t = some v := lookup_append_of_some hv
        simp only [lkKeys, Dist.isLink, if_true] at hn
        have hk : k ∉ (B ++ X).map (·.1) := by
          intro hmem
          rw [List.nodup_append] at hn
          exact hn.2.2 k hmem k (List.mem_cons_self) rfl
        have hn' : (((B ++ X) ++ [(k, v)]).map (·.1) ++ lkKeys ks ds).Nodup := by
          simpa [List.append_assoc] using hn
        obtain ⟨Y, hY, hYk, hYl⟩ := ih ds ((B ++ X) ++ [(k, v)]) ⟨X ++ [(k, v)], by simp⟩ hl' hn'
        refine ⟨(k, v) :: Y, ?_, ?_, ?_⟩
        · simp only [dictLoop2, hacc]
          rw [assign_new _ hk, hY]; simp
        · simp [lkKeys, Dist.isLink, hYk]
        · intro k' t' h
          simp only [List.zip_cons_cons, List.mem_cons] at h
          rcases h with h | h
          · cases h; exact ⟨v, hv, List.mem_cons_self⟩
          · obtain ⟨v', hv', hm⟩ := hYl k' t' h
            exact ⟨v', hv', List.mem_cons_of_mem _ hm⟩
      | free a b =>
        simp only [lkKeys, Dist.isLink] at hn
        obtain ⟨Y, hY, hYk, hYl⟩ := ih ds acc hB hl' (by simpa using hn)
        refine ⟨Y, by simp only [dictLoop2, hY], by simp [lkKeys, Dist.isLink, hYk], ?_⟩
        intro k' t' h
        simp only [List.zip_cons_cons, List.mem_cons] at h
        rcases h with h | h
        · cases h
        · exact hYl k' t' h
      | fixed v =>
        simp only [lkKeys, Dist.isLink] at hn
        obtain ⟨Y, hY, hYk, hYl⟩ := ih ds acc hB hl' (by simpa using hn)
        refine ⟨Y, by simp only [dictLoop2, hY], by simp [lkKeys, Dist.isLink, hYk], ?_⟩
        intro k' t' h
        simp only [List.zip_cons_cons, List.mem_cons] at h
        rcases h with h | h
        · cases h
        · exact hYl k' t' h


theorem mem_zip_of_getElem? {ks : List String} {ds : List Dist} {i : Nat} {k : String} {d : Dist}
    (hk : ks[i]? = some k) (hd : ds[i]? = some d) : (k, d) ∈ ks.zip ds := by
  rw [List.mem_iff_getElem?]
  exact ⟨i, List.getElem?_zip_eq_some.mpr ⟨hk, hd⟩⟩

theorem getElem?_of_mem_zip {ks : List String} {ds : List Dist} {k : String} {d : Dist}
    (h : (k, d) ∈ ks.zip ds) : ∃ i : Nat, ks[i]? = some k ∧ ds[i]? = some d := by
  rw [List.mem_iff_getElem?] at h
  obtain ⟨i, hi⟩ := h
  exact ⟨i, List.getElem?_zip_eq_some.mp hi⟩

/-- under `WF`, the two loops of `physical_to_dictionary` succeed; closed form of the result -/
theorem loops_spec {p : Prior} (hp : WF p) (u : List Rat) (h : u.length = dimensionality p) :
    ∃ Y, dictLoop2 p.keys p.dists (dictLoop1 p.keys p.dists (physLoop p.dists u) []) =
        some (baseVals p.keys p.dists u ++ Y) ∧
      ((baseVals p.keys p.dists u ++ Y).map (·.1)).Perm p.keys ∧
      ∀ k t, (k, Dist.link t) ∈ p.keys.zip p.dists →
        ∃ v, lookup (baseVals p.keys p.dists u) t = some v ∧ (k, v) ∈ Y := by
  obtain ⟨hn, hl, hlk⟩ := hp
  have hkeys := baseVals_keys p.keys p.dists u h
  have hperm := nl_lk_perm p.keys p.dists hl
  rw [dictLoop1_spec p.keys p.dists u [] h (by simpa using hn), List.nil_append]
  have hsome : ∀ k t, (k, Dist.link t) ∈ p.keys.zip p.dists →
      (lookup (baseVals p.keys p.dists u) t).isSome = true := by
    intro k t hm
    obtain ⟨i, _, hdi⟩ := getElem?_of_mem_zip hm
    obtain ⟨j, _, hkj, d', hd', hdl'⟩ := hlk i t hdi
    apply lookup_isSome_of_mem_keys
    rw [hkeys]
    exact mem_nlKeys (mem_zip_of_getElem? hkj hd') hdl'
  obtain ⟨Y, hY, hYk, hYl⟩ := dictLoop2_spec (baseVals p.keys p.dists u) p.keys p.dists
    (baseVals p.keys p.dists u) ⟨[], by simp⟩ hsome (by rw [hkeys]; exact hperm.nodup_iff.mpr hn)
  refine ⟨Y, hY, ?_, hYl⟩
  rw [List.map_append, hkeys, hYk]; exact hperm

theorem dict_of_ok {p : Prior} {u : List Rat} {d : List (String × Rat)}
    (hd : unitToDictionary p u = .ok d) :
    u.length = dimensionality p ∧
    dictLoop2 p.keys p.dists (dictLoop1 p.keys p.dists (physLoop p.dists u) []) = some d := by
  unfold unitToDictionary unitToPhysical at hd
  by_cases h : dimensionality p = u.length
  · rw [if_neg (not_not.mpr h)] at hd
    simp only [physicalToDictionary] at hd
    split_ifs at hd
    split at hd
    · cases hd
    · rename_i d' hd'
      cases hd
      exact ⟨h.symm, hd'⟩
  · rw [if_pos h] at hd; cases hd

theorem dict_ok {p : Prior} {u : List Rat} {d : List (String × Rat)}
    (h : u.length = dimensionality p) (hpos : 0 < u.length)
    (hd : dictLoop2 p.keys p.dists (dictLoop1 p.keys p.dists (physLoop p.dists u) []) = some d) :
    unitToDictionary p u = .ok d := by
  have hlen : (physLoop p.dists u).length = dimensionality p := physLoop_length p.dists u h
  have hne : (physLoop p.dists u).isEmpty = false := by
    cases hph : physLoop p.dists u with
    | nil => rw [hph] at hlen; simp at hlen; omega
    | cons _ _ => rfl
  unfold unitToDictionary unitToPhysical
  rw [if_neg (not_not.mpr h.symm)]
  simp only [physicalToDictionary]
  rw [if_neg (not_not.mpr hlen.symm), hne, hd]
  simp

theorem link_value_wf {p : Prior} (hp : WF p) (u : List Rat)
    (d : List (String × Rat)) (hd : unitToDictionary p u = .ok d) (k t : String)
    (hm : (k, Dist.link t) ∈ p.keys.zip p.dists) :
    lookup d k = lookup d t ∧ (lookup d t).isSome := by
  obtain ⟨h, hd'⟩ := dict_of_ok hd
  obtain ⟨Y, hY, hperm, hYl⟩ := loops_spec hp u h
  rw [hY] at hd'; cases hd'
  obtain ⟨v, hv, hmem⟩ := hYl k t hm
  have hnd : ((baseVals p.keys p.dists u ++ Y).map (·.1)).Nodup := hperm.nodup_iff.mpr hp.1
  have h1 : lookup (baseVals p.keys p.dists u ++ Y) t = some v := lookup_append_of_some hv
  have h2 : lookup (baseVals p.keys p.dists u ++ Y) k = some v :=
    lookup_eq_some_of_mem hnd (List.mem_append_right _ hmem)
  rw [h1, h2]; exact ⟨rfl, rfl⟩

theorem link_value (ops : List (KeyArg × DistArg)) (u : List Rat)
    (h : u.length = dimensionality (exec {} ops))
    (d : List (String × Rat)) (hd : unitToDictionary (exec {} ops) u = .ok d) (i : Nat) (k t : String)
    (hk : (exec {} ops).keys[i]? = some k) (ht : (exec {} ops).dists[i]? = some (Dist.link t)) :
    lookup d k = lookup d t ∧ (lookup d t).isSome := by
  have _ := h   -- implied by `hd`; kept because the statement is fixed
  exact link_value_wf (wf_exec wf_empty ops) u d hd k t (mem_zip_of_getElem? hk ht)


/-! ### the reference interpreter -/
def EvalOK (ks : List String) (ds : List Dist) (us : List Rat) (acc E : List (String × Rat)) : Prop :=
  E.map (·.1) = acc.map (·.1) ++ ks ∧
  (∃ X, E = acc ++ X) ∧
  (∀ kv ∈ baseVals ks ds us, kv ∈ E) ∧
  (∀ k t, (k, Dist.link t) ∈ ks.zip ds → lookup E k = lookup E t ∧ (lookup E t).isSome = true)

theorem evalOK_step {k : String} {ks : List String} {d : Dist} {ds : List Dist} {us us' : List Rat}
    {acc E : List (String × Rat)} {v : Rat}
    (IH : EvalOK ks ds us' (acc ++ [(k, v)]) E)
    (hB : ∀ kv ∈ baseVals (k :: ks) (d :: ds) us, kv = (k, v) ∨ kv ∈ baseVals ks ds us')
    (hL : ∀ t, d = Dist.link t → lookup acc t = some v)
    (hn : (acc.map (·.1) ++ k :: ks).Nodup) :
    EvalOK (k :: ks) (d :: ds) us acc E := by
  obtain ⟨hk, ⟨X, hX⟩, hb, hlk⟩ := IH
  have hkeys : E.map (·.1) = acc.map (·.1) ++ k :: ks := by rw [hk]; simp
  have hmem : (k, v) ∈ E := by rw [hX]; simp
  refine ⟨hkeys, ⟨(k, v) :: X, by rw [hX]; simp⟩, ?_, ?_⟩
  · intro kv hkv
    rcases hB kv hkv with rfl | h
    · exact hmem
    · exact hb kv h
  · intro k' t' h
    simp only [List.zip_cons_cons, List.mem_cons] at h
    rcases h with h | h
    · cases h
      have h1 : lookup E k = some v := lookup_eq_some_of_mem (by rw [hkeys]; exact hn) hmem
      have h2 : lookup E t' = some v := by
        rw [hX, List.append_assoc]; exact lookup_append_of_some (hL t' rfl)
      rw [h1, h2]; exact ⟨rfl, rfl⟩
    · exact hlk k' t' h

theorem earlier_shift {k : String} {ks : List String} {d : Dist} {ds : List Dist} {S : List String}
    (he : ∀ (i : Nat) (t : String), (d :: ds)[i]? = some (Dist.link t) →
      t ∈ S ∨ ∃ j : Nat, j < i ∧ (k :: ks)[j]? = some t) :
    ∀ (i : Nat) (t : String), ds[i]? = some (Dist.link t) → t ∈ S ++ [k] ∨ ∃ j : Nat, j < i ∧ ks[j]? = some t := by
  intro i t hi
  rcases he (i + 1) t (by simpa using hi) with h | ⟨j, hj, hkj⟩
  · left; simp [h]
  · cases j with
    | zero => left; simp at hkj; simp [hkj]
    | succ j => right; exact ⟨j, by omega, by simpa using hkj⟩

theorem eval_spec (ks : List String) (ds : List Dist) (us : List Rat) (acc : List (String × Rat))
    (hl : ks.length = ds.length) (hu : us.length = (ds.filter Dist.isFree).length)
    (hn : (acc.map (·.1) ++ ks).Nodup)
    (he : ∀ (i : Nat) (t : String), ds[i]? = some (Dist.link t) →
      t ∈ acc.map (·.1) ∨ ∃ j : Nat, j < i ∧ ks[j]? = some t) :
    EvalOK ks ds us acc (Spec.eval (toDecls ks ds) us acc) := by
  induction ks generalizing ds us acc with
  | nil =>
    cases ds with
    | nil => exact ⟨by simp [toDecls, Spec.eval], ⟨[], by simp [toDecls, Spec.eval]⟩, by simp [baseVals], by simp⟩
    | cons _ _ => simp at hl
  | cons k ks ih =>
    cases ds with
    | nil => simp at hl
    | cons d ds =>
      have hl' : ks.length = ds.length := by simpa using hl
      have hn' : ∀ v : Rat, ((acc ++ [(k, v)]).map (·.1) ++ ks).Nodup := by
        intro v; simpa [List.append_assoc] using hn
      have he' : ∀ v : Rat, ∀ (i : Nat) (t : String), ds[i]? = some (Dist.link t) →
          t ∈ (acc ++ [(k, v)]).map (·.1) ∨ ∃ j : Nat, j < i ∧ ks[j]? = some t := by
        intro v i t hi
        have := earlier_shift he i t hi
        simpa using this
      cases d with
      | free a b =>
        cases us with
        | nil => simp [List.filter, Dist.isFree] at hu
        | cons x us =>
          simp [List.filter, Dist.isFree] at hu
          simp only [toDecls, Spec.eval]
          refine evalOK_step (v := a + b * x) (us' := us) (ih ds us _ hl' hu (hn' _) (he' _)) ?_ ?_ hn
          · intro kv hkv; simpa [baseVals] using hkv
          · intro t ht; cases ht
      | fixed v =>
        simp [List.filter, Dist.isFree] at hu
        simp only [toDecls, Spec.eval]
        refine evalOK_step (v := v) (us' := us) (ih ds us _ hl' hu (hn' _) (he' _)) ?_ ?_ hn
        · intro kv hkv; simpa [baseVals] using hkv
        · intro t ht; cases ht
      | link t =>
        simp [List.filter, Dist.isFree] at hu
        have htm : t ∈ acc.map (·.1) := by
          rcases he 0 t (by simp) with h | ⟨j, hj, _⟩
          · exact h
          · omega
        obtain ⟨v, hv⟩ := Option.isSome_iff_exists.mp (lookup_isSome_of_mem_keys htm)
        simp only [toDecls, Spec.eval, hv]
        refine evalOK_step (v := v) (us' := us) (ih ds us _ hl' hu (hn' _) (he' _)) ?_ ?_ hn
        · intro kv hkv; right; simpa [baseVals] using hkv
        · intro t' ht; cases ht; exact hv

theorem dict_spec_wf {p : Prior} (hp : WF p) (u : List Rat)
    (h : u.length = dimensionality p) (hpos : 0 < u.length) :
    ∃ d, unitToDictionary p u = .ok d ∧ (d.map (·.1)).Perm p.keys ∧
      ∀ k, lookup d k = lookup (Spec.eval (toDecls p.keys p.dists) u []) k := by
  obtain ⟨Y, hY, hperm, hYl⟩ := loops_spec hp u h
  have hlv := fun k t => link_value_wf hp u _ (dict_ok h hpos hY) k t
  obtain ⟨hn, hl, hlk⟩ := hp
  refine ⟨_, dict_ok h hpos hY, hperm, ?_⟩
  obtain ⟨hEk, _, hEb, hEl⟩ := eval_spec p.keys p.dists u [] hl h (by simpa using hn)
    (fun i t hi => by
      obtain ⟨j, hj, hkj, _⟩ := hlk i t hi
      exact Or.inr ⟨j, hj, hkj⟩)
  generalize Spec.eval (toDecls p.keys p.dists) u [] = E at hEk hEb hEl
  generalize hd : baseVals p.keys p.dists u ++ Y = d at hperm hlv
  simp only [List.map_nil, List.nil_append] at hEk
  have hdn : (d.map (·.1)).Nodup := hperm.nodup_iff.mpr hn
  have hEn : (E.map (·.1)).Nodup := by rw [hEk]; exact hn
  have hkeys := baseVals_keys p.keys p.dists u h
  -- non-link keys agree
  have hnl : ∀ (k : String) (dd : Dist), (k, dd) ∈ p.keys.zip p.dists → dd.isLink = false →
      lookup d k = lookup E k := by
    intro k dd hm hdd
    have : k ∈ (baseVals p.keys p.dists u).map (·.1) := by rw [hkeys]; exact mem_nlKeys hm hdd
    obtain ⟨⟨k', v⟩, hkv, rfl⟩ := List.mem_map.mp this
    rw [lookup_eq_some_of_mem hdn (by rw [← hd]; exact List.mem_append_left _ hkv),
      lookup_eq_some_of_mem hEn (hEb _ hkv)]
  intro k
  by_cases hk : k ∈ p.keys
  · obtain ⟨i, hi⟩ := List.mem_iff_getElem?.mp hk
    have hil : i < p.dists.length := by
      rw [← hl]; exact (List.getElem?_eq_some_iff.mp hi).1
    have hdi : p.dists[i]? = some p.dists[i] := List.getElem?_eq_getElem hil
    cases hdd : p.dists[i] with
    | link t =>
      rw [hdd] at hdi
      have hm := mem_zip_of_getElem? hi hdi
      obtain ⟨j, _, hkj, d', hd', hdl'⟩ := hlk i t hdi
      rw [(hlv k t hm).1, (hEl k t hm).1]
      exact hnl t d' (mem_zip_of_getElem? hkj hd') hdl'
    | free a b =>
      rw [hdd] at hdi
      exact hnl k _ (mem_zip_of_getElem? hi hdi) rfl
    | fixed v =>
      rw [hdd] at hdi
      exact hnl k _ (mem_zip_of_getElem? hi hdi) rfl
  · rw [lookup_eq_none (d := d), lookup_eq_none (d := E)]
    · rw [hEk]; exact hk
    · exact fun hm => hk (hperm.mem_iff.mp hm)

theorem dict_spec (ops : List (KeyArg × DistArg)) (u : List Rat)
    (h : u.length = dimensionality (exec {} ops)) (hpos : 0 < u.length) :
    ∃ d, unitToDictionary (exec {} ops) u = .ok d ∧ (d.map (·.1)).Perm (exec {} ops).keys ∧
      ∀ k, lookup d k = lookup (Spec.eval (toDecls (exec {} ops).keys (exec {} ops).dists) u []) k :=
  dict_spec_wf (wf_exec wf_empty ops) u h hpos

end NautilusVerif.PriorModel

#print axioms NautilusVerif.PriorModel.add_atomic
#print axioms NautilusVerif.PriorModel.exec_wf
#print axioms NautilusVerif.PriorModel.dim_step
#print axioms NautilusVerif.PriorModel.physical_spec
#print axioms NautilusVerif.PriorModel.dict_spec
#print axioms NautilusVerif.PriorModel.link_value
#print axioms NautilusVerif.PriorModel.add_rejects
#print axioms NautilusVerif.PriorModel.add_no_indexError
#print axioms NautilusVerif.PriorModel.range_shape
