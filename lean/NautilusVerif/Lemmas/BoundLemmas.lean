/- Lemmas for C07 (statements fixed by Properties/C07.lean): algebra of bound classes. -/
import NautilusVerif.Model.BoundAlg
import Mathlib.Data.List.Basic
import Mathlib.Tactic.Linarith
namespace NautilusVerif.BoundAlg

theorem containsAny_nil (L : Leaves) (p : Pt) : containsAny L [] p = false := by
  simp only [containsAny]

theorem containsAny_cons (L : Leaves) (b : Bd) (bs : List Bd) (p : Pt) :
    containsAny L (b :: bs) p = (contains L b p || containsAny L bs p) := by
  simp only [containsAny]

theorem contains_union (L : Leaves) (ms : List Bd) (unit : Bool) (p : Pt) :
    contains L (.union ms unit) p = (containsAny L ms p && (!unit || L.cube p)) := by
  simp only [contains]

theorem contains_neural_ell (L : Leaves) (o : Nat) (n : Option Nat) (p : Pt)
    (h : contains L (.neural o n) p = true) : L.ell o p = true := by
  simp only [contains, Bool.and_eq_true] at h
  exact h.1

theorem contains_nautilus (L : Leaves) (s : Bool) (o : Bd) (ns : List Bd) (p : Pt) :
    contains L (.nautilus s o ns) p =
      (contains L o (if s then L.sh p else p) &&
        (ns.isEmpty || containsAny L ns (if s then L.sh p else p))) := by
  simp only [contains]

theorem containsAny_iff (L : Leaves) (ms : List Bd) (p : Pt) :
    containsAny L ms p = true ↔ ∃ b ∈ ms, contains L b p = true := by
  induction ms with
  | nil => simp [containsAny_nil]
  | cons b bs ih =>
    rw [containsAny_cons, Bool.or_eq_true, ih]
    simp

mutual
  theorem sampled_contains_aux (L : Leaves) (hinv : ∀ q, L.sh (L.unsh q) = q) :
      ∀ (b : Bd) (p : Pt), Sampled L b p → contains L b p = true
    | _, _, .cube p h => by simpa only [contains] using h
    | _, _, .ell e p h => by simpa only [contains] using h
    | _, _, .mix e hc he p h1 h2 => by
      simp only [contains]
      cases hc <;> cases he <;> simp_all
    | _, _, .union ms unit p h1 h2 => by
      rw [contains_union, Bool.and_eq_true]
      refine ⟨sampledAny_containsAny_aux L hinv ms p h1, ?_⟩
      cases unit
      · rfl
      · simpa using h2 rfl
    | _, _, .nautilus s o ns q h1 h2 => by
      have ih := sampled_contains_aux L hinv o q h1
      rw [contains_nautilus]
      have hq : (if s = true then L.sh (if s = true then L.unsh q else q)
          else (if s = true then L.unsh q else q)) = q := by
        cases s
        · rfl
        · simp [hinv]
      rw [hq, Bool.and_eq_true, Bool.or_eq_true]
      exact ⟨ih, h2⟩
  theorem sampledAny_containsAny_aux (L : Leaves) (hinv : ∀ q, L.sh (L.unsh q) = q) :
      ∀ (bs : List Bd) (p : Pt), SampledAny L bs p → containsAny L bs p = true
    | _, _, .here b bs p h => by
      rw [containsAny_cons, Bool.or_eq_true]
      exact Or.inl (sampled_contains_aux L hinv b p h)
    | _, _, .there b bs p h => by
      rw [containsAny_cons, Bool.or_eq_true]
      exact Or.inr (sampledAny_containsAny_aux L hinv bs p h)
end

/-- every point `sample` can return satisfies `contains` of the same bound (all classes, any nesting), given that
    the phase shift is undone by its inverse on the points that are sampled (C16) -/
theorem sampled_contains (L : Leaves) (hinv : ∀ q, L.sh (L.unsh q) = q) (b : Bd) (p : Pt) (h : Sampled L b p) :
    contains L b p = true :=
  sampled_contains_aux L hinv b p h

/-- a union restricted to the unit cube only returns points of the cube -/
theorem sampled_union_unit (L : Leaves) (ms : List Bd) (p : Pt) (h : Sampled L (.union ms true) p) :
    L.cube p = true := by
  cases h with
  | union _ _ _ h1 h2 => exact h2 rfl

/-- ... and so does a nautilus bound whose outer bound is restricted to the cube, with or without a phase shift
    (the inverse shift maps the cube into the cube, C16) -/
theorem sampled_nautilus_unit (L : Leaves) (hcube : ∀ q, L.cube q = true → L.cube (L.unsh q) = true) (s : Bool)
    (ms ns : List Bd) (p : Pt) (h : Sampled L (.nautilus s (.union ms true) ns) p) : L.cube p = true := by
  cases h with
  | nautilus _ _ _ q h1 h2 =>
    have hq := sampled_union_unit L ms q h1
    cases s
    · simpa using hq
    · simpa using hcube q hq

/-- a neural bound never contains a point outside its outer ellipsoid; a nautilus bound never contains a point
    whose (shifted) image is outside its outer bound -/
theorem inner_outer (L : Leaves) (o : Nat) (n : Option Nat) (s : Bool) (ob : Bd) (ns : List Bd) (p : Pt) :
    (contains L (.neural o n) p = true → L.ell o p = true) ∧
    (contains L (.nautilus s ob ns) p = true → contains L ob (if s then L.sh p else p) = true) := by
  constructor
  · intro h
    exact contains_neural_ell L o n p h
  · intro h
    rw [contains_nautilus, Bool.and_eq_true] at h
    exact h.1

/-- if every member contains the points it was built from (and they lie in the cube when the union is restricted to
    it), the union contains all of them — whatever the grouping of the points into members is -/
theorem union_encloses (L : Leaves) (mp : List (Bd × List Pt)) (unit : Bool)
    (h : ∀ bp ∈ mp, ∀ p ∈ bp.2, contains L bp.1 p = true)
    (hc : unit = true → ∀ bp ∈ mp, ∀ p ∈ bp.2, L.cube p = true) :
    ∀ bp ∈ mp, ∀ p ∈ bp.2, contains L (.union (mp.map (·.1)) unit) p = true := by
  intro bp hbp p hp
  rw [contains_union, Bool.and_eq_true]
  constructor
  · rw [containsAny_iff]
    exact ⟨bp.1, List.mem_map.mpr ⟨bp, hbp, rfl⟩, h bp hbp p hp⟩
  · cases unit
    · rfl
    · simpa using hc rfl bp hbp p hp

end NautilusVerif.BoundAlg

#print axioms NautilusVerif.BoundAlg.containsAny_iff
#print axioms NautilusVerif.BoundAlg.sampled_contains
#print axioms NautilusVerif.BoundAlg.sampled_union_unit
#print axioms NautilusVerif.BoundAlg.sampled_nautilus_unit
#print axioms NautilusVerif.BoundAlg.inner_outer
#print axioms NautilusVerif.BoundAlg.union_encloses
