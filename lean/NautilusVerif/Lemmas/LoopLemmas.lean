/- Lemmas about `Loop.runFuel` (statements fixed by Properties/C05.lean and Properties/C10Run.lean). -/
import NautilusVerif.Model.Loop
import Mathlib.Tactic.Linarith
namespace NautilusVerif.Loop

variable {σ : Type} (step : σ → σ) (cost : σ → Nat) (done : σ → Bool)

theorem runFuel_zero (m : Nat) (s : σ) : runFuel step cost done m 0 s = s := rfl

theorem runFuel_succ (m f : Nat) (s : σ) :
    runFuel step cost done m (f + 1) s =
      if guard cost done m s then runFuel step cost done m f (step s) else s := rfl

theorem runFuel_of_guard_false (m f : Nat) (s : σ) (h : guard cost done m s = false) :
    runFuel step cost done m f s = s := by
  cases f with
  | zero => rfl
  | succ f => rw [runFuel_succ, h]; rfl

theorem guard_mono {m₁ m₂ : Nat} (hm : m₁ ≤ m₂) (s : σ) (h : guard cost done m₁ s = true) :
    guard cost done m₂ s = true := by
  unfold guard at *
  simp only [Bool.and_eq_true, decide_eq_true_eq] at *
  exact ⟨by omega, h.2⟩

theorem guard_false_iff (m : Nat) (s : σ) :
    guard cost done m s = false ↔ (done s = true ∨ m ≤ cost s) := by
  unfold guard
  cases hd : done s <;> simp

/-- no new batch once the total has reached the limit -/
theorem run_no_batch (m f : Nat) (s : σ) (h : m ≤ cost s) : runFuel step cost done m f s = s :=
  runFuel_of_guard_false step cost done m f s ((guard_false_iff cost done m s).2 (Or.inr h))

/-- nothing happens once the run is successful -/
theorem run_done (m f : Nat) (s : σ) (h : done s = true) : runFuel step cost done m f s = s :=
  runFuel_of_guard_false step cost done m f s ((guard_false_iff cost done m s).2 (Or.inl h))

/-- more fuel does not change a run that has stopped -/
theorem fuel_irrelevant (m f f' : Nat) (s : σ) (h : Stops step cost done m f s) (hf : f ≤ f') :
    runFuel step cost done m f' s = runFuel step cost done m f s := by
  induction f generalizing s f' with
  | zero =>
    unfold Stops at h
    rw [runFuel_zero] at h
    rw [runFuel_zero, runFuel_of_guard_false step cost done m f' s h]
  | succ f ih =>
    obtain ⟨g, rfl⟩ : ∃ g, f' = g + 1 := ⟨f' - 1, by omega⟩
    unfold Stops at h
    rw [runFuel_succ] at h ⊢
    rw [runFuel_succ]
    cases hg : guard cost done m s with
    | false => simp
    | true =>
      rw [hg] at h
      simp only [if_true] at h ⊢
      exact ih g (step s) h (by omega)

/-- cutting a computation into two `run()` calls with limits `m₁ ≤ m₂` gives the state of one call with `m₂` -/
theorem slices (m₁ m₂ f₁ f₂ : Nat) (s : σ) (hm : m₁ ≤ m₂) (h1 : Stops step cost done m₁ f₁ s)
    (h2 : Stops step cost done m₂ f₂ (runFuel step cost done m₁ f₁ s)) :
    runFuel step cost done m₂ (f₁ + f₂) s = runFuel step cost done m₂ f₂ (runFuel step cost done m₁ f₁ s) ∧
    Stops step cost done m₂ (f₁ + f₂) s := by
  have key : runFuel step cost done m₂ (f₁ + f₂) s =
      runFuel step cost done m₂ f₂ (runFuel step cost done m₁ f₁ s) := by
    clear h1
    induction f₁ generalizing s with
    | zero => rw [runFuel_zero, Nat.zero_add]
    | succ f₁ ih =>
      cases hg : guard cost done m₁ s with
      | false =>
        rw [runFuel_of_guard_false step cost done m₁ (f₁ + 1) s hg] at h2 ⊢
        exact fuel_irrelevant step cost done m₂ f₂ (f₁ + 1 + f₂) s h2 (by omega)
      | true =>
        have hg2 := guard_mono cost done hm s hg
        rw [runFuel_succ, hg] at h2 ⊢
        simp only [if_true] at h2 ⊢
        rw [show f₁ + 1 + f₂ = (f₁ + f₂) + 1 by omega, runFuel_succ, hg2]
        simp only [if_true]
        exact ih (step s) h2
  refine ⟨key, ?_⟩
  unfold Stops at h2 ⊢
  rw [key]; exact h2

/-- stopping after any number `n` of iterations (a timeout, a kill at a batch boundary followed by a faithful
    resume) and continuing gives the same state as not stopping -/
theorem stop_anywhere (m n f : Nat) (s : σ) (hn : ∀ k, k < n → guard cost done m (iter step k s) = true) :
    runFuel step cost done m (n + f) s = runFuel step cost done m f (iter step n s) := by
  induction n generalizing s with
  | zero => rw [Nat.zero_add]; rfl
  | succ n ih =>
    have h0 : guard cost done m s = true := hn 0 (by omega)
    rw [show n + 1 + f = (n + f) + 1 by omega, runFuel_succ, h0]
    simp only [if_true]
    exact ih (step s) (fun k hk => hn (k + 1) (by omega))

/-- a run with a smaller limit performs `j ≤ fx` iterations, each of which the `m`-run also performs -/
theorem prefix_run (x m fx : Nat) (hx : x ≤ m) (s : σ) :
    ∃ j, j ≤ fx ∧ ∀ G, runFuel step cost done m (j + G) s =
      runFuel step cost done m G (runFuel step cost done x fx s) := by
  induction fx generalizing s with
  | zero => exact ⟨0, Nat.le_refl _, fun G => by rw [Nat.zero_add, runFuel_zero]⟩
  | succ fx ih =>
    cases hg : guard cost done x s with
    | false =>
      refine ⟨0, by omega, fun G => ?_⟩
      rw [Nat.zero_add, runFuel_of_guard_false step cost done x (fx + 1) s hg]
    | true =>
      have hg2 := guard_mono cost done hx s hg
      obtain ⟨j, hj, hJ⟩ := ih (step s)
      refine ⟨j + 1, by omega, fun G => ?_⟩
      rw [show j + 1 + G = (j + G) + 1 by omega, runFuel_succ, hg2, runFuel_succ, hg]
      simp only [if_true]
      exact hJ G

/-- a chain of limits: any sequence of increasing limits followed by a final one -/
theorem slices_chain (ms : List Nat) (m : Nat) (fs : List Nat) (f : Nat) (s : σ)
    (hle : ∀ x ∈ ms, x ≤ m) :
    ∃ s' : σ, s' = (List.zip ms fs).foldl (fun s (mf : Nat × Nat) => runFuel step cost done mf.1 mf.2 s) s ∧
      (Stops step cost done m f s' → ∀ F, (fs.sum + f) ≤ F →
        runFuel step cost done m F s = runFuel step cost done m f s') := by
  refine ⟨_, rfl, ?_⟩
  induction ms generalizing fs s with
  | nil =>
    intro h F hF
    simp only [List.zip_nil_left, List.foldl_nil] at h ⊢
    exact fuel_irrelevant step cost done m f F s h (by omega)
  | cons x ms ih =>
    cases fs with
    | nil =>
      intro h F hF
      simp only [List.zip_nil_right, List.foldl_nil] at h ⊢
      exact fuel_irrelevant step cost done m f F s h (by simpa using hF)
    | cons fx fs =>
      intro h F hF
      simp only [List.zip_cons_cons, List.foldl_cons, List.sum_cons] at h hF ⊢
      have hx : x ≤ m := hle x (by simp)
      obtain ⟨j, hj, hJ⟩ := prefix_run step cost done x m fx hx s
      have := ih fs (runFuel step cost done x fx s) (fun y hy => hle y (by simp [hy])) h (F - j) (by omega)
      rw [← this, ← hJ (F - j)]
      congr 1
      omega

/-- budget: if an iteration adds at most `b` to the count, a run that starts below `m + b` stays below `m + b`;
    in particular the limit is never exceeded by a full batch -/
theorem run_budget (m f b : Nat) (s : σ) (hb : ∀ s, cost (step s) ≤ cost s + b) (hs : cost s < m + b) :
    cost (runFuel step cost done m f s) < m + b := by
  induction f generalizing s with
  | zero => exact hs
  | succ f ih =>
    rw [runFuel_succ]
    cases hg : guard cost done m s with
    | false => simpa using hs
    | true =>
      simp only [if_true]
      apply ih
      have : cost s < m := by
        unfold guard at hg
        simp only [Bool.and_eq_true, decide_eq_true_eq] at hg
        exact hg.1
      have := hb s
      omega

/-- when the run stops, it is successful or the budget is used up; the value `run()` returns is `done` of the
    final state -/
theorem run_result (m f : Nat) (s : σ) (h : Stops step cost done m f s) :
    done (runFuel step cost done m f s) = true ∨ m ≤ cost (runFuel step cost done m f s) :=
  (guard_false_iff cost done m _).1 h

end NautilusVerif.Loop

#print axioms NautilusVerif.Loop.run_no_batch
#print axioms NautilusVerif.Loop.run_done
#print axioms NautilusVerif.Loop.fuel_irrelevant
#print axioms NautilusVerif.Loop.slices
#print axioms NautilusVerif.Loop.stop_anywhere
#print axioms NautilusVerif.Loop.slices_chain
#print axioms NautilusVerif.Loop.run_budget
#print axioms NautilusVerif.Loop.run_result
