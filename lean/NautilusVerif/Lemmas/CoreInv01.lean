/- C01: the shell-membership invariant of the `Core` state machine (statements fixed by Properties/C01.lean). -/
import NautilusVerif.Lemmas.CoreWF
import Mathlib.Data.List.Basic
import Mathlib.Data.List.Nodup
import Mathlib.Data.List.Flatten
import Mathlib.Data.List.Induction
import Mathlib.Data.List.Perm.Basic
import Mathlib.Tactic.Linarith
namespace NautilusVerif.Core

/-! ### generic list lemmas -/

theorem maskKeep_self (env : Env) (b : BId) (l : List Pt) (keep : Bool) :
    maskKeep env b l l keep = l.filter (fun p => env.contains b p == keep) := by
  unfold maskKeep
  induction l with
  | nil => rfl
  | cons x xs ih =>
    simp only [List.zip_cons_cons, List.filter_cons]
    by_cases h : (env.contains b x == keep) = true
    · simp [h, ih]
    · simp [h, ih]

theorem map_zipIdx_proj {α β : Type _} (l : List α) (k : Nat) (g : α × Nat → α) (h : α → β)
    (hg : ∀ a i, h (g (a, i)) = h a) : ((l.zipIdx k).map g).map h = l.map h := by
  induction l generalizing k with
  | nil => rfl
  | cons x xs ih => simp [hg, ih]

theorem forall_mem_modify {α : Type _} (P : α → Prop) (f : α → α) (hf : ∀ a, P a → P (f a)) :
    ∀ (l : List α) (i : Nat), (∀ a ∈ l, P a) → ∀ a ∈ l.modify i f, P a
  | [], i, _ => by simp
  | x :: xs, 0, h => by
    simp only [List.modify_zero_cons, List.forall_mem_cons] at h ⊢
    exact ⟨hf _ h.1, h.2⟩
  | x :: xs, i+1, h => by
    simp only [List.modify_succ_cons, List.forall_mem_cons] at h ⊢
    exact ⟨h.1, forall_mem_modify P f hf xs i h.2⟩

theorem map_modify_proj {α β : Type _} (h : α → β) (f : α → α) (g : β → β) (hfg : ∀ a, h (f a) = g (h a)) :
    ∀ (l : List α) (i : Nat), (l.modify i f).map h = (l.map h).modify i g
  | [], i => by simp
  | x :: xs, 0 => by simp [hfg]
  | x :: xs, i+1 => by simp [map_modify_proj h f g hfg xs i]

/-! ### the view of a state that C01 talks about -/

def view (l : List Shell) : List (BId × List Pt) := l.map (fun sh => (sh.bound, sh.pts))

def Good (env : Env) (l : List (BId × List Pt)) : Prop :=
  (∀ x ∈ l, ∀ p ∈ x.2, env.inCube p = true ∧ env.contains x.1 p = true) ∧
  l.Pairwise (fun a c => ∀ p ∈ a.2, env.contains c.1 p = false)

theorem bounds_eq (s : St) : bounds s = (view s.shells).map Prod.fst := by
  simp [bounds, view, Function.comp_def]

theorem allStored_eq (s : St) : allStored s = ((view s.shells).map Prod.snd).flatten := by
  simp [allStored, view, Function.comp_def]

theorem inShells_iff_aux (env : Env) (l : List Shell) :
    (∀ shi ∈ l.zipIdx, ∀ p ∈ shi.1.pts, env.inCube p = true ∧ env.contains shi.1.bound p = true ∧
      ∀ b ∈ (l.map (·.bound)).drop (shi.2 + 1), env.contains b p = false) ↔ Good env (view l) := by
  induction l with
  | nil => simp [Good, view]
  | cons x xs ih =>
    rw [List.zipIdx_cons']
    simp only [List.forall_mem_cons, List.forall_mem_map, Prod.map, id, List.map_cons, List.drop_succ_cons,
      List.drop_zero]
    rw [ih]
    simp only [Good, view, List.map_cons, List.forall_mem_cons, List.pairwise_cons, List.forall_mem_map]
    constructor
    · rintro ⟨h1, h2, h3⟩
      exact ⟨⟨fun p hp => ⟨(h1 p hp).1, (h1 p hp).2.1⟩, h2⟩, fun c hc p hp => (h1 p hp).2.2 c hc, h3⟩
    · rintro ⟨⟨h1, h2⟩, h3, h4⟩
      exact ⟨fun p hp => ⟨(h1 p hp).1, (h1 p hp).2, fun c hc => h3 c hc p hp⟩, h2, h4⟩

theorem inShells_iff (env : Env) (s : St) : InShells env s ↔ Good env (view s.shells) :=
  inShells_iff_aux env s.shells

/-! ### alignment (C03) -/

theorem aligned_init (nBatch : Nat) : Aligned (init nBatch) := by
  simp [Aligned, init]

theorem forall_mem_map_zipIdx {α : Type _} (P : α → Prop) (l : List α) (k : Nat) (g : α × Nat → α)
    (hg : ∀ a i, P a → P (g (a, i))) (h : ∀ a ∈ l, P a) : ∀ a ∈ (l.zipIdx k).map g, P a := by
  intro a ha
  obtain ⟨⟨a0, i⟩, hm, rfl⟩ := List.mem_map.1 ha
  have : a0 ∈ l := by
    have := List.mem_map_of_mem (f := Prod.fst) hm
    rwa [List.zipIdx_map_fst] at this
  exact hg a0 i (h a0 this)

theorem length_flatten_replicate {α : Type _} (l : List α) (k : Nat) (f : α → List Pt) (g : Nat → Int) :
    (((l.zipIdx k).map (fun ai => List.replicate (f ai.1).length (g ai.2))).flatten).length
      = ((l.map f).flatten).length := by
  induction l generalizing k with
  | nil => rfl
  | cons x xs ih =>
    simp only [List.zipIdx_cons, List.map_cons, List.flatten_cons, List.length_append, List.length_replicate, ih]

theorem aligned_setDiscard (s : St) (b : Bool) (h : Aligned s) : Aligned (setDiscard s b) := by
  obtain ⟨h1, h2, h3, h4⟩ := h
  refine ⟨?_, h2, h3, h4⟩
  simp only [setDiscard, updateAll, List.forall_mem_map]
  intro sh hsh
  exact h1 sh hsh

theorem aligned_endExploration (s : St) (b : Bool) (h : Aligned s) : Aligned (endExploration s b) := by
  obtain ⟨h1, h2, h3, h4⟩ := h
  unfold endExploration
  apply aligned_setDiscard
  refine ⟨?_, h2, h3, h4⟩
  simp only [List.forall_mem_map]
  intro sh hsh
  exact h1 sh (List.mem_filter.1 hsh).1

theorem aligned_addBoundOk (env : Env) (s : St) (b : BId) (h : Aligned s) : Aligned (addBoundOk env s b) := by
  obtain ⟨h1, h2, h3, h4⟩ := h
  simp only [addBoundOk]
  split
  · refine ⟨?_, h2, h3, h4⟩
    simp only [List.forall_mem_append, List.mem_singleton, forall_eq]
    exact ⟨h1, trivial, trivial⟩
  · refine ⟨?_, ?_, ?_, ?_⟩
    · apply forall_mem_map_zipIdx (fun sh : Shell => sh.ls = sh.pts ∧ sh.bs = sh.pts)
      · intro a i ha
        dsimp only
        split <;> exact ha
      · simp only [List.forall_mem_append, List.mem_singleton, forall_eq, List.forall_mem_map]
        refine ⟨fun sh hsh => ?_, trivial, trivial⟩
        rw [(h1 sh hsh).1, (h1 sh hsh).2]
        exact ⟨rfl, rfl⟩
    · dsimp only
      congr 1
      apply List.map_congr_left
      intro sh hsh
      rw [(h1 sh hsh).1]
    · dsimp only
      congr 1
      apply List.map_congr_left
      intro sh hsh
      rw [(h1 sh hsh).2]
    · dsimp only
      exact length_flatten_replicate s.shells 0 (fun sh => maskKeep env b sh.pts sh.pts true) (fun i => (i : Int))

/-! ### what `transferLoop` / `sampleRounds` do to the transfer bookkeeping -/

def mark (P : List Nat) (l : List Int) : List Int :=
  (l.zipIdx).map (fun (ti : Int × Nat) => if P.contains ti.2 then (-1 : Int) else ti.1)

theorem getElem?_mark (P : List Nat) (l : List Int) (i : Nat) :
    (mark P l)[i]? = (l[i]?).map (fun t => if P.contains i then (-1 : Int) else t) := by
  simp only [mark, List.getElem?_map, List.getElem?_zipIdx, Nat.zero_add]
  cases l[i]? <;> simp

@[simp] theorem length_mark (P : List Nat) (l : List Int) : (mark P l).length = l.length := by
  simp [mark]

theorem mark_nil (l : List Int) : mark [] l = l := by
  apply List.ext_getElem?
  intro i
  rw [getElem?_mark]
  cases l[i]? <;> simp

theorem mark_mark (P Q : List Nat) (l : List Int) : mark Q (mark P l) = mark (P ++ Q) l := by
  apply List.ext_getElem?
  intro i
  simp only [getElem?_mark]
  cases l[i]? with
  | none => simp
  | some t =>
    by_cases hp : i ∈ P <;> by_cases hq : i ∈ Q <;> simp [hp, hq]

/-- `P` is a duplicate-free list of positions of `l` holding non-negative entries -/
def Picked (l : List Int) (P : List Nat) : Prop :=
  P.Nodup ∧ ∀ j ∈ P, ∃ t, l[j]? = some t ∧ 0 ≤ t

theorem picked_nil (l : List Int) : Picked l [] := ⟨List.nodup_nil, by simp⟩

theorem picked_append {l : List Int} {P Q : List Nat} (hP : Picked l P) (hQ : Picked (mark P l) Q) :
    Picked l (P ++ Q) := by
  have key : ∀ j ∈ Q, j ∉ P ∧ ∃ t, l[j]? = some t ∧ 0 ≤ t := by
    intro j hj
    obtain ⟨t, ht, ht0⟩ := hQ.2 j hj
    rw [getElem?_mark] at ht
    cases hl : l[j]? with
    | none => simp [hl] at ht
    | some t0 =>
      simp only [hl, Option.map_some, Option.some.injEq] at ht
      by_cases hp : j ∈ P
      · simp [hp] at ht; omega
      · simp [hp] at ht; exact ⟨hp, t0, rfl, by omega⟩
  refine ⟨List.nodup_append.2 ⟨hP.1, hQ.1, ?_⟩, ?_⟩
  · intro a ha b hb hab
    subst hab
    exact (key a hb).1 ha
  · intro j hj
    rcases List.mem_append.1 hj with hj | hj
    · exact hP.2 j hj
    · exact (key j hj).2

theorem mem_positionsWhere {α : Type _} (l : List α) (f : α → Bool) (j : Nat) :
    j ∈ positionsWhere l f ↔ ∃ a, l[j]? = some a ∧ f a = true := by
  simp only [positionsWhere, List.mem_map, List.mem_filter, List.mem_zipIdx_iff_getElem?]
  constructor
  · rintro ⟨⟨a, i⟩, ⟨h1, h2⟩, rfl⟩
    exact ⟨a, h1, h2⟩
  · rintro ⟨a, h1, h2⟩
    exact ⟨(a, j), ⟨h1, h2⟩, rfl⟩

theorem transferLoop_spec (env : Env) (earlier : List BId) (inShell kept : List Pt) :
    ∀ (fuel sh : Nat) (tShell : List Int) (stream acc : List Nat) (tShell' : List Int) (stream' acc' : List Nat),
      transferLoop env earlier inShell kept fuel sh tShell stream acc = some (tShell', stream', acc') →
      ∃ P, acc' = acc ++ P ∧ Picked tShell P ∧ tShell' = mark P tShell := by
  intro fuel
  induction fuel with
  | zero =>
    intro sh tShell stream acc tShell' stream' acc' h
    simp only [transferLoop, Option.some.injEq, Prod.mk.injEq] at h
    obtain ⟨rfl, rfl, rfl⟩ := h
    exact ⟨[], by simp, picked_nil _, (mark_nil _).symm⟩
  | succ fuel ih =>
    intro sh tShell stream acc tShell' stream' acc' h
    simp only [transferLoop] at h
    split at h
    · exact absurd h (by simp)
    · rename_i hc
      obtain ⟨P', h1, h2, h3⟩ := ih _ _ _ _ _ _ _ h
      simp only [Bool.or_eq_true, not_or, Bool.not_eq_true', decide_eq_true_eq, Bool.not_eq_false,
        decide_eq_false_iff_not, Decidable.not_not, ne_eq] at hc
      obtain ⟨⟨⟨_, hall⟩, hnd⟩, _⟩ := hc
      have hpick : Picked tShell (stream.take (min (positionsWhere tShell (fun t => t == (sh : Int))).length
          (inShell.filter (fun p => assoc env earlier p == (sh : Int))).length)) := by
        refine ⟨hnd, fun j hj => ?_⟩
        have := List.all_eq_true.1 hall j hj
        rw [List.contains_iff_mem] at this
        obtain ⟨a, ha, hsh⟩ := (mem_positionsWhere _ _ _).1 this
        have : a = (sh : Int) := by simpa using hsh
        exact ⟨a, ha, by omega⟩
      refine ⟨_ ++ P', by rw [h1, List.append_assoc], picked_append hpick h2, ?_⟩
      rw [h3]
      exact mark_mark _ _ _

theorem sampleRounds_spec (env : Env) (bounds : List BId) (index : Nat) (useT : Bool) (nBatch : Nat) :
    ∀ (rounds : List Round) (nS nB : Nat) (pts : List Pt) (tShell : List Int) (stream idxT : List Nat)
      (res : List Pt × Nat × List Nat × List Int),
      sampleRounds env bounds index useT nBatch rounds nS nB pts tShell stream idxT = some res →
      ∃ ks P, res.1 = pts ++ ks ∧ ks.Sublist ((rounds.map (·.props)).flatten) ∧
        (∀ p ∈ ks, ∀ b ∈ bounds.drop (index + 1), env.contains b p = false) ∧
        res.2.2.1 = idxT ++ P ∧ Picked tShell P ∧ res.2.2.2 = mark P tShell ∧ (useT = false → P = []) := by
  intro rounds
  induction rounds with
  | nil =>
    intro nS nB pts tShell stream idxT res h
    simp only [sampleRounds] at h
    split at h
    · obtain rfl := Option.some.inj h
      exact ⟨[], [], by simp, by simp, by simp, by simp, picked_nil _, (mark_nil _).symm, fun _ => rfl⟩
    · exact absurd h (by simp)
  | cons r rs ih =>
    intro nS nB pts tShell stream idxT res h
    simp only [sampleRounds] at h
    split at h
    · exact absurd h (by simp)
    split at h
    · exact absurd h (by simp)
    have hin : ∀ p ∈ r.props.filter (fun p => (bounds.drop (index + 1)).all (fun b => !env.contains b p)),
        ∀ b ∈ bounds.drop (index + 1), env.contains b p = false := by
      intro p hp b hb
      have h1 := (List.mem_filter.1 hp).2
      have h2 := List.all_eq_true.1 h1 b hb
      simpa using h2
    split at h
    · split at h
      · exact absurd h (by simp)
      · rename_i tShell' stream' picked hT
        split at h
        · exact absurd h (by simp)
        split at h
        · exact absurd h (by simp)
        rename_i hk _
        have hk' := Decidable.not_not.1 hk
        obtain ⟨ks, P, e1, e2, e3, e4, e5, e6, e7⟩ := ih _ _ _ _ _ _ _ h
        obtain ⟨P0, a1, a2, a3⟩ := transferLoop_spec _ _ _ _ _ _ _ _ _ _ _ _ hT
        simp only [List.nil_append] at a1
        subst a1 a3
        refine ⟨r.kept ++ ks, picked ++ P, by rw [e1, List.append_assoc], ?_, ?_, by rw [e4, List.append_assoc],
          picked_append a2 e5, by rw [e6, mark_mark], ?_⟩
        · simp only [List.map_cons, List.flatten_cons]
          refine List.Sublist.append ?_ e2
          rw [hk']
          exact List.filter_sublist.trans List.filter_sublist
        · intro p hp
          rcases List.mem_append.1 hp with hp | hp
          · rw [hk'] at hp
            exact hin p (List.mem_filter.1 hp).1
          · exact e3 p hp
        · intro hu
          have hU : (useT && !tShell.isEmpty) = true := by assumption
          simp [hu] at hU
    · split at h
      · exact absurd h (by simp)
      rename_i hcond hk
      have hk' := Decidable.not_not.1 hk
      obtain ⟨ks, P, e1, e2, e3, e4, e5, e6, e7⟩ := ih _ _ _ _ _ _ _ h
      refine ⟨r.kept ++ ks, P, by rw [e1, List.append_assoc], ?_, ?_, e4, e5, e6, e7⟩
      · simp only [List.map_cons, List.flatten_cons]
        refine List.Sublist.append ?_ e2
        rw [hk']
        exact List.filter_sublist
      · intro p hp
        rcases List.mem_append.1 hp with hp | hp
        · rw [hk'] at hp
          exact hin p hp
        · exact e3 p hp

/-! ### `add_samples` -/

/-- the state `addSamples` returns in its `.ok` branch -/
def addSamplesRes (s : St) (shellArg : Option Nat) (points : List Pt) (nBound : Nat) (idxT' : List Nat)
    (tShell' : List Int) : St :=
  let last := s.shells.length - 1
  let idx := shellArg.getD last
  let useT := shellArg.isNone && !s.tShell.isEmpty
  let shells1 :=
    if useT && !idxT'.isEmpty then
      s.shells.modify last (fun sh => { sh with
        pts := sh.pts ++ idxT'.map (fun j => getD s.tPts j 0)
        ls := sh.ls ++ idxT'.map (fun j => getD s.tLs j 0)
        bs := sh.bs ++ idxT'.map (fun j => getD s.tBs j 0) })
    else s.shells
  let shells2 := shells1.modify idx (fun sh => { sh with
    nSample := sh.nSample + nBound
    pts := sh.pts ++ points, ls := sh.ls ++ points, bs := sh.bs ++ points })
  updateShellInfo { s with shells := shells2, tShell := tShell', nLike := s.nLike + points.length } idx

theorem addSamples_cases (env : Env) (s : St) (shellArg : Option Nat) (rounds : List Round) (idxT : List Nat) :
    (addSamples env s shellArg rounds idxT).1 = s ∨
    ∃ points nBound idxT' tShell',
      s.shells ≠ [] ∧ shellArg.getD (s.shells.length - 1) < s.shells.length ∧
      sampleRounds env (s.shells.map (·.bound)) (shellArg.getD (s.shells.length - 1))
        (shellArg.isNone && !s.tShell.isEmpty) s.nBatch rounds 0 0 [] s.tShell idxT []
        = some (points, nBound, idxT', tShell') ∧
      (addSamples env s shellArg rounds idxT).1 = addSamplesRes s shellArg points nBound idxT' tShell' := by
  unfold addSamples
  split
  · exact Or.inl rfl
  rename_i hne
  simp only []
  split
  · exact Or.inl rfl
  rename_i hlt
  split
  · exact Or.inl rfl
  · rename_i points nBound idxT' tShell' hsr
    split
    · exact Or.inl rfl
    · refine Or.inr ⟨points, nBound, idxT', tShell', ?_, by omega, hsr, rfl⟩
      intro h0
      simp [h0] at hne

theorem aligned_addSamplesRes (s : St) (shellArg : Option Nat) (points : List Pt) (nBound : Nat)
    (idxT' : List Nat) (tShell' : List Int) (h : Aligned s) (hl : tShell'.length = s.tShell.length) :
    Aligned (addSamplesRes s shellArg points nBound idxT' tShell') := by
  obtain ⟨h1, h2, h3, h4⟩ := h
  refine ⟨?_, h2, h3, hl.trans h4⟩
  simp only [addSamplesRes, updateShellInfo]
  apply forall_mem_modify (fun sh : Shell => sh.ls = sh.pts ∧ sh.bs = sh.pts)
  · intro a ha; exact ha
  apply forall_mem_modify (fun sh : Shell => sh.ls = sh.pts ∧ sh.bs = sh.pts)
  · intro a ha
    dsimp only
    rw [ha.1, ha.2]
    exact ⟨rfl, rfl⟩
  split
  · apply forall_mem_modify (fun sh : Shell => sh.ls = sh.pts ∧ sh.bs = sh.pts)
    · intro a ha
      dsimp only
      rw [ha.1, ha.2, h2, h3]
      exact ⟨rfl, rfl⟩
    · exact h1
  · exact h1

/-- alignment of the parallel arrays is preserved by every operation, whatever the oracles return -/
theorem aligned_step (env : Env) (s : St) (op : Op) (h : Aligned s) : Aligned (step env s op).1 := by
  cases op with
  | addBound r =>
    cases r with
    | none =>
      simp only [step, addBound]
      split <;> exact h
    | some b => exact aligned_addBoundOk env s b h
  | addSamples sh rs it =>
    simp only [step]
    rcases addSamples_cases env s sh rs it with h0 | ⟨points, nBound, idxT', tShell', _, _, hsr, hres⟩
    · rw [h0]; exact h
    · rw [hres]
      obtain ⟨ks, P, _, _, _, _, _, e6, _⟩ := sampleRounds_spec _ _ _ _ _ _ _ _ _ _ _ _ _ hsr
      apply aligned_addSamplesRes _ _ _ _ _ _ h
      simp only at e6
      rw [e6, length_mark]
  | endExploration d => exact aligned_endExploration s d h
  | setDiscard b => exact aligned_setDiscard s b h

theorem aligned_exec (env : Env) (s : St) (ops : List Op) (h : Aligned s) : Aligned (exec env s ops) := by
  induction ops generalizing s with
  | nil => exact h
  | cons op ops ih => exact ih _ (aligned_step env s op h)

/-! ### `shell_association` and disjointness -/

theorem assoc_snoc (env : Env) (bs : List BId) (b : BId) (p : Pt) :
    assoc env (bs ++ [b]) p = if env.contains b p then (bs.length : Int) else assoc env bs p := by
  unfold assoc
  rw [List.zipIdx_append]
  simp only [List.zipIdx_cons, List.zipIdx_nil, List.reverse_append, List.reverse_cons, List.reverse_nil,
    List.nil_append, List.singleton_append, List.find?_cons, Nat.zero_add]
  by_cases hc : env.contains b p = true
  · simp [hc]
  · simp [hc]

theorem assoc_of_good (env : Env) : ∀ (l : List (BId × List Pt)), Good env l → ∀ (i : Nat) (x : BId × List Pt),
    l[i]? = some x → ∀ p ∈ x.2, assoc env (l.map Prod.fst) p = (i : Int) := by
  intro l
  induction l using List.reverseRecOn with
  | nil => intro _ i x h; simp at h
  | append_singleton l a ih =>
    intro hg i x hx p hp
    rw [List.map_append, List.map_singleton, assoc_snoc]
    have hgl : Good env l := ⟨fun y hy => hg.1 y (List.mem_append_left _ hy), (List.pairwise_append.1 hg.2).1⟩
    by_cases hi : i < l.length
    · rw [List.getElem?_append_left hi] at hx
      have hxl : x ∈ l := List.mem_of_getElem? hx
      have hc : env.contains a.1 p = false := (List.pairwise_append.1 hg.2).2.2 x hxl a (by simp) p hp
      simp only [hc, Bool.false_eq_true, if_false]
      exact ih hgl i x hx p hp
    · have hil : i = l.length := by
        have := (List.getElem?_eq_some_iff.1 hx).1
        simp at this; omega
      subst hil
      simp at hx
      subst hx
      have hc := (hg.1 a (by simp) p hp).2
      simp [hc]

/-- `shell_association` of a stored sample is the shell it is stored under -/
theorem assoc_of_inShells (env : Env) (s : St) (h : InShells env s) (sh : Shell) (i : Nat)
    (hi : (sh, i) ∈ s.shells.zipIdx) (p : Pt) (hp : p ∈ sh.pts) : assoc env (bounds s) p = (i : Int) := by
  rw [bounds_eq]
  have hg := (inShells_iff env s).1 h
  have hi' : s.shells[i]? = some sh := List.mem_zipIdx_iff_getElem?.1 hi
  refine assoc_of_good env _ hg i (sh.bound, sh.pts) ?_ p hp
  simp [view, List.getElem?_map, hi']

/-- shells partition the stored samples -/
theorem shells_disjoint (s : St) (h : NoDup s) (i k : Nat) (hik : i ≠ k) (a b : Shell)
    (ha : s.shells[i]? = some a) (hb : s.shells[k]? = some b) : ∀ p ∈ a.pts, p ∉ b.pts := by
  have hn : (allStored s).Nodup := List.Nodup.of_append_left h
  unfold allStored at hn
  have hp := (List.nodup_flatten.1 hn).2
  rw [List.pairwise_iff_getElem] at hp
  obtain ⟨hi, rfl⟩ := List.getElem?_eq_some_iff.1 ha
  obtain ⟨hk, rfl⟩ := List.getElem?_eq_some_iff.1 hb
  rcases Nat.lt_or_gt_of_ne hik with hlt | hlt
  · have := hp i k (by simpa using hi) (by simpa using hk) hlt
    simp only [List.getElem_map] at this
    intro p hp1 hp2
    exact this hp1 hp2
  · have := hp k i (by simpa using hk) (by simpa using hi) hlt
    simp only [List.getElem_map] at this
    intro p hp1 hp2
    exact this hp2 hp1

/-! ### C01 -/

theorem inv01_init (env : Env) (nBatch : Nat) : Inv01 env (init nBatch) := by
  simp [Inv01, InShells, TransfersInLast, NoDup, init, allStored, unusedTransfers]

/-- while exploring, transfer candidates only exist once there is a bound -/
def TEmpty (s : St) : Prop := s.explored = false → s.shells = [] → s.tShell = []

theorem inv01_iff (env : Env) (s : St) : Inv01 env s ↔
    Good env (view s.shells) ∧
    (s.explored = false → ∀ tj ∈ s.tPts.zip s.tShell, 0 ≤ tj.2 →
      env.inCube tj.1 = true ∧ ∀ b ∈ ((view s.shells).map Prod.fst).getLast?, env.contains b tj.1 = true) ∧
    (((view s.shells).map Prod.snd).flatten ++ (if s.explored then [] else unusedTransfers s)).Nodup := by
  unfold Inv01 TransfersInLast NoDup
  rw [inShells_iff, bounds_eq, allStored_eq]

theorem inv01_congr (env : Env) {s s' : St} (hv : view s'.shells = view s.shells) (h1 : s'.tPts = s.tPts)
    (h2 : s'.tShell = s.tShell) (h3 : s'.explored = s.explored) (h : Inv01 env s) : Inv01 env s' := by
  have hu : unusedTransfers s' = unusedTransfers s := by unfold unusedTransfers; rw [h1, h2]
  rw [inv01_iff] at h ⊢
  rw [hv, h1, h2, h3, hu]
  exact h

theorem good_sublist {env : Env} {l l' : List (BId × List Pt)} (h : l'.Sublist l) (hg : Good env l) :
    Good env l' :=
  ⟨fun x hx => hg.1 x (h.subset hx), hg.2.sublist h⟩

theorem view_setDiscard (s : St) (b : Bool) : view (setDiscard s b).shells = view s.shells := by
  simp [setDiscard, updateAll, view, List.map_map, Function.comp_def]

theorem inv01_setDiscard (env : Env) (s : St) (b : Bool) (h : Inv01 env s) : Inv01 env (setDiscard s b) :=
  inv01_congr env (view_setDiscard s b) rfl rfl rfl h

theorem inv01_endExploration (env : Env) (s : St) (b : Bool) (h : Inv01 env s) :
    Inv01 env (endExploration s b) := by
  unfold endExploration
  apply inv01_setDiscard
  rw [inv01_iff] at h ⊢
  obtain ⟨hg, _, hn⟩ := h
  have hsub : (view ((s.shells.filter (fun sh => sh.nShown != 0)).map
      (fun sh => { sh with nSampleExp := sh.nSample, endExp := sh.pts.length }))).Sublist (view s.shells) := by
    have : view ((s.shells.filter (fun sh => sh.nShown != 0)).map
        (fun sh => { sh with nSampleExp := sh.nSample, endExp := sh.pts.length }))
        = view (s.shells.filter (fun sh => sh.nShown != 0)) := by
      simp [view, List.map_map, Function.comp_def]
    rw [this]
    exact List.Sublist.map _ List.filter_sublist
  refine ⟨good_sublist hsub hg, fun h0 => absurd h0 (by simp), ?_⟩
  simp only [if_true, List.append_nil]
  exact List.Nodup.sublist (List.Sublist.flatten (List.Sublist.map _ hsub)) (List.Nodup.of_append_left hn)

/-! #### `add_bound` -/

theorem unused_all_nonneg (ps : List Pt) (ts : List Int) (hl : ts.length = ps.length) (h : ∀ t ∈ ts, 0 ≤ t) :
    ((ps.zip ts).filter (fun tj => decide (0 ≤ tj.2))).map (·.1) = ps := by
  rw [List.filter_eq_self.2]
  · exact List.map_fst_zip (by omega)
  · rintro ⟨p, t⟩ hm
    simpa using h t (List.of_mem_zip hm).2

theorem addBoundOk_empty (env : Env) (s : St) (b : BId) (h : s.shells = []) :
    addBoundOk env s b = { s with shells := [{ bound := b }] } := by
  simp [addBoundOk, h]

theorem addBoundOk_nonempty (env : Env) (s : St) (b : BId) (h : s.shells ≠ []) :
    view (addBoundOk env s b).shells
      = (view s.shells).map (fun x => (x.1, x.2.filter (fun p => env.contains b p == false))) ++ [(b, [])] ∧
    (addBoundOk env s b).tPts
      = ((view s.shells).map (fun x => x.2.filter (fun p => env.contains b p == true))).flatten ∧
    (∀ t ∈ (addBoundOk env s b).tShell, 0 ≤ t) ∧
    (addBoundOk env s b).explored = s.explored := by
  have he : s.shells.isEmpty = false := by
    cases hs : s.shells with
    | nil => exact absurd hs h
    | cons _ _ => rfl
  simp only [addBoundOk, he, Bool.false_eq_true, if_false]
  refine ⟨?_, ?_, ?_, trivial⟩
  · unfold view
    rw [map_zipIdx_proj]
    · simp [List.map_map, Function.comp_def, maskKeep_self]
    · intro a i
      dsimp only
      split <;> rfl
  · simp [view, List.map_map, Function.comp_def, maskKeep_self]
  · intro t ht
    obtain ⟨l, hl, htl⟩ := List.mem_flatten.1 ht
    obtain ⟨⟨a, i⟩, _, rfl⟩ := List.mem_map.1 hl
    rw [(List.mem_replicate.1 htl).2]
    exact Int.natCast_nonneg i

theorem inv01_addBoundOk (env : Env) (s : St) (b : BId) (ha : Aligned s) (h : Inv01 env s) (hte : TEmpty s) :
    Inv01 env (addBoundOk env s b) := by
  by_cases hs : s.shells = []
  · -- first bound
    rw [addBoundOk_empty env s b hs]
    rw [inv01_iff] at h ⊢
    obtain ⟨_, _, hn⟩ := h
    refine ⟨?_, ?_, ?_⟩
    · simp [Good, view]
    · intro h0
      have ht : s.tShell = [] := hte h0 hs
      simp [ht]
    · simpa [hs, view, unusedTransfers] using hn
  · obtain ⟨hv, htp, hts, hex⟩ := addBoundOk_nonempty env s b hs
    have hal := aligned_addBoundOk env s b ha
    rw [inv01_iff] at h ⊢
    obtain ⟨hg, _, hn⟩ := h
    have hA : (((view s.shells).map Prod.snd).flatten).Nodup := List.Nodup.of_append_left hn
    refine ⟨?_, ?_, ?_⟩
    · rw [hv]
      refine ⟨?_, ?_⟩
      · intro x hx p hp
        rcases List.mem_append.1 hx with hx | hx
        · obtain ⟨y, hy, rfl⟩ := List.mem_map.1 hx
          exact hg.1 y hy p (List.mem_filter.1 hp).1
        · simp only [List.mem_singleton] at hx
          subst hx
          simp at hp
      · rw [List.pairwise_append]
        refine ⟨?_, by simp, ?_⟩
        · rw [List.pairwise_map]
          exact hg.2.imp (fun hac p hp => hac p (List.mem_filter.1 hp).1)
        · intro a ha' c hc p hp
          simp only [List.mem_singleton] at hc
          subst hc
          obtain ⟨y, hy, rfl⟩ := List.mem_map.1 ha'
          simpa using (List.mem_filter.1 hp).2
    · intro _ tj htj _
      have h1 : tj.1 ∈ (addBoundOk env s b).tPts := (List.of_mem_zip (a := tj.1) (b := tj.2) htj).1
      rw [htp] at h1
      obtain ⟨l, hl, hpl⟩ := List.mem_flatten.1 h1
      obtain ⟨y, hy, rfl⟩ := List.mem_map.1 hl
      obtain ⟨hpy, hc⟩ := List.mem_filter.1 hpl
      refine ⟨(hg.1 y hy _ hpy).1, ?_⟩
      rw [hv]
      simp only [List.map_append, List.map_cons, List.map_nil, List.getLast?_append, List.getLast?_singleton,
        Option.some_or, Option.mem_def, Option.some.injEq, forall_eq']
      simpa using hc
    · have hu : unusedTransfers (addBoundOk env s b) = (addBoundOk env s b).tPts :=
        unused_all_nonneg _ _ hal.2.2.2 hts
      rw [hu, hv, htp, hex]
      have e1 : (List.map Prod.snd ((view s.shells).map
          (fun x => (x.1, x.2.filter (fun p => env.contains b p == false))) ++ [(b, [])])).flatten
          = (((view s.shells).map Prod.snd).flatten).filter (fun p => !(env.contains b p == true)) := by
        have : (fun p => !(env.contains b p == true)) = (fun p => env.contains b p == false) := by
          funext p; cases env.contains b p <;> rfl
        rw [this]
        simp [List.filter_flatten, List.map_map, Function.comp_def]
      have e2 : ((view s.shells).map (fun x => x.2.filter (fun p => env.contains b p == true))).flatten
          = (((view s.shells).map Prod.snd).flatten).filter (fun p => env.contains b p == true) := by
        simp [List.filter_flatten, List.map_map, Function.comp_def]
      rw [e1, e2]
      split
      · rw [List.append_nil]
        exact hA.sublist List.filter_sublist
      · exact ((List.perm_append_comm.trans (List.filter_append_perm _ _)).nodup_iff).2 hA

/-! #### `add_samples` -/

theorem good_cons (env : Env) (x : BId × List Pt) (l : List (BId × List Pt)) : Good env (x :: l) ↔
    (∀ p ∈ x.2, env.inCube p = true ∧ env.contains x.1 p = true) ∧
    (∀ c ∈ l, ∀ p ∈ x.2, env.contains c.1 p = false) ∧ Good env l := by
  simp only [Good, List.forall_mem_cons, List.pairwise_cons]
  tauto

theorem map_fst_modify (extra : List Pt) (l : List (BId × List Pt)) (i : Nat) :
    (l.modify i (fun x => (x.1, x.2 ++ extra))).map Prod.fst = l.map Prod.fst := by
  rw [map_modify_proj Prod.fst _ id, List.modify_id]
  intro a; rfl

theorem modify_append_nil (l : List (BId × List Pt)) (i : Nat) :
    l.modify i (fun x => (x.1, x.2 ++ [])) = l := by
  have : (fun x : BId × List Pt => (x.1, x.2 ++ [])) = id := by funext x; simp
  rw [this, List.modify_id]

theorem good_modify (env : Env) (extra : List Pt) : ∀ (l : List (BId × List Pt)) (i : Nat), Good env l →
    (∀ p ∈ extra, env.inCube p = true ∧ (∀ b, (l.map Prod.fst)[i]? = some b → env.contains b p = true) ∧
      ∀ b ∈ (l.map Prod.fst).drop (i + 1), env.contains b p = false) →
    Good env (l.modify i (fun x => (x.1, x.2 ++ extra)))
  | [], i, hg, _ => by simpa using hg
  | x :: xs, 0, hg, he => by
    rw [List.modify_zero_cons]
    rw [good_cons] at hg ⊢
    obtain ⟨h1, h2, h3⟩ := hg
    refine ⟨?_, ?_, h3⟩
    · intro p hp
      rcases List.mem_append.1 hp with hp | hp
      · exact h1 p hp
      · exact ⟨(he p hp).1, (he p hp).2.1 x.1 (by simp)⟩
    · intro c hc p hp
      rcases List.mem_append.1 hp with hp | hp
      · exact h2 c hc p hp
      · refine (he p hp).2.2 c.1 ?_
        simp only [Nat.zero_add, List.map_cons, List.drop_succ_cons, List.drop_zero]
        exact List.mem_map_of_mem hc
  | x :: xs, i+1, hg, he => by
    rw [List.modify_succ_cons]
    rw [good_cons] at hg ⊢
    obtain ⟨h1, h2, h3⟩ := hg
    refine ⟨h1, ?_, good_modify env extra xs i h3 ?_⟩
    · intro c hc p hp
      have hm : c.1 ∈ (xs.modify i (fun x => (x.1, x.2 ++ extra))).map Prod.fst := List.mem_map_of_mem hc
      rw [map_fst_modify] at hm
      obtain ⟨c0, hc0, hc1⟩ := List.mem_map.1 hm
      rw [← hc1]
      exact h2 c0 hc0 p hp
    · intro p hp
      obtain ⟨e1, e2, e3⟩ := he p hp
      exact ⟨e1, by simpa using e2, by simpa using e3⟩

theorem flatten_modify_perm (extra : List Pt) : ∀ (l : List (BId × List Pt)) (i : Nat), i < l.length →
    (((l.modify i (fun x => (x.1, x.2 ++ extra))).map Prod.snd).flatten).Perm ((l.map Prod.snd).flatten ++ extra)
  | [], i, h => by simp at h
  | x :: xs, 0, _ => by
    simp only [List.modify_zero_cons, List.map_cons, List.flatten_cons, List.append_assoc]
    exact List.Perm.append_left _ List.perm_append_comm
  | x :: xs, i+1, h => by
    simp only [List.modify_succ_cons, List.map_cons, List.flatten_cons, List.append_assoc]
    exact List.Perm.append_left _ (flatten_modify_perm extra xs i (by simpa using h))

/-- `unusedTransfers` as a function of the two arrays -/
def unusedL (ps : List Pt) (ts : List Int) : List Pt :=
  ((ps.zip ts).filter (fun tj => decide (0 ≤ tj.2))).map (·.1)

theorem unusedL_cons (p : Pt) (ps : List Pt) (t : Int) (ts : List Int) :
    unusedL (p :: ps) (t :: ts) = if 0 ≤ t then p :: unusedL ps ts else unusedL ps ts := by
  simp only [unusedL, List.zip_cons_cons, List.filter_cons]
  split <;> simp_all

theorem unusedL_subset (ps : List Pt) (ts : List Int) : ∀ p ∈ unusedL ps ts, p ∈ ps := by
  intro p hp
  obtain ⟨⟨q, t⟩, hm, rfl⟩ := List.mem_map.1 hp
  exact (List.of_mem_zip (List.mem_filter.1 hm).1).1

theorem mark_singleton_zero (t : Int) (ts : List Int) : mark [0] (t :: ts) = (-1) :: ts := by
  apply List.ext_getElem?
  intro i
  rw [getElem?_mark]
  cases i with
  | zero => simp
  | succ i => cases h : ts[i]? <;> simp [h]

theorem mark_singleton_succ (j : Nat) (t : Int) (ts : List Int) : mark [j + 1] (t :: ts) = t :: mark [j] ts := by
  apply List.ext_getElem?
  intro i
  rw [getElem?_mark]
  cases i with
  | zero => simp
  | succ i =>
    simp only [List.getElem?_cons_succ, getElem?_mark]
    cases h : ts[i]? <;> simp

theorem unusedL_mark_one : ∀ (ps : List Pt) (ts : List Int) (j : Nat) (t : Int), ts[j]? = some t → 0 ≤ t →
    j < ps.length → (unusedL ps ts).Perm (getD ps j 0 :: unusedL ps (mark [j] ts))
  | [], _, j, _, _, _, hl => by simp at hl
  | _ :: _, [], j, _, hj, _, _ => by simp at hj
  | p :: ps, t0 :: ts, 0, t, hj, h0, _ => by
    simp only [List.getElem?_cons_zero, Option.some.injEq] at hj
    subst hj
    rw [mark_singleton_zero, unusedL_cons, unusedL_cons]
    simp [h0, getD]
  | p :: ps, t0 :: ts, j+1, t, hj, h0, hl => by
    simp only [List.getElem?_cons_succ] at hj
    have ih := unusedL_mark_one ps ts j t hj h0 (by simpa using hl)
    rw [mark_singleton_succ, unusedL_cons, unusedL_cons]
    have hg : getD (p :: ps) (j + 1) 0 = getD ps j 0 := by simp [getD]
    rw [hg]
    split
    · exact (List.Perm.cons p ih).trans (List.Perm.swap _ _ _)
    · exact ih

theorem unusedL_mark_perm (ps : List Pt) : ∀ (P : List Nat) (ts : List Int), ts.length = ps.length →
    Picked ts P → (unusedL ps ts).Perm (P.map (fun j => getD ps j 0) ++ unusedL ps (mark P ts))
  | [], ts, _, _ => by simp [mark_nil]
  | j :: P, ts, hl, hP => by
    obtain ⟨t, ht, h0⟩ := hP.2 j (by simp)
    have hjl : j < ps.length := by rw [← hl]; exact (List.getElem?_eq_some_iff.1 ht).1
    have hnd := List.nodup_cons.1 hP.1
    have hP' : Picked (mark [j] ts) P := by
      refine ⟨hnd.2, fun j' hj' => ?_⟩
      obtain ⟨t', ht', h0'⟩ := hP.2 j' (List.mem_cons_of_mem _ hj')
      refine ⟨t', ?_, h0'⟩
      have hne : j' ≠ j := fun h => hnd.1 (h ▸ hj')
      rw [getElem?_mark, ht']
      simp [hne]
    have ih := unusedL_mark_perm ps P (mark [j] ts) (by simpa using hl) hP'
    rw [mark_mark] at ih
    simp only [List.singleton_append] at ih
    simp only [List.map_cons, List.cons_append]
    exact (unusedL_mark_one ps ts j t ht h0 hjl).trans (List.Perm.cons _ ih)

theorem mem_zip_mark {ps : List Pt} {ts : List Int} {P : List Nat} {tj : Pt × Int}
    (h : tj ∈ ps.zip (mark P ts)) (h0 : 0 ≤ tj.2) : tj ∈ ps.zip ts := by
  obtain ⟨i, hi⟩ := List.mem_iff_getElem?.1 h
  rw [List.getElem?_zip_eq_some, getElem?_mark] at hi
  obtain ⟨hi1, hi2⟩ := hi
  rw [List.mem_iff_getElem?]
  refine ⟨i, List.getElem?_zip_eq_some.2 ⟨hi1, ?_⟩⟩
  cases hl : ts[i]? with
  | none => simp [hl] at hi2
  | some t0 =>
    simp only [hl, Option.map_some, Option.some.injEq] at hi2
    by_cases hp : i ∈ P
    · simp [hp] at hi2; omega
    · simp [hp] at hi2; rw [hi2]

theorem moved_mem (s : St) (ha : Aligned s) {P : List Nat} (hP : Picked s.tShell P) {p : Pt}
    (hp : p ∈ P.map (fun j => getD s.tPts j 0)) : ∃ t, (p, t) ∈ s.tPts.zip s.tShell ∧ 0 ≤ t := by
  obtain ⟨j, hj, rfl⟩ := List.mem_map.1 hp
  obtain ⟨t, ht, h0⟩ := hP.2 j hj
  have hjl : j < s.tShell.length := (List.getElem?_eq_some_iff.1 ht).1
  have hjp : j < s.tPts.length := by rw [← ha.2.2.2]; exact hjl
  refine ⟨t, ?_, h0⟩
  rw [List.mem_iff_getElem?]
  refine ⟨j, ?_⟩
  rw [List.getElem?_zip_eq_some]
  exact ⟨by simp [getD, List.getElem?_eq_getElem hjp], ht⟩

theorem view_addSamplesRes (s : St) (shellArg : Option Nat) (points : List Pt) (nBound : Nat) (idxT' : List Nat)
    (tShell' : List Int) (hM : (shellArg.isNone && !s.tShell.isEmpty) = false → idxT' = []) :
    view (addSamplesRes s shellArg points nBound idxT' tShell').shells
      = ((view s.shells).modify (s.shells.length - 1)
            (fun x => (x.1, x.2 ++ idxT'.map (fun j => getD s.tPts j 0)))).modify
          (shellArg.getD (s.shells.length - 1)) (fun x => (x.1, x.2 ++ points)) := by
  simp only [addSamplesRes, updateShellInfo]
  unfold view
  rw [map_modify_proj (fun sh : Shell => (sh.bound, sh.pts)) _ id, List.modify_id]
  swap
  · intro a; rfl
  rw [map_modify_proj (fun sh : Shell => (sh.bound, sh.pts)) _ (fun x => (x.1, x.2 ++ points))]
  swap
  · intro a; rfl
  congr 1
  split
  · rw [map_modify_proj (fun sh : Shell => (sh.bound, sh.pts)) _
      (fun x => (x.1, x.2 ++ idxT'.map (fun j => getD s.tPts j 0)))]
    intro a; rfl
  · rename_i hc
    have : idxT' = [] := by
      by_cases hu : (shellArg.isNone && !s.tShell.isEmpty) = true
      · simpa [hu] using hc
      · exact hM (by simpa using hu)
    subst this
    simp only [List.map_nil]
    rw [modify_append_nil]

theorem inv01_addSamplesRes (env : Env) (s : St) (shellArg : Option Nat) (rounds : List Round) (idxT : List Nat)
    (points : List Pt) (nBound : Nat) (idxT' : List Nat) (tShell' : List Int)
    (ha : Aligned s) (h : Inv01 env s) (hop : OpOK env s (.addSamples shellArg rounds idxT))
    (hph : TransferPhase s (.addSamples shellArg rounds idxT))
    (hlt : shellArg.getD (s.shells.length - 1) < s.shells.length)
    (hsr : sampleRounds env (s.shells.map (·.bound)) (shellArg.getD (s.shells.length - 1))
        (shellArg.isNone && !s.tShell.isEmpty) s.nBatch rounds 0 0 [] s.tShell idxT []
        = some (points, nBound, idxT', tShell')) :
    Inv01 env (addSamplesRes s shellArg points nBound idxT' tShell') := by
  obtain ⟨ks, P, e1, e2, e3, e4, e5, e6, e7⟩ := sampleRounds_spec _ _ _ _ _ _ _ _ _ _ _ _ _ hsr
  dsimp only at e1 e4 e6
  rw [List.nil_append] at e1 e4
  rw [e1, e4, e6]
  have hexp : s.explored = true → P = [] := by
    intro hx
    apply e7
    cases shellArg with
    | none => simp [TransferPhase, hx] at hph
    | some i => rfl
  simp only [OpOK] at hop
  obtain ⟨hop1, hop2⟩ := hop
  have hks : ∀ p ∈ ks, ∃ r ∈ rounds, p ∈ r.props := by
    intro p hp
    obtain ⟨l, hl, hpl⟩ := List.mem_flatten.1 (e2.subset hp)
    obtain ⟨r, hr, rfl⟩ := List.mem_map.1 hl
    exact ⟨r, hr, hpl⟩
  have hksnd : ks.Nodup := hop2.sublist e2
  have hview := view_addSamplesRes s shellArg ks nBound P (mark P s.tShell) e7
  rw [inv01_iff] at h ⊢
  obtain ⟨hg, ht, hn⟩ := h
  have hfst : (view (addSamplesRes s shellArg ks nBound P (mark P s.tShell)).shells).map Prod.fst
      = (view s.shells).map Prod.fst := by rw [hview, map_fst_modify, map_fst_modify]
  have hlen : (view s.shells).length = s.shells.length := by simp [view]
  have hMf : ∀ p ∈ P.map (fun j => getD s.tPts j 0), env.inCube p = true ∧
      (∀ b ∈ ((view s.shells).map Prod.fst).getLast?, env.contains b p = true) ∧ p ∈ s.tPts := by
    intro p hp
    have hx : s.explored = false := by
      cases hx : s.explored with
      | false => rfl
      | true => rw [hexp hx] at hp; simp at hp
    obtain ⟨t, hmem, h0⟩ := moved_mem s ha e5 hp
    exact ⟨(ht hx (p, t) hmem h0).1, (ht hx (p, t) hmem h0).2, (List.of_mem_zip hmem).1⟩
  refine ⟨?_, ?_, ?_⟩
  · rw [hview]
    apply good_modify
    · apply good_modify _ _ _ _ hg
      intro p hp
      refine ⟨(hMf p hp).1, ?_, ?_⟩
      · intro b hb
        apply (hMf p hp).2.1 b
        rw [List.getLast?_eq_getElem?]
        simpa [hlen] using hb
      · intro b hb
        rw [List.drop_of_length_le (by simp [hlen]; omega)] at hb
        simp at hb
    · intro p hp
      rw [map_fst_modify]
      obtain ⟨r, hr, hpr⟩ := hks p hp
      obtain ⟨c1, c2, c3, c4⟩ := hop1 r hr p hpr
      refine ⟨c1, ?_, ?_⟩
      · intro b hb
        simp only [view, List.map_map, List.getElem?_map, Option.map_eq_some_iff] at hb
        obtain ⟨shell, hs, rfl⟩ := hb
        exact c2 shell hs
      · intro b hb
        apply e3 p hp b
        simpa [view, List.map_map, Function.comp_def] using hb
  · intro hx tj htj h0
    rw [hfst]
    have hmem : tj ∈ s.tPts.zip s.tShell := mem_zip_mark htj h0
    exact ht hx tj hmem h0
  · have hU : (if s.explored then [] else unusedTransfers s).Perm
        (P.map (fun j => getD s.tPts j 0) ++ (if s.explored then [] else unusedL s.tPts (mark P s.tShell))) := by
      cases hx : s.explored with
      | true => simp [hexp hx]
      | false =>
        simp only [Bool.false_eq_true, if_false]
        exact unusedL_mark_perm s.tPts P s.tShell ha.2.2.2 e5
    have hA1 := flatten_modify_perm (P.map (fun j => getD s.tPts j 0)) (view s.shells) (s.shells.length - 1)
      (by rw [hlen]; omega)
    have hA2 := flatten_modify_perm ks ((view s.shells).modify (s.shells.length - 1)
      (fun x => (x.1, x.2 ++ P.map (fun j => getD s.tPts j 0)))) (shellArg.getD (s.shells.length - 1))
      (by simpa [hlen] using hlt)
    change (_ ++ (if s.explored then [] else unusedL s.tPts (mark P s.tShell))).Nodup
    rw [hview]
    have hgoal : (((((view s.shells).modify (s.shells.length - 1)
          (fun x => (x.1, x.2 ++ P.map (fun j => getD s.tPts j 0)))).modify
          (shellArg.getD (s.shells.length - 1)) (fun x => (x.1, x.2 ++ ks))).map Prod.snd).flatten
          ++ (if s.explored then [] else unusedL s.tPts (mark P s.tShell))).Perm
        ((((view s.shells).map Prod.snd).flatten ++ (if s.explored then [] else unusedTransfers s)) ++ ks) := by
      refine (List.Perm.append_right _ (hA2.trans (List.Perm.append_right _ hA1))).trans ?_
      refine List.Perm.trans ?_ (List.Perm.append_right _ (List.Perm.append_left _ hU.symm))
      simp only [List.append_assoc]
      exact List.Perm.append_left _ (List.Perm.append_left _ List.perm_append_comm)
    rw [hgoal.nodup_iff, List.nodup_append]
    refine ⟨hn, hksnd, ?_⟩
    intro a ha' b hb hab
    subst hab
    obtain ⟨r, hr, hpr⟩ := hks a hb
    obtain ⟨_, _, c3, c4⟩ := hop1 r hr a hpr
    rcases List.mem_append.1 ha' with h1 | h1
    · exact c3 (by rw [allStored_eq]; exact h1)
    · apply c4
      split at h1
      · simp at h1
      · exact unusedL_subset _ _ _ h1

theorem inv01_addBound (env : Env) (s : St) (r : Option BId) (ha : Aligned s) (h : Inv01 env s) (hte : TEmpty s) :
    Inv01 env (addBound env s r).1 := by
  cases r with
  | none =>
    simp only [addBound]
    split <;> exact h
  | some b => exact inv01_addBoundOk env s b ha h hte

/-- C01 is preserved by every operation — CORRECTED statement: needs `TEmpty s` (no leftover transfer candidates
    before the first bound) and `TransferPhase s op` (`add_samples(-1)` only while exploring); see the
    counterexamples at the end of this file. -/
theorem inv01_step_corrected (env : Env) (s : St) (op : Op) (ha : Aligned s) (h : Inv01 env s) (hte : TEmpty s)
    (hop : OpOK env s op) (hph : TransferPhase s op) : Inv01 env (step env s op).1 := by
  cases op with
  | addBound r => exact inv01_addBound env s r ha h hte
  | addSamples sh rs it =>
    simp only [step]
    rcases addSamples_cases env s sh rs it with h0 | ⟨points, nBound, idxT', tShell', _, hlt, hsr, hres⟩
    · rw [h0]; exact h
    · rw [hres]
      exact inv01_addSamplesRes env s sh rs it points nBound idxT' tShell' ha h hop hph hlt hsr
  | endExploration d => exact inv01_endExploration env s d h
  | setDiscard b => exact inv01_setDiscard env s b h

theorem tEmpty_init (nBatch : Nat) : TEmpty (init nBatch) := fun _ _ => rfl

/-- `TEmpty` is preserved by every operation, whatever the oracles return -/
theorem tEmpty_step (env : Env) (s : St) (op : Op) (h : TEmpty s) : TEmpty (step env s op).1 := by
  cases op with
  | addBound r =>
    cases r with
    | none =>
      simp only [step, addBound]
      split <;> exact h
    | some b =>
      intro _ hs
      exfalso
      have hl := congrArg List.length hs
      simp only [step, addBound, addBoundOk] at hl
      split at hl <;> simp at hl
  | addSamples sh rs it =>
    simp only [step]
    rcases addSamples_cases env s sh rs it with h0 | ⟨points, nBound, idxT', tShell', hne, _, _, hres⟩
    · rw [h0]; exact h
    · rw [hres]
      intro _ hs
      exfalso
      have hl := congrArg List.length hs
      simp only [addSamplesRes, updateShellInfo, List.length_modify] at hl
      split at hl
      · simp only [List.length_modify, List.length_nil] at hl
        exact hne (List.length_eq_zero_iff.1 hl)
      · exact hne (List.length_eq_zero_iff.1 hl)
  | endExploration d =>
    intro hx
    simp [step, endExploration, setDiscard, updateAll] at hx
  | setDiscard b =>
    intro hx hs
    simp only [step, setDiscard, updateAll, List.map_eq_nil_iff] at hx hs
    exact h hx hs

theorem inv01_exec_corrected (env : Env) (s : St) (ops : List Op) (ha : Aligned s) (h : Inv01 env s)
    (hte : TEmpty s) (hw : WF env s ops) (hp : TPhase env s ops) : Inv01 env (exec env s ops) := by
  induction ops generalizing s with
  | nil => exact h
  | cons op ops ih =>
    exact ih _ (aligned_step env s op ha) (inv01_step_corrected env s op ha h hte hw.1 hp.1)
      (tEmpty_step env s op hte) hw.2 hp.2

theorem inv01_exec_init (env : Env) (nBatch : Nat) (ops : List Op) (hw : WF env (init nBatch) ops)
    (hp : TPhase env (init nBatch) ops) : Inv01 env (exec env (init nBatch) ops) :=
  inv01_exec_corrected env _ ops (aligned_init nBatch) (inv01_init env nBatch) (tEmpty_init nBatch) hw hp

/-! ### why the phase hypotheses are needed

The statements originally planned,
  `inv01_step : Aligned s → Inv01 env s → OpOK env s op → Inv01 env (step env s op).1` and
  `inv01_exec : Aligned s → Inv01 env s → WF env s ops → Inv01 env (exec env s ops)`,
are false; the three examples below are checked by the kernel. -/
section Counterexamples

/-- (1) without `TEmpty`: a state with no shell but a leftover transfer candidate; the first `add_bound` keeps
    the candidate although it need not lie in the new bound. -/
example :
    let env : Env := { contains := fun _ _ => false, inCube := fun _ => true }
    let s : St := { nBatch := 1, tPts := [0], tLs := [0], tBs := [0], tShell := [0] }
    Aligned s ∧ Inv01 env s ∧ OpOK env s (.addBound (some 0)) ∧ ¬ Inv01 env (step env s (.addBound (some 0))).1 := by
  decide

/-- (2) without `TransferPhase`: once `explored`, `Inv01` says nothing about the transfer arrays, but
    `add_samples(-1)` still moves rows out of them — here row 5, which is already stored. -/
example :
    let env : Env := { contains := fun _ _ => true, inCube := fun _ => true }
    let s : St := { nBatch := 1, shells := [{ bound := 0 }, { bound := 1, pts := [5], ls := [5], bs := [5] }],
                    tPts := [5], tLs := [5], tBs := [5], tShell := [0], explored := true }
    let op : Op := .addSamples none [⟨[7], []⟩, ⟨[8], [8]⟩] [0]
    Aligned s ∧ Inv01 env s ∧ OpOK env s op ∧ (step env s op).2 = .ok ∧ ¬ NoDup (step env s op).1 := by
  decide

/-- (3) `inv01_exec` fails even from `init` under `WF` alone: `endExploration` drops the (empty) newest shell 2,
    the leftover candidate 1 ∈ bound 2 is then transferred into shell 1 although it is not in bound 1. -/
example :
    let env : Env := { contains := fun b p => match b with
        | 0 => true | 1 => p == 2 || p == 7 || p == 8 | 2 => p == 1 | _ => false, inCube := fun _ => true }
    let ops : List Op := [ .addBound (some 0), .addSamples none [⟨[1], [1]⟩] [], .addBound (some 1),
      .addSamples none [⟨[2], [2]⟩] [], .addBound (some 2), .addSamples (some 0) [⟨[3], [3]⟩] [],
      .endExploration false, .addSamples none [⟨[7], []⟩, ⟨[8], [8]⟩] [0] ]
    WF env (init 1) ops ∧ Inv01 env (exec env (init 1) ops.dropLast) ∧ ¬ InShells env (exec env (init 1) ops) := by
  decide

end Counterexamples

end NautilusVerif.Core

#print axioms NautilusVerif.Core.aligned_init
#print axioms NautilusVerif.Core.aligned_step
#print axioms NautilusVerif.Core.aligned_exec
#print axioms NautilusVerif.Core.inv01_init
#print axioms NautilusVerif.Core.inv01_step_corrected
#print axioms NautilusVerif.Core.tEmpty_init
#print axioms NautilusVerif.Core.tEmpty_step
#print axioms NautilusVerif.Core.inv01_exec_corrected
#print axioms NautilusVerif.Core.inv01_exec_init
#print axioms NautilusVerif.Core.assoc_of_inShells
#print axioms NautilusVerif.Core.shells_disjoint
