/- C01: the shell-membership invariant of the `Core` state machine (statements fixed by Properties/C01.lean). -/
import NautilusVerif.Lemmas.CoreWF
import Mathlib.Data.List.Basic
import Mathlib.Data.List.Nodup
import Mathlib.Data.List.Perm.Basic
import Mathlib.Tactic.Linarith
namespace NautilusVerif.Core

theorem aligned_init (nBatch : Nat) : Aligned (init nBatch) := by
  sorry

/-- alignment of the parallel arrays is preserved by every operation, whatever the oracles return -/
theorem aligned_step (env : Env) (s : St) (op : Op) (h : Aligned s) : Aligned (step env s op).1 := by
  sorry

theorem aligned_exec (env : Env) (s : St) (ops : List Op) (h : Aligned s) : Aligned (exec env s ops) := by
  sorry

theorem inv01_init (env : Env) (nBatch : Nat) : Inv01 env (init nBatch) := by
  sorry

theorem inv01_step (env : Env) (s : St) (op : Op) (ha : Aligned s) (h : Inv01 env s) (hop : OpOK env s op) :
    Inv01 env (step env s op).1 := by
  sorry

theorem inv01_exec (env : Env) (s : St) (ops : List Op) (ha : Aligned s) (h : Inv01 env s) (hw : WF env s ops) :
    Inv01 env (exec env s ops) := by
  sorry

/-- `shell_association` of a stored sample is the shell it is stored under -/
theorem assoc_of_inShells (env : Env) (s : St) (h : InShells env s) (sh : Shell) (i : Nat)
    (hi : (sh, i) ∈ s.shells.zipIdx) (p : Pt) (hp : p ∈ sh.pts) : assoc env (bounds s) p = (i : Int) := by
  sorry

/-- shells partition the stored samples -/
theorem shells_disjoint (s : St) (h : NoDup s) (i k : Nat) (hik : i ≠ k) (a b : Shell)
    (ha : s.shells[i]? = some a) (hb : s.shells[k]? = some b) : ∀ p ∈ a.pts, p ∉ b.pts := by
  sorry

end NautilusVerif.Core
