import NautilusVerif.Model.NodupFast
import Mathlib.Data.List.Sort
import Mathlib.Data.List.Nodup
namespace NautilusVerif

/-- on a `≤`-sorted list the adjacent test decides `List.Nodup` -/
theorem adjacentDistinct_iff_of_sorted :
    ∀ (l : List Nat), l.Pairwise (fun a b => a ≤ b) → (adjacentDistinct l = true ↔ l.Nodup)
  | [], _ => by simp [adjacentDistinct]
  | [a], _ => by simp [adjacentDistinct]
  | a :: b :: rest, h => by
    have hab : a ≤ b := (List.pairwise_cons.1 h).1 b (by simp)
    have htail : (b :: rest).Pairwise (fun a b => a ≤ b) := (List.pairwise_cons.1 h).2
    have ih := adjacentDistinct_iff_of_sorted (b :: rest) htail
    have hmem : a ∈ b :: rest ↔ a = b := by
      constructor
      · intro hm
        rcases List.mem_cons.1 hm with h1 | h1
        · exact h1
        · have hb : b ≤ a := (List.pairwise_cons.1 htail).1 a h1
          exact Nat.le_antisymm hab hb
      · intro h1
        simp [h1]
    rw [List.nodup_cons, hmem, ← ih]
    simp [adjacentDistinct]

/-- the sort-based test decides `List.Nodup` -/
theorem nodupFast_iff (l : List Nat) : nodupFast l = true ↔ l.Nodup := by
  unfold nodupFast
  have hs : (l.mergeSort (fun a b => decide (a ≤ b))).Pairwise (fun a b => a ≤ b) := by
    have := List.pairwise_mergeSort (le := fun a b : Nat => decide (a ≤ b))
      (by intro a b c h1 h2; simp at h1 h2 ⊢; omega)
      (by intro a b; simp; omega) l
    simpa using this
  rw [adjacentDistinct_iff_of_sorted _ hs]
  exact (List.mergeSort_perm l _).nodup_iff

end NautilusVerif

#print axioms NautilusVerif.nodupFast_iff
