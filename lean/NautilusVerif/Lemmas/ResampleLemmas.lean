/- Lemmas for C14 (statements fixed by Properties/C14.lean). -/
import NautilusVerif.Model.Resample
import Mathlib.Data.Rat.Floor
import Mathlib.Algebra.Order.Floor.Ring
import Mathlib.Tactic.Linarith
import Mathlib.Tactic.Ring
import Mathlib.Tactic.Positivity
import Mathlib.MeasureTheory.Measure.Lebesgue.Basic
import Mathlib.Analysis.SpecialFunctions.Log.Basic
namespace NautilusVerif.Resample

theorem floor_eq (r : ℚ) : r.floor = ⌊r⌋ := rfl

theorem reps_range (r u : ℚ) : reps r u = ⌊r⌋ ∨ reps r u = ⌊r⌋ + 1 := by
  sorry

theorem reps_up_iff (r u : ℚ) : reps r u = ⌊r⌋ + 1 ↔ u < Int.fract r := by
  sorry

theorem mean_spec (r : ℚ) :
    MeasureTheory.volume {u : ℝ | 0 ≤ u ∧ u < 1 ∧ u < ((Int.fract r : ℚ) : ℝ)} = ENNReal.ofReal ((Int.fract r : ℚ) : ℝ)
    ∧ ((⌊r⌋ : ℚ) + Int.fract r = r) := by
  sorry

theorem mean_grid (r : ℚ) (N : ℕ) (hN : 0 < N) (m : ℕ) (hm : (m : ℚ) = N * Int.fract r) :
    ((Finset.range N).filter (fun k : ℕ => reps r ((k : ℚ) / (N : ℚ)) = ⌊r⌋ + 1)).card = m := by
  sorry

theorem noDup (w wmax boost u : ℚ) (hw : 0 ≤ w) (hle : w ≤ wmax) (hpos : 0 < wmax)
    (hb0 : 0 < boost) (hb1 : boost ≤ 1) (hu : 0 ≤ u) :
    0 ≤ reps (relWeight w wmax boost) u ∧ reps (relWeight w wmax boost) u ≤ 1 := by
  sorry

theorem zero_weight (wmax boost u : ℚ) (hu : 0 ≤ u) : reps (relWeight 0 wmax boost) u = 0 := by
  sorry

theorem reps_nonneg (r u : ℚ) (hr : 0 ≤ r) : 0 ≤ reps r u := by
  sorry

theorem expand_flatten {α} (xs : List α) (ks : List ℕ) :
    expand xs ks = (List.zipWith (fun x k => List.replicate k x) xs ks).flatten := by
  sorry

theorem expand_length {α} (xs : List α) (ks : List ℕ) (h : xs.length = ks.length) :
    (expand xs ks).length = ks.sum := by
  sorry

theorem expand_zip3 {α β γ} (ps : List α) (ls : List β) (bs : List γ) (ks : List ℕ) :
    expand (List.zip ps (List.zip ls bs)) ks = List.zip (expand ps ks) (List.zip (expand ls ks) (expand bs ks)) := by
  sorry

theorem weights_norm (N : ℕ) (hN : 0 < N) : (N : ℝ) * Real.exp (0 - Real.log N) = 1 := by
  sorry

end NautilusVerif.Resample
