/- Lemmas for C14 (statements fixed by Properties/C14.lean). -/
import NautilusVerif.Model.Resample
import Mathlib.Data.Rat.Floor
import Mathlib.Algebra.Order.Floor.Ring
import Mathlib.Tactic.Linarith
import Mathlib.Tactic.Ring
import Mathlib.Tactic.Positivity
import Mathlib.MeasureTheory.Measure.Lebesgue.Basic
import Mathlib.Analysis.SpecialFunctions.Log.Basic
namespace NautilusVerif.Resample

theorem floor_eq (r : ℚ) : r.floor = ⌊r⌋ := rfl

theorem reps_def (r u : ℚ) : reps r u = ⌊r⌋ + (if u < Int.fract r then 1 else 0) := by
  unfold reps
  rw [floor_eq, Int.self_sub_floor]

theorem reps_range (r u : ℚ) : reps r u = ⌊r⌋ ∨ reps r u = ⌊r⌋ + 1 := by
  rw [reps_def]
  split_ifs
  · right; rfl
  · left; simp

theorem reps_up_iff (r u : ℚ) : reps r u = ⌊r⌋ + 1 ↔ u < Int.fract r := by
  rw [reps_def]
  split_ifs with h
  · simp [h]
  · simp [h]

theorem mean_spec (r : ℚ) :
    MeasureTheory.volume {u : ℝ | 0 ≤ u ∧ u < 1 ∧ u < ((Int.fract r : ℚ) : ℝ)} = ENNReal.ofReal ((Int.fract r : ℚ) : ℝ)
    ∧ ((⌊r⌋ : ℚ) + Int.fract r = r) := by
  refine ⟨?_, Int.floor_add_fract r⟩
  have hlt : ((Int.fract r : ℚ) : ℝ) < 1 := by
    have := Int.fract_lt_one r
    exact_mod_cast this
  have hset : {u : ℝ | 0 ≤ u ∧ u < 1 ∧ u < ((Int.fract r : ℚ) : ℝ)} = Set.Ico (0:ℝ) ((Int.fract r : ℚ) : ℝ) := by
    ext u
    simp only [Set.mem_ofPred_eq, Set.mem_Ico]
    constructor
    · rintro ⟨h0, _, h2⟩; exact ⟨h0, h2⟩
    · rintro ⟨h0, h2⟩; exact ⟨h0, lt_trans h2 hlt, h2⟩
  rw [hset, Real.volume_Ico, sub_zero]

theorem mean_grid (r : ℚ) (N : ℕ) (hN : 0 < N) (m : ℕ) (hm : (m : ℚ) = N * Int.fract r) :
    ((Finset.range N).filter (fun k : ℕ => reps r ((k : ℚ) / (N : ℚ)) = ⌊r⌋ + 1)).card = m := by
  have hNq : (0 : ℚ) < N := by exact_mod_cast hN
  have hmN : m ≤ N := by
    have h1 : (m : ℚ) < N := by
      rw [hm]
      have := Int.fract_lt_one r
      nlinarith
    have : m < N := by exact_mod_cast h1
    omega
  have hfilter : (Finset.range N).filter (fun k : ℕ => reps r ((k : ℚ) / (N : ℚ)) = ⌊r⌋ + 1) = Finset.range m := by
    ext k
    simp only [Finset.mem_filter, Finset.mem_range, reps_up_iff]
    rw [div_lt_iff₀ hNq, mul_comm, ← hm, Nat.cast_lt]
    constructor
    · rintro ⟨_, h⟩; exact h
    · intro h; exact ⟨lt_of_lt_of_le h hmN, h⟩
  rw [hfilter, Finset.card_range]

theorem reps_nonneg (r u : ℚ) (hr : 0 ≤ r) : 0 ≤ reps r u := by
  have h0 : 0 ≤ ⌊r⌋ := Int.floor_nonneg.mpr hr
  rcases reps_range r u with h | h <;> rw [h] <;> omega

theorem noDup (w wmax boost u : ℚ) (hw : 0 ≤ w) (hle : w ≤ wmax) (hpos : 0 < wmax)
    (hb0 : 0 < boost) (hb1 : boost ≤ 1) (hu : 0 ≤ u) :
    0 ≤ reps (relWeight w wmax boost) u ∧ reps (relWeight w wmax boost) u ≤ 1 := by
  have hq0 : 0 ≤ w / wmax := div_nonneg hw hpos.le
  have hq1 : w / wmax ≤ 1 := (div_le_one hpos).mpr hle
  have hr0 : 0 ≤ relWeight w wmax boost := by
    unfold relWeight; exact mul_nonneg hq0 hb0.le
  have hr1 : relWeight w wmax boost ≤ 1 := by
    unfold relWeight; exact mul_le_one₀ hq1 hb0.le hb1
  refine ⟨reps_nonneg _ _ hr0, ?_⟩
  rcases lt_or_eq_of_le hr1 with hlt | heq
  · have hf : ⌊relWeight w wmax boost⌋ = 0 := Int.floor_eq_zero_iff.mpr ⟨hr0, hlt⟩
    rcases reps_range (relWeight w wmax boost) u with h | h <;> rw [h, hf] <;> norm_num
  · rw [heq, reps_def]
    have : ¬ u < Int.fract (1 : ℚ) := by
      rw [Int.fract_one]; exact not_lt.mpr hu
    rw [if_neg this]
    simp

theorem zero_weight (wmax boost u : ℚ) (hu : 0 ≤ u) : reps (relWeight 0 wmax boost) u = 0 := by
  have h : relWeight 0 wmax boost = 0 := by unfold relWeight; rw [zero_div, zero_mul]
  rw [h, reps_def]
  have : ¬ u < Int.fract (0 : ℚ) := by
    rw [Int.fract_zero]; exact not_lt.mpr hu
  rw [if_neg this]
  simp

theorem expand_nil_left {α} (ks : List ℕ) : expand ([] : List α) ks = [] := by
  cases ks <;> rfl

theorem expand_nil_right {α} (xs : List α) : expand xs [] = [] := by
  cases xs <;> rfl

theorem expand_cons {α} (x : α) (xs : List α) (k : ℕ) (ks : List ℕ) :
    expand (x :: xs) (k :: ks) = List.replicate k x ++ expand xs ks := rfl

theorem expand_flatten {α} (xs : List α) (ks : List ℕ) :
    expand xs ks = (List.zipWith (fun x k => List.replicate k x) xs ks).flatten := by
  induction xs generalizing ks with
  | nil => simp [expand_nil_left]
  | cons x xs ih =>
    cases ks with
    | nil => simp [expand_nil_right]
    | cons k ks => simp [expand_cons, ih]

theorem expand_length {α} (xs : List α) (ks : List ℕ) (h : xs.length = ks.length) :
    (expand xs ks).length = ks.sum := by
  induction xs generalizing ks with
  | nil =>
    cases ks with
    | nil => rfl
    | cons k ks => simp at h
  | cons x xs ih =>
    cases ks with
    | nil => simp at h
    | cons k ks =>
      simp only [List.length_cons, Nat.add_right_cancel_iff] at h
      simp [expand_cons, ih ks h]

theorem zip_replicate_same {α β} (k : ℕ) (a : α) (b : β) :
    List.zip (List.replicate k a) (List.replicate k b) = List.replicate k (a, b) := by
  induction k with
  | zero => rfl
  | succ k ih => simp [List.replicate_succ, ih]

theorem expand_zip3 {α β γ} (ps : List α) (ls : List β) (bs : List γ) (ks : List ℕ) :
    expand (List.zip ps (List.zip ls bs)) ks = List.zip (expand ps ks) (List.zip (expand ls ks) (expand bs ks)) := by
  induction ks generalizing ps ls bs with
  | nil => simp [expand_nil_right]
  | cons k ks ih =>
    cases ps with
    | nil => simp [expand_nil_left]
    | cons p ps =>
      cases ls with
      | nil => simp [expand_nil_left]
      | cons l ls =>
        cases bs with
        | nil => simp [expand_nil_left]
        | cons b bs =>
          simp only [List.zip_cons_cons, expand_cons]
          rw [ih]
          rw [List.zip_append (by simp), List.zip_append (by simp), zip_replicate_same, zip_replicate_same]

theorem weights_norm (N : ℕ) (hN : 0 < N) : (N : ℝ) * Real.exp (0 - Real.log N) = 1 := by
  have hpos : (0 : ℝ) < N := Nat.cast_pos.mpr hN
  rw [zero_sub, Real.exp_neg, Real.exp_log hpos]
  exact mul_inv_cancel₀ hpos.ne'

end NautilusVerif.Resample

#print axioms NautilusVerif.Resample.reps_range
#print axioms NautilusVerif.Resample.reps_up_iff
#print axioms NautilusVerif.Resample.mean_spec
#print axioms NautilusVerif.Resample.mean_grid
#print axioms NautilusVerif.Resample.noDup
#print axioms NautilusVerif.Resample.zero_weight
#print axioms NautilusVerif.Resample.reps_nonneg
#print axioms NautilusVerif.Resample.expand_flatten
#print axioms NautilusVerif.Resample.expand_length
#print axioms NautilusVerif.Resample.expand_zip3
#print axioms NautilusVerif.Resample.weights_norm
