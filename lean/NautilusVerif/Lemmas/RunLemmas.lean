/- `Run`: every event sequence accepted by the model of `run()` obeys the phase discipline the `Core` theorems assume,
   freezes the bounds once exploration has finished, keeps the budget and returns the success predicate. -/
import NautilusVerif.Model.Run
import NautilusVerif.Lemmas.CoreCounts
namespace NautilusVerif.Run
open Core

/-! ### what the operations leave alone -/

theorem addBound_fields (env : Env) (s : St) (r : Option BId) :
    (addBound env s r).1.explored = s.explored ∧ (addBound env s r).1.nLike = s.nLike ∧
    (addBound env s r).1.nBatch = s.nBatch := by
  cases r with
  | none => simp only [addBound]; split <;> exact ⟨rfl, rfl, rfl⟩
  | some b =>
    obtain ⟨h1, _, h3, h4⟩ := addBoundOk_fields env s b
    exact ⟨h1, h3, h4⟩

theorem addSamples_fields (env : Env) (s : St) (sh : Option Nat) (rs : List Round) (it : List Nat) :
    (addSamples env s sh rs it).1.explored = s.explored ∧ (addSamples env s sh rs it).1.nBatch = s.nBatch ∧
    (addSamples env s sh rs it).1.nLike ≤ s.nLike + s.nBatch ∧ s.nLike ≤ (addSamples env s sh rs it).1.nLike := by
  rcases addSamples_nf env s sh rs it with ⟨h, _⟩ | ⟨points, nBound, idxT', tShell', hi, hsr, hu, heq⟩
  · rw [h]; exact ⟨rfl, rfl, Nat.le_add_right _ _, le_refl _⟩
  · obtain ⟨h1, _, _, _⟩ := sampleRounds_spec_cc _ _ _ _ _ _ _ _ _ _ _ _ _ hsr rfl (le_refl _)
    dsimp only at h1
    rw [heq]
    refine ⟨rfl, rfl, ?_, ?_⟩ <;> dsimp only <;> omega

theorem step_nBatch (env : Env) (s : St) (o : Op) : (step env s o).1.nBatch = s.nBatch := by
  cases o with
  | addBound r => exact (addBound_fields env s r).2.2
  | addSamples sh rs it => exact (addSamples_fields env s sh rs it).2.1
  | endExploration d => rfl
  | setDiscard b => rfl

theorem step_nLike_le (env : Env) (s : St) (o : Op) :
    (step env s o).1.nLike ≤ s.nLike + s.nBatch ∧ s.nLike ≤ (step env s o).1.nLike := by
  cases o with
  | addBound r => simp only [step]; rw [(addBound_fields env s r).2.1]; exact ⟨Nat.le_add_right _ _, le_refl _⟩
  | addSamples sh rs it => exact (addSamples_fields env s sh rs it).2.2
  | endExploration d => exact ⟨Nat.le_add_right _ _, le_refl _⟩
  | setDiscard b => exact ⟨Nat.le_add_right _ _, le_refl _⟩

theorem step_nLike_of_not_samples (env : Env) (s : St) (o : Op) (h : ∀ sh rs it, o ≠ .addSamples sh rs it) :
    (step env s o).1.nLike = s.nLike := by
  cases o with
  | addBound r => exact (addBound_fields env s r).2.1
  | addSamples sh rs it => exact absurd rfl (h sh rs it)
  | endExploration d => rfl
  | setDiscard b => rfl

/-! ### the position invariant -/

/-- what being at a position of the loop body implies about the state -/
def PosInv : Pos → St → Prop
  | .fresh _, s => s.explored = false
  | .bounded cfg, s => s.explored = false ∧ belowBudget cfg s = true
  | .sampled _, s => s.explored = false
  | _, _ => True

/-- the operation carried by an event respects the phase discipline of `Core` (`PhaseOK`, `TransferPhase`) -/
def EvPhase (s : St) : Ev → Prop
  | .op o => PhaseOK s o ∧ TransferPhase s o
  | _ => True

theorem belowBudget_congr (cfg : Cfg) {s s' : St} (h : s'.nLike = s.nLike) : belowBudget cfg s' = belowBudget cfg s := by
  unfold belowBudget; rw [h]

theorem acceptTop_spec (env : Env) (cfg : Cfg) (s : St) (e : Ev) (pos' : Pos)
    (h : acceptTop cfg s e = some pos') : EvPhase s e ∧ PosInv pos' (apply env s e) := by
  cases e with
  | runStart c => simp [acceptTop] at h
  | runEnd ret ok =>
    simp only [acceptTop] at h
    split at h
    · cases h; exact ⟨trivial, trivial⟩
    · exact absurd h (by simp)
  | op o =>
    cases o with
    | addBound r =>
      simp only [acceptTop] at h
      split at h
      · rename_i hc
        cases h
        simp only [Bool.and_eq_true, Bool.not_eq_true', decide_eq_true_eq] at hc
        refine ⟨⟨hc.1.2, trivial⟩, ?_⟩
        simp only [PosInv, apply, step]
        refine ⟨by rw [(addBound_fields env s r).1]; exact hc.1.2, ?_⟩
        rw [belowBudget_congr cfg (addBound_fields env s r).2.1]; exact hc.1.1
      · exact absurd h (by simp)
    | addSamples sh rs it =>
      cases sh with
      | none =>
        simp only [acceptTop] at h
        split at h
        · rename_i hc
          cases h
          simp only [Bool.and_eq_true, Bool.not_eq_true'] at hc
          refine ⟨⟨trivial, hc.2⟩, ?_⟩
          simp only [PosInv, apply, step]
          rw [(addSamples_fields env s none rs it).1]; exact hc.2
        · exact absurd h (by simp)
      | some i =>
        simp only [acceptTop] at h
        split at h
        · cases h; exact ⟨⟨trivial, trivial⟩, trivial⟩
        · exact absurd h (by simp)
    | endExploration d => simp [acceptTop] at h
    | setDiscard b => simp [acceptTop] at h

/-- one accepted event: the phase discipline holds for it and the position invariant is re-established -/
theorem accept_spec (env : Env) (pos : Pos) (s : St) (e : Ev) (pos' : Pos) (hi : PosInv pos s)
    (h : accept pos s e = some pos') : EvPhase s e ∧ PosInv pos' (apply env s e) := by
  cases pos with
  | idle =>
    cases e with
    | runStart c =>
      simp only [accept] at h
      split at h
      · split at h
        · rename_i hx
          cases h
          exact ⟨trivial, by simpa [PosInv, apply] using hx⟩
        · exact absurd h (by simp)
      · cases h; exact ⟨trivial, trivial⟩
    | runEnd ret ok => simp [accept] at h
    | op o =>
      cases o with
      | setDiscard b => simp only [accept] at h; cases h; exact ⟨⟨trivial, trivial⟩, trivial⟩
      | addBound r => simp [accept] at h
      | addSamples sh rs it => simp [accept] at h
      | endExploration d => simp [accept] at h
  | fresh cfg =>
    cases e with
    | runStart c => simp [accept] at h
    | runEnd ret ok => simp [accept] at h
    | op o =>
      cases o with
      | addBound r =>
        cases r with
        | none => simp [accept] at h
        | some b => simp only [accept] at h; cases h; exact ⟨⟨hi, trivial⟩, trivial⟩
      | setDiscard b => simp [accept] at h
      | addSamples sh rs it => simp [accept] at h
      | endExploration d => simp [accept] at h
  | top cfg => exact acceptTop_spec env cfg s e pos' (by simpa [accept] using h)
  | bounded cfg =>
    cases e with
    | runStart c => simp [accept] at h
    | runEnd ret ok => simp [accept] at h
    | op o =>
      cases o with
      | addSamples sh rs it =>
        cases sh with
        | none =>
          simp only [accept] at h; cases h
          refine ⟨⟨trivial, hi.1⟩, ?_⟩
          simp only [PosInv, apply, step]
          rw [(addSamples_fields env s none rs it).1]; exact hi.1
        | some i => simp [accept] at h
      | addBound r => simp [accept] at h
      | setDiscard b => simp [accept] at h
      | endExploration d => simp [accept] at h
  | sampled cfg =>
    cases e with
    | op o =>
      cases o with
      | endExploration d =>
        simp only [accept] at h
        split at h
        · cases h; exact ⟨⟨hi, trivial⟩, trivial⟩
        · exact absurd h (by simp)
      | addBound r => exact acceptTop_spec env cfg s _ pos' (by simpa [accept] using h)
      | addSamples sh rs it => exact acceptTop_spec env cfg s _ pos' (by simpa [accept] using h)
      | setDiscard b => exact acceptTop_spec env cfg s _ pos' (by simpa [accept] using h)
    | runStart c => exact acceptTop_spec env cfg s _ pos' (by simpa [accept] using h)
    | runEnd ret ok => exact acceptTop_spec env cfg s _ pos' (by simpa [accept] using h)

/-! ### accepted sequences -/

theorem execEv_cons (env : Env) (s : St) (e : Ev) (es : List Ev) :
    execEv env s (e :: es) = execEv env (apply env s e) es := rfl

theorem exec_opsOf (env : Env) : ∀ (es : List Ev) (s : St), exec env s (opsOf es) = execEv env s es
  | [], _ => rfl
  | e :: es, s => by
    cases e with
    | op o => simp only [opsOf, exec_cons, execEv_cons, apply]; exact exec_opsOf env es _
    | runStart c => simp only [opsOf, execEv_cons, apply]; exact exec_opsOf env es _
    | runEnd r k => simp only [opsOf, execEv_cons, apply]; exact exec_opsOf env es _

/-- **every event sequence `run()` can issue obeys the phase discipline**: bounds are inserted, exploration is ended
    and `add_samples(-1)` is called only while `not self.explored` -/
theorem accepts_phase (env : Env) : ∀ (es : List Ev) (pos : Pos) (s : St) (pos' : Pos), PosInv pos s →
    accepts env pos s es = some pos' →
    RunShaped env s (opsOf es) ∧ TPhase env s (opsOf es) ∧ PosInv pos' (execEv env s es)
  | [], pos, s, pos', hi, h => by
    simp only [accepts, Option.some.injEq] at h
    subst h
    exact ⟨trivial, trivial, hi⟩
  | e :: es, pos, s, pos', hi, h => by
    simp only [accepts] at h
    split at h
    · exact absurd h (by simp)
    rename_i pos1 hacc
    obtain ⟨hph, hinv⟩ := accept_spec env pos s e pos1 hi hacc
    obtain ⟨ih1, ih2, ih3⟩ := accepts_phase env es pos1 (apply env s e) pos' hinv h
    cases e with
    | op o =>
      simp only [opsOf, RunShaped, TPhase, execEv_cons]
      exact ⟨⟨hph.1, ih1⟩, ⟨hph.2, ih2⟩, ih3⟩
    | runStart c => simp only [opsOf, execEv_cons]; exact ⟨ih1, ih2, ih3⟩
    | runEnd r k => simp only [opsOf, execEv_cons]; exact ⟨ih1, ih2, ih3⟩

/-- acceptance of a concatenation -/
theorem accepts_append (env : Env) : ∀ (es₁ es₂ : List Ev) (pos : Pos) (s : St),
    accepts env pos s (es₁ ++ es₂) = (accepts env pos s es₁).bind (fun p => accepts env p (execEv env s es₁) es₂)
  | [], es₂, pos, s => by simp [accepts, execEv]
  | e :: es₁, es₂, pos, s => by
    simp only [List.cons_append, accepts]
    cases h : accept pos s e with
    | none => simp
    | some pos1 => simp only []; rw [accepts_append env es₁ es₂ pos1 (apply env s e), execEv_cons]

theorem execEv_append (env : Env) (s : St) (es₁ es₂ : List Ev) :
    execEv env s (es₁ ++ es₂) = execEv env (execEv env s es₁) es₂ := by
  unfold execEv; rw [List.foldl_append]

/-- a *session*: segments of events, each played by one sampler object; between two segments a new object is resumed from
    the checkpoint file.  A resume is only possible between `run()` calls (position `idle`) and — this is what C05/C09 are
    about, checked on the abstraction of every real resume by the replay — restores the bookkeeping state exactly. -/
def acceptsSession (env : Env) : St → List (List Ev) → Bool
  | _, [] => true
  | s, seg :: segs => (accepts env .idle s seg == some .idle) && acceptsSession env (execEv env s seg) segs

/-- a session is a history of `run()` calls: its concatenation is accepted, so every theorem about accepted sequences holds
    across resumes -/
theorem session_flatten (env : Env) : ∀ (segs : List (List Ev)) (s : St), acceptsSession env s segs = true →
    accepts env .idle s segs.flatten = some .idle
  | [], _, _ => rfl
  | seg :: segs, s, h => by
    simp only [acceptsSession, Bool.and_eq_true, beq_iff_eq] at h
    rw [List.flatten_cons, accepts_append, h.1]
    exact session_flatten env segs _ h.2

/-- positions that can be occupied once exploration has finished -/
def PosLate : Pos → Prop
  | .idle => True
  | .top _ => True
  | _ => False

theorem accept_late (pos : Pos) (s : St) (e : Ev) (pos' : Pos) (hl : PosLate pos) (hx : s.explored = true)
    (h : accept pos s e = some pos') : PosLate pos' ∧ (∀ o, e = .op o → SamplingOp o) := by
  cases pos with
  | idle =>
    cases e with
    | runStart c =>
      simp only [accept, hx] at h
      split at h
      · simp at h
      · cases h; exact ⟨trivial, fun o ho => by cases ho⟩
    | runEnd ret ok => simp [accept] at h
    | op o =>
      cases o with
      | setDiscard b =>
        simp only [accept] at h; cases h
        exact ⟨trivial, fun o ho => by cases ho; trivial⟩
      | addBound r => simp [accept] at h
      | addSamples sh rs it => simp [accept] at h
      | endExploration d => simp [accept] at h
  | top cfg =>
    have h' : acceptTop cfg s e = some pos' := by simpa [accept] using h
    cases e with
    | runStart c => simp [acceptTop] at h'
    | runEnd ret ok =>
      simp only [acceptTop] at h'
      split at h'
      · cases h'; exact ⟨trivial, fun o ho => by cases ho⟩
      · exact absurd h' (by simp)
    | op o =>
      cases o with
      | addBound r => simp [acceptTop, hx] at h'
      | addSamples sh rs it =>
        cases sh with
        | none => simp [acceptTop, hx] at h'
        | some i =>
          simp only [acceptTop] at h'
          split at h'
          · cases h'; exact ⟨trivial, fun o ho => by cases ho; trivial⟩
          · exact absurd h' (by simp)
      | endExploration d => simp [acceptTop] at h'
      | setDiscard b => simp [acceptTop] at h'
  | fresh cfg => exact absurd hl (by simp [PosLate])
  | bounded cfg => exact absurd hl (by simp [PosLate])
  | sampled cfg => exact absurd hl (by simp [PosLate])

theorem apply_explored (env : Env) (s : St) (e : Ev) (hx : s.explored = true) : (apply env s e).explored = true := by
  cases e with
  | op o => exact explored_mono env s o hx
  | runStart c => exact hx
  | runEnd r k => exact hx

/-- **once exploration has finished, `run()` only issues sampling-phase operations** (whatever the limits, however
    many further calls and switches of `discard_exploration`) -/
theorem accepts_late (env : Env) : ∀ (es : List Ev) (pos : Pos) (s : St) (pos' : Pos), PosLate pos →
    s.explored = true → accepts env pos s es = some pos' → ∀ o ∈ opsOf es, SamplingOp o
  | [], _, _, _, _, _, _ => by simp [opsOf]
  | e :: es, pos, s, pos', hl, hx, h => by
    simp only [accepts] at h
    split at h
    · exact absurd h (by simp)
    rename_i pos1 hacc
    obtain ⟨hl1, hop⟩ := accept_late pos s e pos1 hl hx hacc
    have ih := accepts_late env es pos1 (apply env s e) pos' hl1 (apply_explored env s e hx) h
    cases e with
    | op o =>
      simp only [opsOf, List.mem_cons]
      rintro o' (rfl | ho')
      · exact hop _ rfl
      · exact ih o' ho'
    | runStart c => simpa [opsOf] using ih
    | runEnd r k => simpa [opsOf] using ih

/-- ... so the set of bounds is frozen, no shell appears or disappears, and every stored array only grows at its end -/
theorem frozen_exec (env : Env) : ∀ (ops : List Op) (s : St), s.explored = true → (∀ o ∈ ops, SamplingOp o) →
    (exec env s ops).explored = true ∧ bounds (exec env s ops) = bounds s ∧
    (exec env s ops).shells.length = s.shells.length ∧
    ∀ (i : Nat) (a b : Shell), s.shells[i]? = some a → (exec env s ops).shells[i]? = some b →
      a.pts <+: b.pts ∧ a.ls <+: b.ls ∧ a.bs <+: b.bs ∧ b.endExp = a.endExp ∧ b.nSampleExp = a.nSampleExp ∧
      b.bound = a.bound
  | [], s, hx, _ => ⟨hx, rfl, rfl, fun i a b h1 h2 => by
      simp only [exec, List.foldl_nil] at h2
      rw [h1] at h2; cases h2
      exact ⟨List.prefix_refl _, List.prefix_refl _, List.prefix_refl _, rfl, rfl, rfl⟩⟩
  | o :: ops, s, hx, ho => by
    obtain ⟨s1, s2, s3, s4⟩ := sampling_step env s o hx (ho o (by simp))
    obtain ⟨i1, i2, i3, i4⟩ := frozen_exec env ops (step env s o).1 s1 (fun o' ho' => ho o' (by simp [ho']))
    rw [exec_cons]
    refine ⟨i1, i2.trans s2, i3.trans s3, ?_⟩
    intro i a b h1 h2
    have hlt : i < (step env s o).1.shells.length := by
      rw [s3]; exact (List.getElem?_eq_some_iff.mp h1).1
    obtain ⟨m, hm⟩ : ∃ m, (step env s o).1.shells[i]? = some m := ⟨_, List.getElem?_eq_getElem hlt⟩
    obtain ⟨a1, a2, a3, a4, a5, a6⟩ := s4 i a m h1 hm
    obtain ⟨b1, b2, b3, b4, b5, b6⟩ := i4 i m b hm h2
    exact ⟨a1.trans b1, a2.trans b2, a3.trans b3, b4.trans a4, b5.trans a5, b6.trans a6⟩

/-! ### budget and return value -/

/-- the positions of one `run()` call with arguments `cfg` -/
def InCall (cfg : Cfg) : Pos → Prop
  | .fresh c => c = cfg
  | .top c => c = cfg
  | .bounded c => c = cfg
  | .sampled c => c = cfg
  | .idle => False

def NoStart : Ev → Prop
  | .runStart _ => False
  | _ => True

/-- budget invariant: at the positions where a batch may follow without another look at the guard (`bounded`) the
    counter is below the limit; everywhere it is below limit + one batch -/
def BudgetInv (m : Nat) (pos : Pos) (s : St) : Prop :=
  s.nLike < m + s.nBatch ∧ (∀ cfg, pos = .bounded cfg → s.nLike < m)

theorem belowBudget_some {cfg : Cfg} {m : Nat} (hm : cfg.nLikeMax = some m) (s : St) :
    belowBudget cfg s = true ↔ s.nLike < m := by
  simp [belowBudget, hm]

theorem accept_budget (env : Env) (cfg : Cfg) (m : Nat) (hm : cfg.nLikeMax = some m) (pos : Pos) (s : St) (e : Ev)
    (pos' : Pos) (hc : InCall cfg pos ∨ pos = .idle) (hn : NoStart e) (hb : BudgetInv m pos s)
    (h : accept pos s e = some pos') :
    (InCall cfg pos' ∨ pos' = .idle) ∧ BudgetInv m pos' (apply env s e) := by
  have keep : ∀ o : Op, (∀ sh rs it, o ≠ .addSamples sh rs it) → ∀ p : Pos, (∀ c, p ≠ .bounded c) →
      BudgetInv m p (apply env s (.op o)) := by
    intro o ho p hp
    simp only [BudgetInv, apply]
    rw [step_nLike_of_not_samples env s o ho, step_nBatch]
    exact ⟨hb.1, fun c hc => absurd hc (hp c)⟩
  have sampled : ∀ (sh : Option Nat) rs it (p : Pos), s.nLike < m → (∀ c, p ≠ .bounded c) →
      BudgetInv m p (apply env s (.op (.addSamples sh rs it))) := by
    intro sh rs it p hlt hp
    simp only [BudgetInv, apply, step]
    obtain ⟨_, h2, h3, _⟩ := addSamples_fields env s sh rs it
    rw [h2]
    exact ⟨by omega, fun c hc => absurd hc (hp c)⟩
  have top_case : ∀ c, c = cfg → acceptTop c s e = some pos' →
      (InCall cfg pos' ∨ pos' = .idle) ∧ BudgetInv m pos' (apply env s e) := by
    intro c hcc h'
    subst hcc
    cases e with
    | runStart c' => exact absurd hn (by simp [NoStart])
    | runEnd ret ok =>
      simp only [acceptTop] at h'
      split at h'
      · cases h'; exact ⟨Or.inr rfl, ⟨hb.1, fun c hc => by cases hc⟩⟩
      · exact absurd h' (by simp)
    | op o =>
      cases o with
      | addBound r =>
        simp only [acceptTop] at h'
        split at h'
        · rename_i hcnd
          cases h'
          simp only [Bool.and_eq_true] at hcnd
          have hlt := (belowBudget_some hm s).mp hcnd.1.1
          refine ⟨Or.inl rfl, ?_⟩
          simp only [BudgetInv, apply, step]
          rw [(addBound_fields env s r).2.1, (addBound_fields env s r).2.2]
          exact ⟨hb.1, fun _ _ => hlt⟩
        · exact absurd h' (by simp)
      | addSamples sh rs it =>
        cases sh with
        | none =>
          simp only [acceptTop] at h'
          split at h'
          · rename_i hcnd
            cases h'
            simp only [Bool.and_eq_true] at hcnd
            exact ⟨Or.inl rfl, sampled none rs it _ ((belowBudget_some hm s).mp hcnd.1) (fun c hc => by cases hc)⟩
          · exact absurd h' (by simp)
        | some i =>
          simp only [acceptTop] at h'
          split at h'
          · rename_i hcnd
            cases h'
            simp only [Bool.and_eq_true] at hcnd
            exact ⟨Or.inl rfl, sampled (some i) rs it _ ((belowBudget_some hm s).mp hcnd.1.1.1) (fun c hc => by cases hc)⟩
          · exact absurd h' (by simp)
      | endExploration d => simp [acceptTop] at h'
      | setDiscard b => simp [acceptTop] at h'
  cases pos with
  | idle =>
    cases e with
    | runStart c => exact absurd hn (by simp [NoStart])
    | runEnd ret ok => simp [accept] at h
    | op o =>
      cases o with
      | setDiscard b =>
        simp only [accept] at h; cases h
        exact ⟨Or.inr rfl, keep _ (by intro _ _ _ hh; cases hh) _ (by intro c hc; cases hc)⟩
      | addBound r => simp [accept] at h
      | addSamples sh rs it => simp [accept] at h
      | endExploration d => simp [accept] at h
  | fresh c =>
    have hcc : c = cfg := by rcases hc with hc | hc; exact hc; cases hc
    cases e with
    | runStart c' => simp [accept] at h
    | runEnd ret ok => simp [accept] at h
    | op o =>
      cases o with
      | addBound r =>
        cases r with
        | none => simp [accept] at h
        | some b =>
          simp only [accept] at h; cases h
          exact ⟨Or.inl hcc, keep _ (by intro _ _ _ hh; cases hh) _ (by intro c hc; cases hc)⟩
      | setDiscard b => simp [accept] at h
      | addSamples sh rs it => simp [accept] at h
      | endExploration d => simp [accept] at h
  | top c =>
    have hcc : c = cfg := by rcases hc with hc | hc; exact hc; cases hc
    exact top_case c hcc (by simpa [accept] using h)
  | bounded c =>
    have hcc : c = cfg := by rcases hc with hc | hc; exact hc; cases hc
    cases e with
    | runStart c' => simp [accept] at h
    | runEnd ret ok => simp [accept] at h
    | op o =>
      cases o with
      | addSamples sh rs it =>
        cases sh with
        | none =>
          simp only [accept] at h; cases h
          exact ⟨Or.inl hcc, sampled none rs it _ (hb.2 c rfl) (fun c hc => by cases hc)⟩
        | some i => simp [accept] at h
      | addBound r => simp [accept] at h
      | setDiscard b => simp [accept] at h
      | endExploration d => simp [accept] at h
  | sampled c =>
    have hcc : c = cfg := by rcases hc with hc | hc; exact hc; cases hc
    cases e with
    | op o =>
      cases o with
      | endExploration d =>
        simp only [accept] at h
        split at h
        · cases h
          exact ⟨Or.inl hcc, keep _ (by intro _ _ _ hh; cases hh) _ (by intro c hc; cases hc)⟩
        · exact absurd h (by simp)
      | addBound r => exact top_case c hcc (by simpa [accept] using h)
      | addSamples sh rs it => exact top_case c hcc (by simpa [accept] using h)
      | setDiscard b => exact top_case c hcc (by simpa [accept] using h)
    | runStart c' => exact top_case c hcc (by simpa [accept] using h)
    | runEnd ret ok => exact top_case c hcc (by simpa [accept] using h)

/-- **`run(n_like_max = m)` never takes the counter to `m + n_batch` or beyond** (if it was below that at entry) -/
theorem accepts_budget (env : Env) (cfg : Cfg) (m : Nat) (hm : cfg.nLikeMax = some m) :
    ∀ (es : List Ev) (pos : Pos) (s : St) (pos' : Pos), (InCall cfg pos ∨ pos = .idle) → (∀ e ∈ es, NoStart e) →
      BudgetInv m pos s → accepts env pos s es = some pos' → (execEv env s es).nLike < m + s.nBatch
  | [], _, s, _, _, _, hb, _ => hb.1
  | e :: es, pos, s, pos', hc, hn, hb, h => by
    simp only [accepts] at h
    split at h
    · exact absurd h (by simp)
    rename_i pos1 hacc
    obtain ⟨hc1, hb1⟩ := accept_budget env cfg m hm pos s e pos1 hc (hn e (by simp)) hb hacc
    have ih := accepts_budget env cfg m hm es pos1 (apply env s e) pos' hc1 (fun e' he' => hn e' (by simp [he'])) hb1 h
    have hnb : (apply env s e).nBatch = s.nBatch := by
      cases e with
      | op o => exact step_nBatch env s o
      | runStart c => rfl
      | runEnd r k => rfl
    rw [execEv_cons]
    rw [hnb] at ih
    exact ih

/-- the counter never decreases -/
theorem execEv_nLike_mono (env : Env) : ∀ (es : List Ev) (s : St), s.nLike ≤ (execEv env s es).nLike
  | [], _ => le_refl _
  | e :: es, s => by
    rw [execEv_cons]
    refine le_trans ?_ (execEv_nLike_mono env es _)
    cases e with
    | op o => exact (step_nLike_le env s o).2
    | runStart c => exact le_refl _
    | runEnd r k => exact le_refl _

/-- no batch is started at or beyond the limit: a call entered with `m ≤ n_like` evaluates nothing -/
theorem accepts_noBatchBeyond (env : Env) (cfg : Cfg) (m : Nat) (hm : cfg.nLikeMax = some m) :
    ∀ (es : List Ev) (pos : Pos) (s : St) (pos' : Pos), (pos = .top cfg ∨ pos = .sampled cfg ∨ pos = .idle) →
      (∀ e ∈ es, NoStart e) → m ≤ s.nLike → accepts env pos s es = some pos' → (execEv env s es).nLike = s.nLike
  | [], _, _, _, _, _, _, _ => rfl
  | e :: es, pos, s, pos', hc, hn, hle, h => by
    simp only [accepts] at h
    split at h
    · exact absurd h (by simp)
    rename_i pos1 hacc
    have hbb : belowBudget cfg s = false := by
      cases hb : belowBudget cfg s with
      | false => rfl
      | true => have := (belowBudget_some hm s).mp hb; omega
    have key : (pos1 = .top cfg ∨ pos1 = .sampled cfg ∨ pos1 = .idle) ∧ (apply env s e).nLike = s.nLike := by
      have top_case : acceptTop cfg s e = some pos1 →
          (pos1 = .top cfg ∨ pos1 = .sampled cfg ∨ pos1 = .idle) ∧ (apply env s e).nLike = s.nLike := by
        intro h'
        cases e with
        | runStart c' => exact absurd (hn (.runStart c') (by simp)) (by simp [NoStart])
        | runEnd ret ok =>
          simp only [acceptTop] at h'
          split at h'
          · cases h'; exact ⟨Or.inr (Or.inr rfl), rfl⟩
          · exact absurd h' (by simp)
        | op o =>
          cases o with
          | addBound r => simp [acceptTop, hbb] at h'
          | addSamples sh rs it =>
            cases sh with
            | none => simp [acceptTop, hbb] at h'
            | some i => simp [acceptTop, hbb] at h'
          | endExploration d => simp [acceptTop] at h'
          | setDiscard b => simp [acceptTop] at h'
      rcases hc with rfl | rfl | rfl
      · exact top_case (by simpa [accept] using hacc)
      · cases e with
        | op o =>
          cases o with
          | endExploration d =>
            simp only [accept] at hacc
            split at hacc
            · cases hacc; exact ⟨Or.inl rfl, rfl⟩
            · exact absurd hacc (by simp)
          | addBound r => exact top_case (by simpa [accept] using hacc)
          | addSamples sh rs it => exact top_case (by simpa [accept] using hacc)
          | setDiscard b => exact top_case (by simpa [accept] using hacc)
        | runStart c' => exact top_case (by simpa [accept] using hacc)
        | runEnd ret ok => exact top_case (by simpa [accept] using hacc)
      · cases e with
        | runStart c => exact absurd (hn (.runStart c) (by simp)) (by simp [NoStart])
        | runEnd ret ok => simp [accept] at hacc
        | op o =>
          cases o with
          | setDiscard b => simp only [accept] at hacc; cases hacc; exact ⟨Or.inr (Or.inr rfl), rfl⟩
          | addBound r => simp [accept] at hacc
          | addSamples sh rs it => simp [accept] at hacc
          | endExploration d => simp [accept] at hacc
    rw [execEv_cons, accepts_noBatchBeyond env cfg m hm es pos1 (apply env s e) pos' key.1
      (fun e' he' => hn e' (by simp [he'])) (by rw [key.2]; exact hle) h, key.2]

theorem firstLow_none (cfg : Cfg) (s : St) : (firstLow cfg s).isNone = true ↔ ∀ sh ∈ s.shells, cfg.nShell ≤ sh.nShown := by
  unfold firstLow
  rw [Option.isNone_iff_eq_none, List.findIdx?_eq_none_iff]
  constructor
  · intro h sh hsh; have := h sh hsh; simpa using this
  · intro h sh hsh; have := h sh hsh; simpa using this

theorem firstLow_some (cfg : Cfg) (s : St) (i : Nat) (h : firstLow cfg s = some i) :
    (∃ sh, s.shells[i]? = some sh ∧ sh.nShown < cfg.nShell) ∧
    ∀ j sh, j < i → s.shells[j]? = some sh → cfg.nShell ≤ sh.nShown := by
  unfold firstLow at h
  rw [List.findIdx?_eq_some_iff_getElem] at h
  obtain ⟨hi, h1, h2⟩ := h
  refine ⟨⟨s.shells[i], List.getElem?_eq_getElem hi, by simpa using h1⟩, ?_⟩
  intro j sh hj hsh
  obtain ⟨hj', rfl⟩ := List.getElem?_eq_some_iff.mp hsh
  have := h2 j hj
  simpa using this

/-- **`run()` returns `True` exactly when exploration is finished, every shell has the requested minimum of points
    and the effective sample size target is met** -/
theorem runEnd_iff (cfg : Cfg) (s : St) (ret ok : Bool) (pos' : Pos)
    (h : accept (.top cfg) s (.runEnd ret ok) = some pos' ∨ accept (.sampled cfg) s (.runEnd ret ok) = some pos') :
    (ret = true ↔ s.explored = true ∧ (∀ sh ∈ s.shells, cfg.nShell ≤ sh.nShown) ∧ ok = true) := by
  have h' : ret = success cfg s ok := by
    rcases h with h | h <;>
    · simp only [accept, acceptTop] at h
      split at h
      · rename_i hc; simpa using hc
      · exact absurd h (by simp)
  rw [h', success, Bool.and_eq_true, Bool.and_eq_true, firstLow_none, and_assoc]

end NautilusVerif.Run
