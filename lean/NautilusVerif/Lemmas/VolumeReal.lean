/- C08 leaf laws over the reals / Lebesgue measure (statements fixed by Properties/C08.lean). -/
import Mathlib.MeasureTheory.Measure.Lebesgue.Basic
import Mathlib.MeasureTheory.Measure.Lebesgue.VolumeOfBalls
import Mathlib.MeasureTheory.Measure.Lebesgue.EqHaar
import Mathlib.Analysis.SpecialFunctions.Gamma.Basic
import Mathlib.Analysis.SpecialFunctions.Gaussian.GaussianIntegral
import Mathlib.Analysis.SpecialFunctions.Pow.Real
import Mathlib.Tactic.Linarith
import Mathlib.Tactic.Positivity
namespace NautilusVerif.VolumeReal
open MeasureTheory

/-- the acceptance test `u > 1 - 1/m` of `Union.sample` accepts a uniform `u ∈ [0,1)` with probability `1/m` -/
theorem accept_measure (m : ℕ) (hm : 1 ≤ m) :
    volume {u : ℝ | 0 ≤ u ∧ u < 1 ∧ u > 1 - 1 / (m : ℝ)} = ENNReal.ofReal (1 / (m : ℝ)) := by
  have hm1 : (1 : ℝ) ≤ (m : ℝ) := Nat.one_le_cast.mpr hm
  have hpos : (0 : ℝ) < (m : ℝ) := by linarith
  have hle : 1 / (m : ℝ) ≤ 1 := (div_le_one hpos).mpr hm1
  have hset : {u : ℝ | 0 ≤ u ∧ u < 1 ∧ u > 1 - 1 / (m : ℝ)} = Set.Ioo (1 - 1 / (m : ℝ)) 1 := by
    ext u
    simp only [Set.mem_ofPred_eq, Set.mem_Ioo]
    constructor
    · rintro ⟨_, h1, h2⟩
      exact ⟨h2, h1⟩
    · rintro ⟨h2, h1⟩
      exact ⟨by linarith, h1, h2⟩
  rw [hset, Real.volume_Ioo]
  congr 1
  ring

/-- radius law of `Ellipsoid.sample`: `P(u^(1/d) ≤ t) = t^d` for uniform `u`, i.e. the radius of a uniform point
    of the `d`-ball -/
theorem radial_law (d : ℕ) (hd : 0 < d) (t : ℝ) (ht0 : 0 ≤ t) (ht1 : t ≤ 1) :
    volume {u : ℝ | 0 ≤ u ∧ u < 1 ∧ u ^ ((1 : ℝ) / d) ≤ t} = ENNReal.ofReal (t ^ d) := by
  have hd0 : (0 : ℝ) < (d : ℝ) := Nat.cast_pos.mpr hd
  have key : ∀ u : ℝ, 0 ≤ u → (u ^ ((1 : ℝ) / d) ≤ t ↔ u ≤ t ^ d) := by
    intro u hu
    rw [one_div, Real.rpow_inv_le_iff_of_pos hu ht0 hd0, Real.rpow_natCast]
  have htd0 : 0 ≤ t ^ d := pow_nonneg ht0 d
  rcases eq_or_lt_of_le ht1 with h1 | h1
  · subst h1
    have hset : {u : ℝ | 0 ≤ u ∧ u < 1 ∧ u ^ ((1 : ℝ) / d) ≤ 1} = Set.Ico 0 1 := by
      ext u
      simp only [Set.mem_ofPred_eq, Set.mem_Ico]
      constructor
      · rintro ⟨h0, h1, _⟩
        exact ⟨h0, h1⟩
      · rintro ⟨h0, h1⟩
        refine ⟨h0, h1, (key u h0).mpr ?_⟩
        rw [one_pow]; exact le_of_lt h1
    rw [hset, Real.volume_Ico]
    simp
  · have hlt : t ^ d < 1 := pow_lt_one₀ ht0 h1 (Nat.pos_iff_ne_zero.mp hd)
    have hset : {u : ℝ | 0 ≤ u ∧ u < 1 ∧ u ^ ((1 : ℝ) / d) ≤ t} = Set.Icc 0 (t ^ d) := by
      ext u
      simp only [Set.mem_ofPred_eq, Set.mem_Icc]
      constructor
      · rintro ⟨h0, _, h2⟩
        exact ⟨h0, (key u h0).mp h2⟩
      · rintro ⟨h0, h2⟩
        exact ⟨h0, lt_of_le_of_lt h2 hlt, (key u h0).mpr h2⟩
    rw [hset, Real.volume_Icc]
    simp

theorem sqrt_pi_pow (d : ℕ) : Real.sqrt Real.pi ^ d = Real.pi ^ ((d : ℝ) / 2) := by
  rw [Real.sqrt_eq_rpow, ← Real.rpow_natCast, ← Real.rpow_mul (le_of_lt Real.pi_pos)]
  congr 1
  ring

theorem gamma_three_half : Real.Gamma (3 / 2) = Real.sqrt Real.pi / 2 := by
  have h : (3 : ℝ) / 2 = 1 / 2 + 1 := by norm_num
  rw [h, Real.Gamma_add_one (by norm_num), Real.Gamma_one_half_eq]
  ring

/-- the closed form `Ellipsoid.log_v` uses is the volume of the unit `d`-ball times `|det B|`:
    `exp(logdetB + d log 2 + d lgamma(3/2) - lgamma(d/2 + 1)) = exp(logdetB) · π^(d/2) / Γ(d/2 + 1)` -/
theorem ellipsoid_logv_formula (logdetB : ℝ) (d : ℕ) :
    Real.exp (logdetB + (d : ℝ) * Real.log 2 + (d : ℝ) * Real.log (Real.Gamma (3 / 2)) -
        Real.log (Real.Gamma ((d : ℝ) / 2 + 1))) =
      Real.exp logdetB * (Real.pi ^ ((d : ℝ) / 2) / Real.Gamma ((d : ℝ) / 2 + 1)) := by
  have hG : 0 < Real.Gamma ((d : ℝ) / 2 + 1) := Real.Gamma_pos_of_pos (by positivity)
  have hs : 0 < Real.sqrt Real.pi / 2 := by
    have := Real.sqrt_pos.mpr Real.pi_pos
    positivity
  have e1 : Real.exp ((d : ℝ) * Real.log 2) = 2 ^ d := by
    rw [Real.exp_nat_mul, Real.exp_log (by norm_num)]
  have e2 : Real.exp ((d : ℝ) * Real.log (Real.Gamma (3 / 2))) = (Real.sqrt Real.pi / 2) ^ d := by
    rw [Real.exp_nat_mul, gamma_three_half, Real.exp_log hs]
  rw [Real.exp_sub, Real.exp_add, Real.exp_add, e1, e2, Real.exp_log hG, ← sqrt_pi_pow,
    mul_assoc, ← mul_pow]
  have : (2 : ℝ) * (Real.sqrt Real.pi / 2) = Real.sqrt Real.pi := by ring
  rw [this, mul_div_assoc]

/-- ... and that is the Lebesgue volume of the unit ball of `EuclideanSpace ℝ (Fin d)` (Mathlib's formula) -/
theorem unit_ball_volume (d : ℕ) :
    volume (Metric.ball (0 : EuclideanSpace ℝ (Fin d)) 1) =
      ENNReal.ofReal (Real.pi ^ ((d : ℝ) / 2) / Real.Gamma ((d : ℝ) / 2 + 1)) := by
  rcases Nat.eq_zero_or_pos d with h0 | hpos
  · subst h0
    rw [volume_euclideanSpace_eq_dirac]
    simp
  · have : Nonempty (Fin d) := ⟨⟨0, hpos⟩⟩
    rw [EuclideanSpace.volume_ball]
    simp only [ENNReal.ofReal_one, one_pow, one_mul, Fintype.card_fin]
    rw [sqrt_pi_pow]

end NautilusVerif.VolumeReal

#print axioms NautilusVerif.VolumeReal.accept_measure
#print axioms NautilusVerif.VolumeReal.radial_law
#print axioms NautilusVerif.VolumeReal.ellipsoid_logv_formula
#print axioms NautilusVerif.VolumeReal.unit_ball_volume
