/- Hypotheses on the oracles of the `Core` model (what C07 / freshness of random proposals provide). -/
import NautilusVerif.Model.CoreInv
namespace NautilusVerif.Core

/-- what is assumed of the values handed to one operation: proposals for shell `idx` are new rows, lie in the
    unit cube and inside that shell's bound (soundness of `bound.sample`, property C07) -/
def OpOK (env : Env) (s : St) : Op → Prop
  | .addSamples sh rounds _ =>
      (∀ r ∈ rounds, ∀ p ∈ r.props,
          env.inCube p = true ∧
          (∀ shell ∈ s.shells[sh.getD (s.shells.length - 1)]?, env.contains shell.bound p = true) ∧
          p ∉ allStored s ∧ p ∉ s.tPts) ∧
      ((rounds.map (·.props)).flatten).Nodup
  | _ => True

def WF (env : Env) : St → List Op → Prop
  | _, [] => True
  | s, op :: ops => OpOK env s op ∧ WF env (step env s op).1 ops

/-- the phase discipline of `run()`: `add_bound` and the end of exploration are only reached while
    `not self.explored` (tied to the source by the run-skeleton translator, G3) -/
def PhaseOK (s : St) : Op → Prop
  | .addBound _ => s.explored = false
  | .endExploration _ => s.explored = false
  | _ => True

def RunShaped (env : Env) : St → List Op → Prop
  | _, [] => True
  | s, op :: ops => PhaseOK s op ∧ RunShaped env (step env s op).1 ops

/-- operations `run()` issues once exploration has finished -/
def SamplingOp : Op → Prop
  | .addSamples (some _) _ _ => True
  | .setDiscard _ => True
  | _ => False

end NautilusVerif.Core
