/- Hypotheses on the oracles of the `Core` model (what C07 / freshness of random proposals provide). -/
import NautilusVerif.Model.CoreInv
namespace NautilusVerif.Core

/-- what is assumed of the values handed to one operation: proposals for shell `idx` are new rows, lie in the
    unit cube and inside that shell's bound (soundness of `bound.sample`, property C07) -/
def OpOK (env : Env) (s : St) : Op → Prop
  | .addSamples sh rounds _ =>
      (∀ r ∈ rounds, ∀ p ∈ r.props,
          env.inCube p = true ∧
          (∀ shell ∈ s.shells[sh.getD (s.shells.length - 1)]?, env.contains shell.bound p = true) ∧
          p ∉ allStored s ∧ p ∉ s.tPts) ∧
      ((rounds.map (·.props)).flatten).Nodup
  | _ => True

def WF (env : Env) : St → List Op → Prop
  | _, [] => True
  | s, op :: ops => OpOK env s op ∧ WF env (step env s op).1 ops

/-- the phase discipline of `run()`: `add_bound` and the end of exploration are only reached while
    `not self.explored` (tied to the source by the run-skeleton translator, G3) -/
def PhaseOK (s : St) : Op → Prop
  | .addBound _ => s.explored = false
  | .endExploration _ => s.explored = false
  | _ => True

def RunShaped (env : Env) : St → List Op → Prop
  | _, [] => True
  | s, op :: ops => PhaseOK s op ∧ RunShaped env (step env s op).1 ops

/-- operations `run()` issues once exploration has finished -/
def SamplingOp : Op → Prop
  | .addSamples (some _) _ _ => True
  | .setDiscard _ => True
  | _ => False

end NautilusVerif.Core

namespace NautilusVerif.Core
/-! decidability (used only by the non-vacuity examples) -/
instance decOpOK (env : Env) (s : St) : (op : Op) → Decidable (OpOK env s op)
  | .addSamples _ _ _ => by unfold OpOK; infer_instance
  | .addBound _ => by unfold OpOK; infer_instance
  | .endExploration _ => by unfold OpOK; infer_instance
  | .setDiscard _ => by unfold OpOK; infer_instance

def decWF (env : Env) : (s : St) → (ops : List Op) → Decidable (WF env s ops)
  | _, [] => isTrue trivial
  | s, op :: ops => by
    unfold WF
    exact @instDecidableAnd _ _ (decOpOK env s op) (decWF env _ ops)

instance (env : Env) (s : St) (ops : List Op) : Decidable (WF env s ops) := decWF env s ops

instance decPhaseOK (s : St) : (op : Op) → Decidable (PhaseOK s op)
  | .addSamples _ _ _ => by unfold PhaseOK; infer_instance
  | .addBound _ => by unfold PhaseOK; infer_instance
  | .endExploration _ => by unfold PhaseOK; infer_instance
  | .setDiscard _ => by unfold PhaseOK; infer_instance

def decRunShaped (env : Env) : (s : St) → (ops : List Op) → Decidable (RunShaped env s ops)
  | _, [] => isTrue trivial
  | s, op :: ops => by
    unfold RunShaped
    exact @instDecidableAnd _ _ (decPhaseOK s op) (decRunShaped env _ ops)

instance (env : Env) (s : St) (ops : List Op) : Decidable (RunShaped env s ops) := decRunShaped env s ops
end NautilusVerif.Core

namespace NautilusVerif.Core
/-- `add_samples(-1)` (filling the newest bound, with transfers) is only reached while exploring -/
def TransferPhase (s : St) : Op → Prop
  | .addSamples none _ _ => s.explored = false
  | _ => True

def TPhase (env : Env) : St → List Op → Prop
  | _, [] => True
  | s, op :: ops => TransferPhase s op ∧ TPhase env (step env s op).1 ops
end NautilusVerif.Core

namespace NautilusVerif.Core
instance decTransferPhase (s : St) : (op : Op) → Decidable (TransferPhase s op)
  | .addSamples none _ _ => by unfold TransferPhase; infer_instance
  | .addSamples (some _) _ _ => by unfold TransferPhase; infer_instance
  | .addBound _ => by unfold TransferPhase; infer_instance
  | .endExploration _ => by unfold TransferPhase; infer_instance
  | .setDiscard _ => by unfold TransferPhase; infer_instance

def decTPhase (env : Env) : (s : St) → (ops : List Op) → Decidable (TPhase env s ops)
  | _, [] => isTrue trivial
  | s, op :: ops => by
    unfold TPhase
    exact @instDecidableAnd _ _ (decTransferPhase s op) (decTPhase env _ ops)

instance (env : Env) (s : St) (ops : List Op) : Decidable (TPhase env s ops) := decTPhase env s ops
end NautilusVerif.Core
