/- Value semantics of the dyadic float model and the range theorem for the repaired phase shift. -/
import NautilusVerif.Model.Shift
import Mathlib.Data.Rat.Floor
import Mathlib.Algebra.Order.Floor.Ring
import Mathlib.Tactic.Linarith
import Mathlib.Tactic.Ring
import Mathlib.Tactic.Positivity
namespace NautilusVerif
namespace Dy

/-- the rational number a dyadic denotes -/
def toRat (x : Dy) : ℚ := (x.m : ℚ) * (2 : ℚ) ^ x.e

theorem toRat_mk (m e : ℤ) : toRat ⟨m, e⟩ = (m : ℚ) * (2 : ℚ) ^ e := rfl

theorem toRat_normGo (f : ℕ) (m e : ℤ) : toRat (normGo f m e) = (m : ℚ) * (2 : ℚ) ^ e := by
  induction f generalizing m e with
  | zero => rfl
  | succ f ih =>
    unfold normGo
    split
    · rename_i h
      have h0 : m % 2 = 0 := by simpa using h
      have hm : m = 2 * (m / 2) := (Int.mul_ediv_cancel' (Int.dvd_of_emod_eq_zero h0)).symm
      rw [ih, zpow_add₀ (by norm_num : (2 : ℚ) ≠ 0), zpow_one]
      conv_rhs => rw [hm]
      push_cast
      ring
    · rfl

theorem toRat_norm (x : Dy) : toRat (norm x) = toRat x := by
  unfold norm
  split
  · rename_i h
    have h0 : x.m = 0 := by simpa using h
    simp [toRat, h0]
  · rw [toRat_normGo]; rfl

theorem toRat_neg (x : Dy) : toRat (neg x) = - toRat x := by
  simp [toRat, neg]

theorem toRat_ofInt (n : ℤ) : toRat (ofInt n) = n := by
  unfold ofInt
  rw [toRat_norm]
  simp [toRat]

theorem two_zpow_sub_toNat (e d : ℤ) (h : d ≤ e) :
    ((2 : ℚ) ^ (e - d).toNat) * (2 : ℚ) ^ d = (2 : ℚ) ^ e := by
  rw [← zpow_natCast, Int.toNat_of_nonneg (by omega), ← zpow_add₀ (by norm_num : (2 : ℚ) ≠ 0)]
  congr 1
  ring

theorem align_fst (x y : Dy) :
    (((align x y).1 : ℤ) : ℚ) * (2 : ℚ) ^ (align x y).2.2 = toRat x := by
  simp only [align, toRat]
  push_cast
  rw [mul_assoc, two_zpow_sub_toNat _ _ (min_le_left _ _)]

theorem align_snd (x y : Dy) :
    (((align x y).2.1 : ℤ) : ℚ) * (2 : ℚ) ^ (align x y).2.2 = toRat y := by
  simp only [align, toRat]
  push_cast
  rw [mul_assoc, two_zpow_sub_toNat _ _ (min_le_right _ _)]

theorem toRat_addX (x y : Dy) : toRat (addX x y) = toRat x + toRat y := by
  have : addX x y = norm ⟨(align x y).1 + (align x y).2.1, (align x y).2.2⟩ := rfl
  rw [this, toRat_norm, toRat_mk, ← align_fst x y, ← align_snd x y]
  push_cast
  ring

theorem two_zpow_pos (e : ℤ) : (0 : ℚ) < (2 : ℚ) ^ e := zpow_pos (by norm_num) e

theorem toRat_nonneg_iff (x : Dy) : 0 ≤ toRat x ↔ 0 ≤ x.m := by
  unfold toRat
  rw [mul_nonneg_iff_of_pos_right (two_zpow_pos _)]
  exact Int.cast_nonneg_iff

theorem lt_iff (x y : Dy) : lt x y = true ↔ toRat x < toRat y := by
  have : lt x y = decide ((align x y).1 < (align x y).2.1) := rfl
  rw [this, ← align_fst x y, ← align_snd x y, decide_eq_true_iff,
    mul_lt_mul_iff_left₀ (two_zpow_pos _)]
  exact Int.cast_lt.symm

theorem le_iff (x y : Dy) : le x y = true ↔ toRat x ≤ toRat y := by
  have : le x y = decide ((align x y).1 ≤ (align x y).2.1) := rfl
  rw [this, ← align_fst x y, ← align_snd x y, decide_eq_true_iff,
    mul_le_mul_iff_left₀ (two_zpow_pos _)]
  exact Int.cast_le.symm

theorem floor_eq (x : Dy) : floor x = ⌊toRat x⌋ := by
  unfold floor
  split
  · rename_i h
    have : toRat x = ((x.m * 2 ^ x.e.toNat : ℤ) : ℚ) := by
      unfold toRat
      push_cast
      rw [← zpow_natCast, Int.toNat_of_nonneg h]
    rw [this, Int.floor_intCast]
  · rename_i h
    have hn : x.e = -((-x.e).toNat : ℤ) := by
      rw [Int.toNat_of_nonneg (by omega)]; ring
    have : toRat x = (x.m : ℚ) / (((2 ^ (-x.e).toNat : ℕ)) : ℚ) := by
      unfold toRat
      conv_lhs => rw [hn]
      rw [zpow_neg, zpow_natCast]
      push_cast
      rfl
    rw [this, Rat.floor_intCast_div_natCast, Int.fdiv_eq_ediv_of_nonneg _ (by positivity)]
    push_cast
    rfl

theorem round53_cases (x : Dy) :
    round53 x = norm x ∨
      ∃ (q' k : ℕ), round53 x = norm ⟨(if x.m < 0 then -1 else 1) * (q' : ℤ), x.e + k⟩ := by
  unfold round53
  simp only []
  generalize (if (x.m.natAbs == 0) = true then 0 else x.m.natAbs.log2 + 1) = bl
  by_cases h : bl ≤ 53
  · left; rw [if_pos h]
  · right; rw [if_neg h]; exact ⟨_, _, rfl⟩

/-- rounding never changes the sign -/
theorem round53_nonneg (x : Dy) (h : 0 ≤ toRat x) : 0 ≤ toRat (round53 x) := by
  have hm : 0 ≤ x.m := (toRat_nonneg_iff x).1 h
  rcases round53_cases x with h1 | ⟨q', k, h1⟩
  · rw [h1, toRat_norm]; exact h
  · rw [h1, toRat_norm, toRat_nonneg_iff]
    have hs : ¬ x.m < 0 := by omega
    simp only [hs, if_false, one_mul]
    exact Int.natCast_nonneg _

theorem toRat_one : toRat one = 1 := by simp [toRat, one]
theorem toRat_zero : toRat zero = 0 := by simp [toRat, zero]

/-- the exact remainder `a - ⌊a⌋` -/
theorem toRat_sub_floor (a : Dy) : toRat (addX a (ofInt (-floor a))) = Int.fract (toRat a) := by
  rw [toRat_addX, toRat_ofInt, floor_eq, Int.fract]
  push_cast
  ring

/-- numpy's `% 1` never returns a negative number -/
theorem mod1_nonneg (a : Dy) : 0 ≤ toRat (mod1 a) := by
  unfold mod1
  simp only []
  split
  · rw [toRat_sub_floor]; exact Int.fract_nonneg _
  · split
    · rw [toRat_sub_floor]; exact Int.fract_nonneg _
    · unfold add
      apply round53_nonneg
      rw [toRat_addX, toRat_addX, toRat_ofInt, toRat_one, toRat_sub_floor]
      push_cast
      have := Int.fract_nonneg (toRat a)
      linarith

end Dy

/-- **Range of the repaired transform, for every pair of doubles** (no hypothesis on `c`, `x`). -/
theorem Shift.F.shift1_range (c x : Dy) (inverse : Bool) :
    0 ≤ Dy.toRat (Shift.F.shift1 c inverse x) ∧ Dy.toRat (Shift.F.shift1 c inverse x) < 1 := by
  unfold Shift.F.shift1 Shift.F.fold1
  split
  · rw [Dy.toRat_zero]; exact ⟨le_refl _, zero_lt_one⟩
  · rename_i h
    rw [Dy.le_iff, Dy.toRat_one] at h
    refine ⟨?_, lt_of_not_ge h⟩
    unfold Shift.F.shift1Legacy
    exact Dy.mod1_nonneg _

/-! ### `round53` is a monotone round-half-even rounding (stretch results) -/
namespace Dy

/-- `n` is a round-half-even integer rounding of `t`. -/
def IsRne (t : ℚ) (n : ℤ) : Prop :=
  (n : ℚ) - 1 / 2 ≤ t ∧ t ≤ n + 1 / 2 ∧ ((t = n - 1 / 2 ∨ t = n + 1 / 2) → Even n)

theorem IsRne.self (n : ℤ) : IsRne (n : ℚ) n := by
  refine ⟨by linarith, by linarith, ?_⟩
  rintro (h | h) <;> linarith

theorem IsRne.mono {t1 t2 : ℚ} {n1 n2 : ℤ} (h1 : IsRne t1 n1) (h2 : IsRne t2 n2) (h : t1 ≤ t2) :
    n1 ≤ n2 := by
  by_contra hlt
  push Not at hlt
  have hc : (n2 : ℚ) + 1 ≤ n1 := by exact_mod_cast hlt
  obtain ⟨a1, _, c1⟩ := h1
  obtain ⟨_, b2, c2⟩ := h2
  have e1 : t1 = n1 - 1 / 2 := by linarith
  have e2 : t2 = n2 + 1 / 2 := by linarith
  have e3 : (n1 : ℚ) = n2 + 1 := by linarith
  have e3' : n1 = n2 + 1 := by exact_mod_cast e3
  have ev1 := c1 (Or.inl e1)
  have ev2 := c2 (Or.inr e2)
  rw [Int.even_iff] at ev1 ev2
  omega

/-- the rounded 53-bit quotient used by `round53` -/
def rq (a k : ℕ) : ℕ :=
  let q := a >>> k
  let r := a - (q <<< k)
  let h := 1 <<< (k - 1)
  if r > h then q + 1 else if r < h then q else (if q % 2 == 1 then q + 1 else q)

theorem round53_unfold (x : Dy) :
    round53 x =
      if (if x.m.natAbs == 0 then 0 else x.m.natAbs.log2 + 1) ≤ 53 then norm x
      else norm ⟨(if x.m < 0 then -1 else 1) *
          (rq x.m.natAbs ((if x.m.natAbs == 0 then 0 else x.m.natAbs.log2 + 1) - 53) : ℕ),
        x.e + (((if x.m.natAbs == 0 then 0 else x.m.natAbs.log2 + 1) - 53 : ℕ) : ℤ)⟩ := rfl

theorem rq_isRne (a k : ℕ) (hk : 1 ≤ k) : IsRne ((a : ℚ) / 2 ^ k) (rq a k : ℤ) := by
  obtain ⟨j, rfl⟩ : ∃ j, k = j + 1 := ⟨k - 1, by omega⟩
  unfold rq
  simp only [Nat.shiftRight_eq_div_pow, Nat.shiftLeft_eq, one_mul, Nat.add_sub_cancel]
  set q := a / 2 ^ (j + 1) with hq
  set h := 2 ^ j with hh
  have hD : 2 ^ (j + 1) = 2 * h := by rw [hh, pow_succ]; ring
  have hr : a - q * 2 ^ (j + 1) = a % (2 * h) := by
    have := Nat.div_add_mod a (2 ^ (j + 1))
    rw [← hq, hD] at this
    rw [hD]
    have h2 : q * (2 * h) = 2 * h * q := by ring
    omega
  rw [hr]
  set r := a % (2 * h) with hr'
  have hpos : 0 < h := by positivity
  have hrlt : r < 2 * h := Nat.mod_lt _ (by omega)
  have ha : a = 2 * h * q + r := by
    have := Nat.div_add_mod a (2 * h)
    rw [← hD, ← hq, hD, ← hr'] at this
    exact this.symm
  have hhq : (0 : ℚ) < h := by exact_mod_cast hpos
  have ht : (a : ℚ) / 2 ^ (j + 1) = q + (r : ℚ) / (2 * h) := by
    have : ((2 : ℚ) ^ (j + 1)) = 2 * (h : ℚ) := by exact_mod_cast hD
    rw [this, ha]
    push_cast
    field_simp
  rw [ht]
  have hrq : (r : ℚ) < 2 * h := by exact_mod_cast hrlt
  have h2h : (0 : ℚ) < 2 * h := by linarith
  unfold IsRne
  split
  · rename_i hgt
    have hgt' : (h : ℚ) < r := by exact_mod_cast hgt
    have hlo : (1 : ℚ) / 2 < (r : ℚ) / (2 * h) := by rw [lt_div_iff₀ h2h]; linarith
    have hhi : (r : ℚ) / (2 * h) < 1 := by rw [div_lt_iff₀ h2h]; linarith
    push_cast
    refine ⟨by linarith, by linarith, ?_⟩
    rintro (h | h) <;> linarith
  · split
    · rename_i _ hlt
      have hlt' : (r : ℚ) < h := by exact_mod_cast hlt
      have hhi : (r : ℚ) / (2 * h) < 1 / 2 := by rw [div_lt_iff₀ h2h]; linarith
      have hlo : (0 : ℚ) ≤ (r : ℚ) / (2 * h) := by positivity
      push_cast
      refine ⟨by linarith, by linarith, ?_⟩
      rintro (h | h) <;> linarith
    · rename_i h1 h2
      have heq : r = h := by omega
      have hhalf : (r : ℚ) / (2 * h) = 1 / 2 := by
        rw [heq]; field_simp
      rw [hhalf]
      split
      · rename_i hodd
        have hodd' : q % 2 = 1 := by simpa using hodd
        push_cast
        refine ⟨by linarith, by linarith, fun _ => ?_⟩
        rw [Int.even_iff]; omega
      · rename_i hodd
        have hodd' : ¬ q % 2 = 1 := by simpa using hodd
        push_cast
        refine ⟨by linarith, by linarith, fun _ => ?_⟩
        rw [Int.even_iff]; omega

theorem two_zpow_add (a b : ℤ) : (2 : ℚ) ^ a * 2 ^ b = 2 ^ (a + b) :=
  (zpow_add₀ (by norm_num : (2 : ℚ) ≠ 0) a b).symm

/-- binade exponent of a nonzero dyadic: `2^(p-1) ≤ |x| < 2^p` -/
def bexp (x : Dy) : ℤ := ((x.m.natAbs.log2 + 1 : ℕ) : ℤ) + x.e

theorem round53_pos_spec (x : Dy) (hx : 0 < x.m) :
    ∃ (n : ℤ) (t : ℚ), toRat (round53 x) = n * 2 ^ (bexp x - 53) ∧
      toRat x = t * 2 ^ (bexp x - 53) ∧ IsRne t n ∧ 2 ^ 52 ≤ t ∧ t < 2 ^ 53 := by
  have ha : ((x.m.natAbs : ℕ) : ℤ) = x.m := Int.natAbs_of_nonneg hx.le
  have ha0 : x.m.natAbs ≠ 0 := by omega
  have hb : (if x.m.natAbs == 0 then 0 else x.m.natAbs.log2 + 1) = x.m.natAbs.log2 + 1 := by
    rw [if_neg]; simpa using hx.ne'
  have hs : ¬ x.m < 0 := by omega
  have hru := round53_unfold x
  rw [hb, if_neg hs, one_mul] at hru
  unfold bexp
  set a := x.m.natAbs with hadef
  set L := a.log2 with hL
  have hlo : 2 ^ L ≤ a := Nat.log2_self_le ha0
  have hhi : a < 2 ^ (L + 1) := Nat.lt_log2_self
  have hxr : toRat x = (a : ℚ) * 2 ^ x.e := by
    unfold toRat; rw [← ha]; push_cast; rfl
  have ht : toRat x = ((a : ℚ) * 2 ^ ((52 : ℤ) - L)) * 2 ^ (((L + 1 : ℕ) : ℤ) + x.e - 53) := by
    rw [hxr, mul_assoc, two_zpow_add]
    congr 2
    push_cast; ring
  have hloq : (2 : ℚ) ^ (L : ℤ) ≤ a := by
    rw [zpow_natCast]; exact_mod_cast hlo
  have hhiq : (a : ℚ) < (2 : ℚ) ^ ((L : ℤ) + 1) := by
    have : (a : ℚ) < (2 : ℚ) ^ (L + 1) := by exact_mod_cast hhi
    rw [← zpow_natCast] at this
    exact_mod_cast this
  have hpos : (0 : ℚ) < 2 ^ ((52 : ℤ) - L) := two_zpow_pos _
  have hb1 : (2 : ℚ) ^ 52 ≤ (a : ℚ) * 2 ^ ((52 : ℤ) - L) := by
    have : (2 : ℚ) ^ 52 = 2 ^ (L : ℤ) * 2 ^ ((52 : ℤ) - L) := by
      rw [two_zpow_add]; norm_num
    rw [this]
    exact mul_le_mul_of_nonneg_right hloq hpos.le
  have hb2 : (a : ℚ) * 2 ^ ((52 : ℤ) - L) < (2 : ℚ) ^ 53 := by
    have : (2 : ℚ) ^ 53 = 2 ^ ((L : ℤ) + 1) * 2 ^ ((52 : ℤ) - L) := by
      rw [two_zpow_add]
      have : (L : ℤ) + 1 + (52 - L) = 53 := by ring
      rw [this]; norm_num
    rw [this]
    exact mul_lt_mul_of_pos_right hhiq hpos
  by_cases hbl : L + 1 ≤ 53
  · rw [if_pos hbl] at hru
    have hpow : (2 : ℚ) ^ ((52 : ℤ) - L) = ((2 ^ (52 - L) : ℕ) : ℚ) := by
      have : ((52 : ℤ) - L) = ((52 - L : ℕ) : ℤ) := by omega
      rw [this, zpow_natCast]; push_cast; rfl
    have hn : (a : ℚ) * 2 ^ ((52 : ℤ) - L) = (((a * 2 ^ (52 - L) : ℕ) : ℤ) : ℚ) := by
      rw [hpow]; push_cast; rfl
    refine ⟨((a * 2 ^ (52 - L) : ℕ) : ℤ), (a : ℚ) * 2 ^ ((52 : ℤ) - L), ?_, ht, ?_, hb1, hb2⟩
    · rw [hru, toRat_norm, ← hn]; exact ht
    · rw [hn]; exact IsRne.self _
  · rw [if_neg hbl] at hru
    have hk : 1 ≤ L + 1 - 53 := by omega
    have hpow : (2 : ℚ) ^ ((52 : ℤ) - L) = ((2 : ℚ) ^ (L + 1 - 53))⁻¹ := by
      have : ((52 : ℤ) - L) = -((L + 1 - 53 : ℕ) : ℤ) := by omega
      rw [this, zpow_neg, zpow_natCast]
    refine ⟨(rq a (L + 1 - 53) : ℕ), (a : ℚ) * 2 ^ ((52 : ℤ) - L), ?_, ht, ?_, hb1, hb2⟩
    · rw [hru, toRat_norm, toRat_mk]
      congr 2
      omega
    · rw [hpow, ← div_eq_mul_inv]
      exact rq_isRne a _ hk

theorem round53_pos_mono (x y : Dy) (hx : 0 < x.m) (hy : 0 < y.m) (h : toRat x ≤ toRat y) :
    toRat (round53 x) ≤ toRat (round53 y) := by
  obtain ⟨n1, t1, r1, e1, i1, lo1, hi1⟩ := round53_pos_spec x hx
  obtain ⟨n2, t2, r2, e2, i2, lo2, hi2⟩ := round53_pos_spec y hy
  generalize bexp x - 53 = P at *
  generalize bexp y - 53 = Q at *
  have hn1 : (n1 : ℚ) ≤ 2 ^ 53 := by
    have := IsRne.mono i1 (IsRne.self (2 ^ 53)) (by push_cast; exact hi1.le)
    exact_mod_cast this
  have hn2 : (2 : ℚ) ^ 52 ≤ n2 := by
    have := IsRne.mono (IsRne.self (2 ^ 52)) i2 (by push_cast; exact lo2)
    exact_mod_cast this
  have hP := two_zpow_pos P
  have hQ := two_zpow_pos Q
  have hsucc : ∀ z : ℤ, (2 : ℚ) ^ 53 * 2 ^ z = 2 ^ 52 * 2 ^ (z + 1) := by
    intro z
    rw [← two_zpow_add z 1]; norm_num; ring
  rw [r1, r2]
  rw [e1, e2] at h
  rcases lt_trichotomy P Q with hlt | heq | hgt
  · calc (n1 : ℚ) * 2 ^ P ≤ 2 ^ 53 * 2 ^ P := mul_le_mul_of_nonneg_right hn1 hP.le
      _ = 2 ^ 52 * 2 ^ (P + 1) := hsucc P
      _ ≤ 2 ^ 52 * 2 ^ Q :=
        mul_le_mul_of_nonneg_left (zpow_le_zpow_right₀ (by norm_num) (by omega)) (by positivity)
      _ ≤ n2 * 2 ^ Q := mul_le_mul_of_nonneg_right hn2 hQ.le
  · subst heq
    have ht : t1 ≤ t2 := le_of_mul_le_mul_right h hP
    have : (n1 : ℚ) ≤ n2 := by exact_mod_cast IsRne.mono i1 i2 ht
    exact mul_le_mul_of_nonneg_right this hP.le
  · exfalso
    have : t2 * 2 ^ Q < t1 * 2 ^ P := by
      calc t2 * 2 ^ Q < 2 ^ 53 * 2 ^ Q := mul_lt_mul_of_pos_right hi2 hQ
        _ = 2 ^ 52 * 2 ^ (Q + 1) := hsucc Q
        _ ≤ 2 ^ 52 * 2 ^ P :=
          mul_le_mul_of_nonneg_left (zpow_le_zpow_right₀ (by norm_num) (by omega)) (by positivity)
        _ ≤ t1 * 2 ^ P := mul_le_mul_of_nonneg_right lo1 hP.le
    linarith

theorem toRat_eq_zero_of_m (x : Dy) (h : x.m = 0) : toRat x = 0 := by simp [toRat, h]

theorem round53_neg (x : Dy) : toRat (round53 (neg x)) = - toRat (round53 x) := by
  by_cases h0 : x.m = 0
  · have : neg x = x := by
      cases x; simp only [neg] at *; subst h0; rfl
    rw [this]
    have hz : toRat (round53 x) = 0 := by
      rw [round53_unfold]
      simp [h0, toRat_norm, toRat_eq_zero_of_m]
    rw [hz]; simp
  · obtain ⟨m, e⟩ := x
    show toRat (round53 ⟨-m, e⟩) = - toRat (round53 ⟨m, e⟩)
    rw [round53_unfold, round53_unfold]
    dsimp only at h0 ⊢
    rw [Int.natAbs_neg]
    generalize (if (m.natAbs == 0) = true then 0 else m.natAbs.log2 + 1) = bl
    split
    · rw [toRat_norm, toRat_norm]; simp [toRat]
    · rw [toRat_norm, toRat_norm, toRat_mk, toRat_mk]
      by_cases hneg : m < 0
      · have : ¬ (-m < 0) := by omega
        rw [if_pos hneg, if_neg this]; push_cast; ring
      · have : -m < 0 := by omega
        rw [if_neg hneg, if_pos this]; push_cast; ring

theorem round53_nonpos (x : Dy) (h : toRat x ≤ 0) : toRat (round53 x) ≤ 0 := by
  have := round53_nonneg (neg x) (by rw [toRat_neg]; linarith)
  rw [round53_neg] at this
  linarith

theorem toRat_pos_iff (x : Dy) : 0 < toRat x ↔ 0 < x.m := by
  unfold toRat
  rw [mul_pos_iff_of_pos_right (two_zpow_pos _)]
  exact Int.cast_pos

/-- (S3) rounding to 53 bits is monotone. -/
theorem round53_mono (x y : Dy) (h : toRat x ≤ toRat y) :
    toRat (round53 x) ≤ toRat (round53 y) := by
  by_cases hx : 0 < x.m
  · have hy : 0 < y.m := by
      rw [← toRat_pos_iff] at hx ⊢; linarith
    exact round53_pos_mono x y hx hy h
  · have hx' : toRat x ≤ 0 := by
      rw [← toRat_pos_iff] at hx; linarith
    by_cases hy : 0 ≤ y.m
    · have hy' : 0 ≤ toRat y := (toRat_nonneg_iff y).2 hy
      exact le_trans (round53_nonpos x hx') (round53_nonneg y hy')
    · have hy' : toRat y < 0 := by
        rw [← toRat_nonneg_iff] at hy; linarith
      have hnx : 0 < (neg x).m := by
        have : 0 < toRat (neg x) := by rw [toRat_neg]; linarith
        exact (toRat_pos_iff _).1 this
      have hny : 0 < (neg y).m := by
        have : 0 < toRat (neg y) := by rw [toRat_neg]; linarith
        exact (toRat_pos_iff _).1 this
      have := round53_pos_mono (neg y) (neg x) hny hnx (by rw [toRat_neg, toRat_neg]; linarith)
      rw [round53_neg, round53_neg] at this
      linarith

theorem toRat_round53_one : toRat (round53 one) = 1 := by
  rw [round53_unfold]
  have : (one.m.natAbs) = 1 := rfl
  rw [this]
  have h2 : Nat.log2 1 = 0 := (Nat.log2_eq_iff (by decide)).2 (by decide)
  simp only [h2]
  rw [if_pos (by decide), toRat_norm, toRat_one]

/-- (S1) -/
theorem round53_le_one (x : Dy) (h : toRat x ≤ 1) : toRat (round53 x) ≤ 1 := by
  have := round53_mono x one (by rw [toRat_one]; exact h)
  rwa [toRat_round53_one] at this

/-- (S2) -/
theorem mod1_le_one (a : Dy) : toRat (mod1 a) ≤ 1 := by
  unfold mod1
  simp only []
  split
  · rw [toRat_sub_floor]; exact (Int.fract_lt_one _).le
  · split
    · rw [toRat_sub_floor]; exact (Int.fract_lt_one _).le
    · unfold add
      apply round53_le_one
      rw [toRat_addX, toRat_addX, toRat_ofInt, toRat_one, toRat_sub_floor]
      push_cast
      have := Int.fract_lt_one (toRat a)
      linarith

end Dy

end NautilusVerif

#print axioms NautilusVerif.Dy.mod1_nonneg
#print axioms NautilusVerif.Dy.round53_nonneg
#print axioms NautilusVerif.Dy.floor_eq
#print axioms NautilusVerif.Shift.F.shift1_range
#print axioms NautilusVerif.Dy.round53_le_one
#print axioms NautilusVerif.Dy.mod1_le_one
#print axioms NautilusVerif.Dy.round53_mono
