/-
  C05 — stopping and resuming at any batch boundary does not change the result.   STATEMENTS OF RECORD.

  `Model/Loop.lean`: `run()` is the iteration of a deterministic step with guard `n_like < n_like_max ∧ ¬success`;
  everything an iteration reads (samples, counters, every bound's proposal cache, the generator state) is the
  state.  These theorems give the property for *every* way of cutting a computation, given that a stop leaves
  the state intact — in memory trivially, through the file by `C05Tie` (the file always holds the whole state)
  and by the file-vs-memory comparison at every write of real runs (`harness/c05.py`).
-/
import NautilusVerif.Lemmas.LoopLemmas
import NautilusVerif.Model.Persist
import NautilusVerif.Model.Core
namespace NautilusVerif
open Loop

variable {σ : Type} (step : σ → σ) (cost : σ → Nat) (done : σ → Bool)

/-- two `run()` calls limited by `m₁ ≤ m₂` end in the state of one call limited by `m₂` -/
theorem C05_slices (m₁ m₂ f₁ f₂ : Nat) (s : σ) (hm : m₁ ≤ m₂) (h1 : Stops step cost done m₁ f₁ s)
    (h2 : Stops step cost done m₂ f₂ (runFuel step cost done m₁ f₁ s)) :
    runFuel step cost done m₂ (f₁ + f₂) s = runFuel step cost done m₂ f₂ (runFuel step cost done m₁ f₁ s) ∧
    Stops step cost done m₂ (f₁ + f₂) s := slices step cost done m₁ m₂ f₁ f₂ s hm h1 h2

/-- any sequence of limited runs followed by a final one -/
theorem C05_slices_chain (ms : List Nat) (m : Nat) (fs : List Nat) (f : Nat) (s : σ) (hle : ∀ x ∈ ms, x ≤ m) :
    ∃ s' : σ, s' = (List.zip ms fs).foldl (fun s (mf : Nat × Nat) => runFuel step cost done mf.1 mf.2 s) s ∧
      (Stops step cost done m f s' → ∀ F, (fs.sum + f) ≤ F →
        runFuel step cost done m F s = runFuel step cost done m f s') :=
  slices_chain step cost done ms m fs f s hle

/-- a stop after any number of batches (timeout; a kill at a batch boundary and a resume that restores the state)
    followed by a continuation is the uninterrupted run -/
theorem C05_stopAnywhere (m n f : Nat) (s : σ) (hn : ∀ k, k < n → guard cost done m (iter step k s) = true) :
    runFuel step cost done m (n + f) s = runFuel step cost done m f (iter step n s) :=
  stop_anywhere step cost done m n f s hn

/-- a run that has ended is not changed by being given more iterations -/
theorem C05_idempotent (m f f' : Nat) (s : σ) (h : Stops step cost done m f s) (hf : f ≤ f') :
    runFuel step cost done m f' s = runFuel step cost done m f s := fuel_irrelevant step cost done m f f' s h hf

/-- ... which restores the class of every bound, whatever the list of bounds is (in particular after the unit-cube shell
    has been removed at the end of exploration) -/
theorem C05_boundKinds (ks : List Persist.Kind) : Persist.loadKindsByTag (Persist.storeKinds ks) = ks := by
  unfold Persist.loadKindsByTag Persist.storeKinds
  induction ks with
  | nil => rfl
  | cons k ks ih => cases k <;> simp_all

/-- the resume path as first found (first bound always read as a cube) does not: a sampler whose cube shell was removed -/
theorem C05_legacy_boundKinds :
    Persist.loadKindsByPosition (Persist.storeKinds [.nautilus, .nautilus]) ≠ [.nautilus, .nautilus] := by decide

/-- and such states are reachable: the end of exploration drops an empty first shell, so the first bound is no longer bound 0 -/
example : ((Core.endExploration { nBatch := 2, shells := [{ bound := 0 }, { bound := 1, pts := [0, 1], ls := [0, 1], bs := [0, 1], nSample := 2, nShown := 2 }] } false).shells.map (·.bound)) = [1] := by decide

/-- non-vacuity: a counter that gains 3 per step, success at 20 -/
example : runFuel (fun n : Nat => n + 3) id (fun n => decide (20 ≤ n)) 10 100 0 = 12 ∧
    runFuel (fun n : Nat => n + 3) id (fun n => decide (20 ≤ n)) 50 100 12 = 21 ∧
    runFuel (fun n : Nat => n + 3) id (fun n => decide (20 ≤ n)) 50 100 0 = 21 := by decide

end NautilusVerif
