/-
  C07 — tie theorems: the closed-form expressions of `nautilus/bounds/basic.py` (regenerated into `Generated/C07.lean`
  on every run) are the ones the leaf laws of C07 / C08 are about.
-/
import NautilusVerif.Generated.C07
namespace NautilusVerif

/-- radius exponent `1/d` on a normalised direction; the membership test is the strict `‖·‖² < 1`; the matrix is
    divided by `enl²` (its inverse multiplied by it), guarded by `enlarge_per_dim < 1 → error`; the MVEE is rescaled by
    the largest quadratic form of the construction points -/
theorem C07_tie_formulas (d a enl s : ℝ) :
    Gen.C07.radialExp d = 1 / d ∧ Gen.C07.directionNormalised = true ∧
    (Gen.C07.containsTest s ↔ s < 1) ∧
    Gen.C07.enlargeA a enl = a / Real.rpow enl 2 ∧ Gen.C07.enlargeAinv a enl = a * Real.rpow enl 2 ∧
    Gen.C07.enlargeGuard = "enlarge_per_dim < 1.0 ; not points.shape[0] > bound.n_dim ; rng is None" ∧
    Gen.C07.mveeRescale = ["scale = np.amax(np.einsum('...i,ij,...j', points - c, A, points - c))", "A /= scale", "A_inv *= scale"] := by
  refine ⟨rfl, rfl, Iff.rfl, rfl, rfl, rfl, rfl⟩

end NautilusVerif
