/-
  C16 — tie theorems: the formulas of `nautilus/bounds/periodic.py` (regenerated from the source on every run into
  `Generated/C16.lean`) *are* the model the C16 theorems are about.
-/
import NautilusVerif.Model.Shift
import NautilusVerif.Generated.C16
import NautilusVerif.Lemmas.ShiftQ
namespace NautilusVerif
open Shift


theorem C16_tie_shiftQ (c x : ℚ) (inverse : Bool) : Gen.C16.shiftQ c inverse x = Q.shift1 c inverse x := by
  -- the fold of an exact 1 is the identity in exact arithmetic, because `fract < 1`
  have fold : ∀ r : ℚ, (if 1 ≤ Q.fract r then 0 else Q.fract r) = Q.fract r := fun r => by
    rw [if_neg (not_le.mpr (Q.fract_lt_one' r))]
  unfold Gen.C16.shiftQ Q.shift1 Q.fwd Q.inv
  cases inverse
  · simp only [fold]; simp
  · simp only [fold]; simp; ring_nf

theorem C16_tie_shiftF (c x : Dy) (inverse : Bool) : Gen.C16.shiftF c inverse x = F.shift1 c inverse x := by
  unfold Gen.C16.shiftF F.shift1 F.shift1Legacy
  cases inverse <;> rfl

theorem C16_tie_wrapGap (x0 xl : ℚ) (y0 yl : Dy) :
    Gen.C16.wrapGapQ x0 xl = x0 - (xl - 1) ∧ Gen.C16.wrapGapF y0 yl = Dy.sub y0 (Dy.sub yl Dy.one) :=
  ⟨rfl, rfl⟩

theorem C16_tie_centre (xk g : ℚ) (yk h : Dy) :
    Gen.C16.centreQ xk g = Q.fract (xk + g / 2 + 1/2) ∧
    Gen.C16.centreF yk h = Dy.mod1 (Dy.add (Dy.add yk (Dy.halve h)) Dy.half) :=
  ⟨rfl, rfl⟩


end NautilusVerif
