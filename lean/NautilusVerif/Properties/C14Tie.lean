/-
  C14 — tie theorems: what `Sampler.posterior` computes (regenerated from the source on every run into
  `Generated/C14.lean`) *is* the model the C14 theorems are about.
-/
import NautilusVerif.Model.Resample
import NautilusVerif.Generated.C14
import Mathlib.Data.Rat.Floor
namespace NautilusVerif
open Resample

theorem C14_tie_formulas (w wmax boost r u : ℚ) :
    Gen.C14.relWeight w wmax boost = relWeight w wmax boost ∧ Gen.C14.reps r u = reps r u := ⟨rfl, rfl⟩

/-- the three row arrays are repeated with the *same* multiplicities, the weights are reset to equal values and
    normalised afterwards; `posterior` stores nothing on the sampler and draws random numbers only inside the
    equal-weight branch -/
theorem C14_tie_structure :
    Gen.C14.repeated = ["points", "log_l", "blobs"] ∧ Gen.C14.weightsReset = ["log_w=zeros(sum)"] ∧
    Gen.C14.normalisation = ["log_w = log_w - logsumexp(log_w)"] ∧
    Gen.C14.posteriorSelfWrites = [] ∧ Gen.C14.rngUsesOutsideEqualWeight = [] := by decide


end NautilusVerif
