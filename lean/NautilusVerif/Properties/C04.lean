/-
  C04 — evidence and posterior are statistically correct on problems with known answers.   STATEMENTS OF RECORD.
  (partial: unbiasedness of the *modelled* estimator on a finite uniform space; float rounding, the generator's quality,
  the Monte-Carlo error of the bound volumes and convergence are runtime behaviour, validated by seed ensembles in
  `harness/c04.py` — labelled validation, not proof.)

  The space `X` is a finite set of equiprobable cells (the unit cube), `B 0 = X, B 1, …` are the bounds, the shell of
  bound `i` is `B i` minus all later bounds, and a proposal is a uniform draw from its bound (C08).  These are exactly
  the facts established elsewhere: shells partition the samples (C01), the estimator has this form (C02), proposals are
  uniform on the bound (C08).  With the exploration phase discarded the bounds are fixed when the samples are drawn;
  with it kept, the same identities hold only conditionally on the bounds (the documented pseudo-importance bias is the
  dependence of the bounds on earlier samples, which no finite-sample theorem removes).
-/
import NautilusVerif.Lemmas.ProbLemmas
namespace NautilusVerif
open Prob Finset

variable {X : Type} [DecidableEq X] [Fintype X]

/-- the shells partition the space when the first bound is the whole cube -/
theorem C04_partition {m : ℕ} (B : Fin (m + 1) → Finset X) (h0 : B 0 = univ) (x : X) :
    ∃! i : Fin (m + 1), x ∈ B i ∧ ∀ j : Fin (m + 1), i < j → x ∉ B j := shells_partition B h0 x

/-- one proposal in bound `B`, counted in its shell `R`: `|B|/|X| · L(x)·[x ∈ R]` has expectation `Σ_{x∈R} L x / |X|`
    — the mean over any number `N ≥ 1` of i.i.d. proposals has the same expectation -/
theorem C04_shell_unbiased (B R : Finset X) (hRB : R ⊆ B) (hB : 0 < B.card) (L : X → ℚ) :
    ((B.card : ℚ) / Fintype.card X) * expect B (fun x => if x ∈ R then L x else 0) = (∑ x ∈ R, L x) / Fintype.card X :=
  shell_term_unbiased B R hRB hB L

/-- **the evidence estimator is unbiased**: for any bounds, any likelihood, any numbers of proposals per bound -/
theorem C04_Z_unbiased {m : ℕ} (B : Fin (m + 1) → Finset X) (h0 : B 0 = univ) (hB : ∀ i, 0 < (B i).card) (L : X → ℚ) :
    ∑ i : Fin (m + 1), ((B i).card : ℚ) / Fintype.card X *
        expect (B i) (fun x => if (x ∈ B i ∧ ∀ j : Fin (m + 1), i < j → x ∉ B j) then L x else 0) =
      (∑ x, L x) / Fintype.card X := evidence_unbiased B h0 hB L

/-- the numerators of the self-normalised posterior expectations are unbiased as well (apply `C04_Z_unbiased` to `L·g`) -/
theorem C04_weights_consistent {m : ℕ} (B : Fin (m + 1) → Finset X) (h0 : B 0 = univ) (hB : ∀ i, 0 < (B i).card)
    (L g : X → ℚ) :
    ∑ i : Fin (m + 1), ((B i).card : ℚ) / Fintype.card X *
        expect (B i) (fun x => if (x ∈ B i ∧ ∀ j : Fin (m + 1), i < j → x ∉ B j) then L x * g x else 0) =
      (∑ x, L x * g x) / Fintype.card X := evidence_unbiased B h0 hB (fun x => L x * g x)

/-- the shell volumes add up to the prior volume (one), independent of the likelihood -/
theorem C04_volumes_sum_to_one [Nonempty X] {m : ℕ} (B : Fin (m + 1) → Finset X) (h0 : B 0 = univ)
    (hB : ∀ i, 0 < (B i).card) :
    ∑ i : Fin (m + 1), ((B i).card : ℚ) / Fintype.card X *
        expect (B i) (fun x => if (x ∈ B i ∧ ∀ j : Fin (m + 1), i < j → x ∉ B j) then 1 else 0) = 1 :=
  shell_volumes_sum_to_one B h0 hB

end NautilusVerif
