/-
  C12 — exploration ends once; then history is append-only; discard is a pure view.   STATEMENTS OF RECORD.

  Model: `Core`.  The phase discipline of `run()` (`add_bound` and the end of exploration are only reached under
  `not self.explored`) is `PhaseOK`/`RunShaped`; it is tied to the source by the run-skeleton translator.
  Tie: `harness/c12.py` (replay with toggles at operation boundaries; snapshots compared bit-for-bit).
-/
import NautilusVerif.Lemmas.CoreCounts
namespace NautilusVerif
open Core

/-- once explored, always explored: no operation of the model clears the flag -/
theorem C12_phaseMonotone (env : Env) (s : St) (op : Op) (he : s.explored = true) :
    (step env s op).1.explored = true := explored_mono env s op he

theorem C12_phaseMonotone_exec (env : Env) (s : St) (ops : List Op) (he : s.explored = true) :
    (exec env s ops).explored = true := by
  induction ops generalizing s with
  | nil => exact he
  | cons op ops ih => exact ih _ (explored_mono env s op he)

/-- in the sampling phase the set of bounds is frozen, no shell is added or removed, and every array of every
    shell only grows at its end: earlier samples are neither altered nor reordered; the exploration split point
    and exploration proposal counts never move -/
theorem C12_appendOnly (env : Env) (s : St) (op : Op) (he : s.explored = true) (hop : SamplingOp op) :
    (step env s op).1.explored = true ∧ bounds (step env s op).1 = bounds s ∧
    (step env s op).1.shells.length = s.shells.length ∧
    ∀ (i : Nat) (a b : Shell), s.shells[i]? = some a → (step env s op).1.shells[i]? = some b →
      a.pts <+: b.pts ∧ a.ls <+: b.ls ∧ a.bs <+: b.bs ∧ b.endExp = a.endExp ∧ b.nSampleExp = a.nSampleExp ∧
      b.bound = a.bound := sampling_step env s op he hop

/-- every shell keeps at least one sample after exploration (in every run-shaped history) -/
theorem C12_nonempty (env : Env) (nBatch : Nat) (ops : List Op) (hr : RunShaped env (init nBatch) ops) :
    ExploredShape (exec env (init nBatch) ops) := (counts_exec env nBatch ops hr).2.2

/-- what the end of exploration does: empty shells go, the split point is the current length -/
theorem C12_end (s : St) (d : Bool) :
    (endExploration s d).explored = true ∧
    ∀ sh ∈ (endExploration s d).shells, sh.endExp = sh.pts.length ∧ sh.nSampleExp = sh.nSample ∧
      ∃ sh0 ∈ s.shells, sh0.nShown ≠ 0 ∧ sh.pts = sh0.pts ∧ sh.bound = sh0.bound := endExploration_shape s d

/-- the discard switch touches no stored sample, no proposal count, no transfer array, no counter -/
theorem C12_storedOnly (s : St) (b : Bool) :
    (setDiscard s b).shells.map (fun sh => (sh.bound, sh.pts, sh.ls, sh.bs, sh.nSample, sh.nSampleExp, sh.endExp)) =
      s.shells.map (fun sh => (sh.bound, sh.pts, sh.ls, sh.bs, sh.nSample, sh.nSampleExp, sh.endExp)) ∧
    (setDiscard s b).tPts = s.tPts ∧ (setDiscard s b).tShell = s.tShell ∧ (setDiscard s b).nLike = s.nLike ∧
    (setDiscard s b).explored = s.explored := setDiscard_stored s b

/-- turning it on shows exactly the samples appended after exploration ended -/
theorem C12_view (s : St) (he : s.explored = true) (sh : Shell) (h : sh ∈ (setDiscard s true).shells) :
    visible (setDiscard s true) sh = sh.pts.drop sh.endExp ∧ sh.nShown = (sh.ls.drop sh.endExp).length :=
  discard_view s he sh h

/-- switching twice is switching once; switching back restores the state exactly -/
theorem C12_toggle (s : St) (b b' : Bool) :
    setDiscard (setDiscard s b') b = setDiscard s b ∧ (Counts s → Aligned s → setDiscard s s.discard = s) :=
  setDiscard_toggle s b b'

/-- corollary: off → on → off returns to the very same state (every cached statistic included) -/
theorem C12_roundTrip (s : St) (hc : Counts s) (ha : Aligned s) (b : Bool) :
    setDiscard (setDiscard s b) s.discard = s := by
  rw [(setDiscard_toggle s s.discard b).1]; exact (setDiscard_toggle s s.discard s.discard).2 hc ha

end NautilusVerif
