/-
  C02 — tie theorems: the scalar formulas of `update_shell_info` / `posterior` and the statement lists of `log_z`,
  `n_eff`, `posterior` (regenerated into `Generated/C02.lean` on every run) are the estimators of `C02Est.lean`.
-/
import NautilusVerif.Generated.C02
namespace NautilusVerif
open Gen.C02

theorem C02_tie_formulas (Vb n N sumL sumL2 vol : ℝ) :
    shellVolume Vb n N = Vb * (n / N) ∧ shellMeanL sumL n = sumL / n ∧ shellNeff sumL sumL2 = sumL ^ 2 / sumL2 ∧
    weightFactor vol n = vol / max n 1 := ⟨rfl, rfl, rfl, rfl⟩

theorem C02_tie_structure :
    shellInfoOther = ["0", "len(log_l)", "-np.inf", "np.nan"] ∧
    logZBody = ["if np.sum(self.shell_n) == 0: return None", "select = ~np.isnan(self.shell_log_l)", "return logsumexp(self.shell_log_l[select] + self.shell_log_v[select])"] ∧
    nEffBody = ["if np.all(self.shell_n_eff == 0): return 0", "select = self.shell_n_eff > 0", "sum_w = np.exp(self.shell_log_l + self.shell_log_v - np.nanmax(self.shell_log_l + self.shell_log_v))[select]", "sum_w_sq = sum_w ** 2 / self.shell_n_eff[select]", "return np.sum(sum_w) ** 2 / np.sum(sum_w_sq)"] ∧
    posteriorWeights = ["log_v = np.repeat(self.shell_log_v - np.log(np.maximum(self.shell_n, 1)), self.shell_n)", "log_w = log_v + log_l", "log_w = log_w - logsumexp(log_w)", "start = self.shell_end_exp", "start = np.zeros(len(self.points), dtype=int)", "log_w = np.zeros(np.sum(repeats))"] := ⟨rfl, rfl, rfl, rfl⟩

theorem C02_tie_view : shellInfoView = ["shell_n_sample = self.shell_n_sample[index]", "if self._discard_exploration and self.explored: start = self.shell_end_exp[index] shell_n_sample -= self.shell_n_sample_exp[index] else: start = 0", "log_l = self.log_l[index][start:]", "if self.shell_n[index] > 0: self.shell_log_v[index] = self.bounds[index].log_v + np.log(shell_n / shell_n_sample) self.shell_log_l[index] = logsumexp(log_l) - np.log(shell_n) if not np.all(log_l == -np.inf): self.shell_n_eff[index] = np.exp(2 * logsumexp(log_l) - logsumexp(2 * log_l)) else: self.shell_n_eff[index] = len(log_l) else: self.shell_log_v[index] = -np.inf self.shell_log_l[index] = np.nan self.shell_n_eff[index] = 0"] := rfl

end NautilusVerif
