/-
  C06 — a kill at any instant leaves an atomic, loadable checkpoint.   STATEMENTS OF RECORD.

  Model: `Model/CrashFS.lean` (system-call level file system with inodes, descriptors, rename).  The theorem covers
  every crash prefix of every trace that respects the atomic-writer discipline `opOK`; `harness/c06.py` traces real
  checkpointed runs with `strace`, abstracts the system calls on the checkpoint and its temporary sibling to `Sys`,
  lets the Lean driver evaluate `atomicOK` / `firstUnsafe` on the *observed* trace, and kills real child processes
  at sampled system calls to validate the abstraction end to end.
-/
import NautilusVerif.Lemmas.CrashLemmas
namespace NautilusVerif
open CrashFS

/-- for every trace that follows the atomic protocol and **every** crash point `k`, the checkpoint is safe: it
    exists (once a first checkpoint was completed) and holds exactly one completely written state -/
theorem C06_atomic (tr : List Sys) (h : atomicOK tr = true) (k : Nat) : Safe (run (tr.take k)) :=
  atomic_safe tr h k

/-- the semantic classifier used on observed traces is sound and complete -/
theorem C06_classifier (tr : List Sys) :
    (firstUnsafe tr = none ↔ ∀ k, k ≤ tr.length → Safe (run (tr.take k))) ∧
    (∀ k, firstUnsafe tr = some k → k ≤ tr.length ∧ ¬ Safe (run (tr.take k)) ∧ ∀ j, j < k → Safe (run (tr.take j))) :=
  ⟨firstUnsafe_none_iff tr, fun k h => firstUnsafe_some tr k h⟩

theorem C06_atomic_classified (tr : List Sys) (h : atomicOK tr = true) : firstUnsafe tr = none :=
  atomic_firstUnsafe tr h

/-! ### the two protocols on concrete traces (non-vacuity and the pinned-commit witness) -/
namespace C06Demo
/-- the repaired protocol: build the new file under the temporary name, close it, rename it over the checkpoint;
    the incremental update copies the checkpoint to the temporary name first -/
def atomicTrace : List Sys :=
  [ .openat 4 1 true false true, .mutate 4, .mutate 4, .close 4, .rename 1 0, .mark,          -- first full write
    .openat 4 0 false false false, .openat 5 1 true true true, .mutate 5, .close 4, .close 5,  -- copy ck → tmp
    .openat 4 1 true false false, .mutate 4, .mutate 4, .close 4, .rename 1 0, .mark ]         -- update the copy, move it
example : atomicOK atomicTrace = true ∧ firstUnsafe atomicTrace = none := by decide

/-- the pinned-commit protocol: `write` unlinks the checkpoint and creates it anew; `write_shell_update` opens the
    live file read-write and overwrites it in place -/
def legacyTrace : List Sys :=
  [ .openat 4 0 true false true, .mutate 4, .mutate 4, .close 4, .mark,                      -- first full write
    .openat 4 0 true false false, .mutate 4, .mutate 4, .close 4, .mark,                     -- in-place update
    .unlink 0, .openat 4 0 true false true, .mutate 4, .close 4, .mark ]                      -- next full write
end C06Demo

/-- the pinned code is unsafe: a kill right after the first in-place `pwrite` of an update (7 system calls) leaves a
    checkpoint that is neither the old nor the new state; and the full write removes the file first -/
theorem C06_legacy_unsafe :
    atomicOK C06Demo.legacyTrace = false ∧ firstUnsafe C06Demo.legacyTrace = some 7 ∧
    ¬ Safe (run (C06Demo.legacyTrace.take 11)) := by decide

/-- a hard link instead of a copy in the incremental update: the "temporary" name is the checkpoint's own inode, the update
    edits the live file in place and the final rename of two names of one file changes nothing — unsafe after the first write -/
theorem C06_hardlink_unsafe :
    let tr : List Sys := [ .openat 4 1 true false true, .mutate 4, .close 4, .rename 1 0, .mark,
                           .link 0 1, .openat 4 1 true false false, .mutate 4, .mutate 4, .close 4, .rename 1 0, .mark ]
    atomicOK tr = false ∧ firstUnsafe tr = some 8 := by decide

end NautilusVerif
