/-
  C08 — tie theorems: the proposal / acceptance / volume expressions and loop bodies of `Union.sample`,
  `Union.log_v`, `NautilusBound.sample`, `NautilusBound.log_v` (regenerated into `Generated/C08.lean` on every run)
  are the scheme `Lemmas/ProbLemmas.lean` proves uniform and calibrated.
-/
import NautilusVerif.Generated.C08
import NautilusVerif.Generated.C07
namespace NautilusVerif

/-- accept iff `u > 1 - 1/m`; member `i` proposed with weight `v_i / V`; volume = `V (1 - rejected/proposed)`,
    at both levels -/
theorem C08_tie_formulas (m v V r n : ℝ) :
    Gen.C08.acceptThreshold m = 1 - 1 / m ∧ Gen.C08.memberWeight v V = v / V ∧
    Gen.C08.unionVolume V r n = V * (1 - r / n) ∧ Gen.C08.nautilusVolume V r n = V * (1 - r / n) := ⟨rfl, rfl, rfl, rfl⟩

/-- the statements of one proposal round, in order: multinomial over the member weights, one draw per member,
    rejection outside the cube, shuffle, multiplicity, acceptance test, counters -/
theorem C08_tie_union_loop :
    Gen.C08.unionSampleGuard = "len(self.points) < n_points" ∧
    Gen.C08.unionSampleLoop =
      ["n_sample = 1000", "p = np.exp(np.array(self.log_v_all) - logsumexp(self.log_v_all))",
       "n_per_bound = self.rng.multinomial(n_sample, p)",
       "points = np.vstack([bound.sample(n) for bound, n in zip(self.bounds, n_per_bound)])",
       "if self.cube is not None: points = points[self.cube.contains(points)]", "self.rng.shuffle(points)",
       "n_bound = np.sum([bound.contains(points) for bound in self.bounds], axis=0)", "p = 1 - 1.0 / n_bound",
       "points = points[self.rng.random(size=len(points)) > p]", "self.points = np.vstack([self.points, points])",
       "self.n_sample += n_sample", "self.n_reject += n_sample - len(points)"] := ⟨rfl, rfl⟩

/-- second level and the pool path: network rejection of outer proposals with its own counters; worker counters
    of both levels are summed -/
theorem C08_tie_nautilus_loop :
    Gen.C08.nautilusSampleLoop =
      ["n_sample = 1000", "points = self.outer_bound.sample(n_sample)",
       "in_bound = np.any([bound.contains(points) for bound in self.neural_bounds], axis=0)", "points = points[in_bound]",
       "self.points = np.vstack([self.points, points])", "self.n_sample += n_sample",
       "self.n_reject += n_sample - len(points)"] ∧
    Gen.C08.poolMerge =
      ["self.points = np.vstack([self.points, bound.points])", "self.n_sample += bound.n_sample",
       "self.n_reject += bound.n_reject", "self.outer_bound.n_sample += bound.outer_bound.n_sample",
       "self.outer_bound.n_reject += bound.outer_bound.n_reject"] := ⟨rfl, rfl⟩

/-- the closed form of `Ellipsoid.log_v` is the expression `C08_ellVolume` is about -/
theorem C08_tie_ellipsoid_logv (l d : ℝ) :
    Gen.C07.ellipsoidLogV l d =
      l + d * Real.log 2 + d * Real.log (Real.Gamma (3 / 2)) - Real.log (Real.Gamma (d / 2 + 1)) := rfl

end NautilusVerif
