/-
  C09 — writing and reading back any bound preserves its behaviour.   STATEMENTS OF RECORD (table part).

  `Generated/C09.lean` is regenerated from the `write` / `read` / `update` methods of every bound class on every
  run.  The quantifier "all classes × all valuations of the branch guards" is a finite table, so `decide` over the
  whole table *is* the proof.  Values passing through h5py unchanged is trusted and sampled by `harness/c09.py`.
-/
import NautilusVerif.Model.Persist
import NautilusVerif.Generated.C09
namespace NautilusVerif
open Persist

/-- every class has been translated (a method the translator no longer recognises breaks this) -/
theorem C09_tables_complete : Gen.C09.tables.map (·.name) = Gen.C09.expectedClasses := by decide

/-- for every class and every valuation of its guards, `read` assigns every attribute that `contains`, `sample`,
    `log_v`, `update`, `write`, `reset`, `transform` read -/
theorem C09_readCovers : ∀ t ∈ Gen.C09.tables, readCovers t = true := by decide

/-- ... from the key, and under the guard, `write` stored it with -/
theorem C09_writeCovers : ∀ t ∈ Gen.C09.tables, writeCovers t = true ∧ flagsStored t = true := by decide

/-- an incremental `update` overwrites everything `sample` changes, under the keys of a full `write` -/
theorem C09_updateCovers : ∀ t ∈ Gen.C09.tables, updateCovers t = true ∧ updateKeysMatch t = true := by decide

end NautilusVerif
