/-
  C01 — every stored sample belongs to exactly one shell: its own.   STATEMENTS OF RECORD.

  Model: `Model/Core.lean` (state machine), `Model/CoreInv.lean` (`Inv01`).  The environment `env` carries every
  geometric fact (`contains`, `inCube`) and is universally quantified; what is assumed of the oracles is `WF`
  (`Lemmas/CoreWF.lean`): proposals drawn for a shell are new rows inside the cube and inside that shell's bound —
  exactly the conclusion of C07, validated on every real proposal by the replay.
  Tie: `harness/c01.py` (observed-oracle replay of real sampler histories + `Inv01` evaluated on the real state).
-/
import NautilusVerif.Lemmas.CoreInv01
import NautilusVerif.Lemmas.NodupFastLemmas
namespace NautilusVerif
open Core

/-- at every operation boundary of every history: each stored sample is in the cube, inside the bound of its own
    shell and outside every later bound; unused transfer candidates lie in the newest bound; nothing is stored twice.
    `TPhase`: `add_samples(-1)` (with transfers) is only issued while exploring, as `run()` does — without it the
    statement is false (kernel-checked counterexamples at the end of `Lemmas/CoreInv01.lean`). -/
theorem C01_invariant (env : Env) (nBatch : Nat) (ops : List Op) (hw : WF env (init nBatch) ops)
    (hp : TPhase env (init nBatch) ops) : Inv01 env (exec env (init nBatch) ops) :=
  inv01_exec_init env nBatch ops hw hp

/-- one-step form (this is what holds "after every internal bound insertion" and at every write) -/
theorem C01_step (env : Env) (s : St) (op : Op) (ha : Aligned s) (h : Inv01 env s) (hte : TEmpty s)
    (hop : OpOK env s op) (hph : TransferPhase s op) :
    Inv01 env (step env s op).1 ∧ Aligned (step env s op).1 ∧ TEmpty (step env s op).1 :=
  ⟨inv01_step_corrected env s op ha h hte hop hph, aligned_step env s op ha, tEmpty_step env s op hte⟩

/-- membership as the code defines it (`shell_association`: last containing bound) agrees with storage -/
theorem C01_association (env : Env) (s : St) (h : InShells env s) (sh : Shell) (i : Nat)
    (hi : (sh, i) ∈ s.shells.zipIdx) (p : Pt) (hp : p ∈ sh.pts) : assoc env (bounds s) p = (i : Int) :=
  assoc_of_inShells env s h sh i hi p hp

/-- the shells partition the samples: no sample is counted in two shells -/
theorem C01_partition (s : St) (h : NoDup s) (i k : Nat) (hik : i ≠ k) (a b : Shell)
    (ha : s.shells[i]? = some a) (hb : s.shells[k]? = some b) : ∀ p ∈ a.pts, p ∉ b.pts :=
  shells_disjoint s h i k hik a b ha hb

/-- the driver evaluates `NoDup` on real states with a sort-based test; it decides the same proposition -/
theorem C01_nodupFast (l : List Nat) : nodupFast l = true ↔ l.Nodup := nodupFast_iff l

/-! ### non-vacuity: two overlapping non-nested bounds, a transfer, a rejected proposal, an emptied shell -/
namespace C01Demo
/-- bound 0 = cube; bound 1 contains points 2,4,5,7; bound 2 contains 5,6,7 (overlaps bound 1, not nested) -/
def env : Env := { contains := fun b p => b == 0 || (b == 1 && [2, 4, 5, 7].contains p) || (b == 2 && [5, 6, 7].contains p),
                   inCube := fun _ => true }
def ops : List Op :=
  [.addBound (some 0), .addSamples none [⟨[0, 1], [0, 1]⟩] [], .addSamples none [⟨[2, 3], [2, 3]⟩] [],
   .addBound (some 1),                                   -- point 2 becomes a transfer candidate
   .addSamples none [⟨[4, 5], [5]⟩, ⟨[7], [7]⟩] [0],     -- proposal 4 is replaced by the transferred point 2
   .addBound (some 2),                                   -- 5 and 7 move on; shell 1 keeps only 2
   .addSamples none [⟨[6, 8], [6, 8]⟩] [] ]              -- (8 is not in bound 2: rejected by WF, see below)
example : WF env (init 2) (ops.take 6) ∧ TPhase env (init 2) (ops.take 6) := by decide
example : Inv01 env (exec env (init 2) (ops.take 6)) := by decide
example : (exec env (init 2) (ops.take 6)).shells.map (·.pts) = [[0, 1, 3], [2], []] := by decide
example : ¬ WF env (init 2) ops := by decide        -- a proposal outside its bound is what `WF` excludes
end C01Demo

end NautilusVerif
