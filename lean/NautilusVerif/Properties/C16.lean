/-
  C16 — periodic phase shift is a bijection of the unit cube.   STATEMENTS OF RECORD.

  Model: `Model/Shift.lean` (`Shift.Q` exact, `Shift.F` bit-exact doubles).
  Tie:   `Generated/C16.lean` is regenerated from `nautilus/bounds/periodic.py` on every run; the `C16_tie_*`
         theorems say that what the source computes *is* the model.  `harness/c16.py` additionally compares
         the real `PhaseShift` with `Shift.F` bit-for-bit.
-/
import NautilusVerif.Model.Shift
import NautilusVerif.Lemmas.ShiftQ
import NautilusVerif.Lemmas.ShiftGap
import NautilusVerif.Lemmas.DyadicSem
namespace NautilusVerif
open Shift

/-! ## exact arithmetic -/

/-- every coordinate (in the cube or not) is mapped into `[0,1)`, in both directions -/
theorem C16_range (c x : ℚ) (inverse : Bool) : 0 ≤ Q.shift1 c inverse x ∧ Q.shift1 c inverse x < 1 := by
  unfold Q.shift1 Q.fwd Q.inv
  cases inverse <;> exact ⟨Q.fract_nonneg' _, Q.fract_lt_one' _⟩

/-- the inverse undoes the shift exactly on the unit interval, both ways round -/
theorem C16_inverse (c x : ℚ) (h0 : 0 ≤ x) (h1 : x < 1) :
    Q.shift1 c true (Q.shift1 c false x) = x ∧ Q.shift1 c false (Q.shift1 c true x) = x :=
  ⟨Q.inv_fwd c x h0 h1, Q.fwd_inv c x h0 h1⟩

theorem C16_length (periodic : List ℕ) (centers : List ℚ) (inverse : Bool) (p : List ℚ) :
    (Q.transform periodic centers inverse p).length = p.length := by
  unfold Q.transform
  generalize periodic.zip centers = l
  induction l generalizing p with
  | nil => rfl
  | cons a l ih => simp [List.foldl_cons, ih]

/-- coordinates that are not declared periodic are left untouched -/
theorem C16_untouched (periodic : List ℕ) (centers : List ℚ) (inverse : Bool) (p : List ℚ) (i : ℕ)
    (hi : i ∉ periodic) : (Q.transform periodic centers inverse p)[i]? = p[i]? := by
  unfold Q.transform
  have : ∀ (l : List (ℕ × ℚ)) (p : List ℚ), (∀ dc ∈ l, dc.1 ≠ i) →
      (l.foldl (fun p (dc : ℕ × ℚ) =>
        p.mapIdx (fun j x => if j = dc.1 then Q.shift1 dc.2 inverse x else x)) p)[i]? = p[i]? := by
    intro l
    induction l with
    | nil => intro p _; rfl
    | cons a l ih =>
      intro p h
      rw [List.foldl_cons, ih _ (fun dc hdc => h dc (List.mem_cons_of_mem _ hdc))]
      have ha : a.1 ≠ i := h a List.mem_cons_self
      rw [List.getElem?_mapIdx]
      cases hp : p[i]? with
      | none => simp
      | some v => simp [Ne.symm ha]
  apply this
  intro dc hdc
  have := (List.of_mem_zip hdc).1
  intro h; exact hi (h ▸ this)

/-- **largest gap across the boundary**: for any non-empty column of in-cube coordinates, with `c` the centre
    `PhaseShift.compute` chooses, there is a cyclic gap `g` of the sorted column that is maximal among all cyclic
    gaps, and every shifted coordinate lies in `[g/2, 1 - g/2]` — so after the shift the empty interval across the
    0/1 boundary is at least as long as the largest gap before, i.e. a wrapped mode has become contiguous. -/
theorem C16_gap (col : List ℚ) (hr : ∀ x ∈ col, 0 ≤ x ∧ x < 1) (c : ℚ) (hc : Q.centre col = some c) :
    ∃ g, (∀ g' ∈ Q.gaps (sortBy (fun a b => decide (a ≤ b)) col), g' ≤ g) ∧
         g ∈ Q.gaps (sortBy (fun a b => decide (a ≤ b)) col) ∧
         ∀ x ∈ col, g / 2 ≤ Q.shift1 c false x ∧ Q.shift1 c false x ≤ 1 - g / 2 := by
  unfold Q.centre at hc
  have hp := sortBy_perm col
  obtain ⟨g, h1, h2, h3⟩ := Q.centre_gap _ (sortBy_pairwise col)
    (fun x hx => hr x (hp.mem_iff.mp hx)) c hc
  exact ⟨g, h1, h2, fun x hx => h3 x (hp.mem_iff.mpr hx)⟩

theorem C16_gap_is_max (l : List ℚ) (k : ℕ) (g : ℚ)
    (h : argmax (fun a b => decide (a < b)) l = some (k, g)) : (∀ a ∈ l, a ≤ g) ∧ l[k]? = some g :=
  argmax_is_max l k g h

theorem C16_sort_sorted (l : List ℚ) : (sortBy (fun a b => decide (a ≤ b)) l).Pairwise (· ≤ ·) :=
  sortBy_pairwise l

theorem C16_sort_perm (l : List ℚ) : (sortBy (fun a b => decide (a ≤ b)) l).Perm l := sortBy_perm l

/-- a centre exists whenever the column is non-empty (the model's `none` branch is unreachable) -/
example : Q.centre [1/4, 3/4, 1/2] = some (1/2) := by decide +kernel

/-! ## doubles -/

/-- **range in binary64**: for every pair of doubles `c`, `x` and both directions, the value the (repaired)
    `PhaseShift.transform` computes is in `[0,1)`. -/
theorem C16_float_range (c x : Dy) (inverse : Bool) :
    0 ≤ Dy.toRat (F.shift1 c inverse x) ∧ Dy.toRat (F.shift1 c inverse x) < 1 :=
  F.shift1_range c x inverse

/-- the transform as it was at the pinned commit (no fold) maps the in-cube double 0.3 to exactly 1.0 when the
    centre is 0.8: `0.3 + (-0.8 + 0.5) = -5.55e-17`, and numpy's `% 1` rounds `1 - 5.55e-17` up to `1.0`. -/
theorem C16_float_legacy_leaves_cube :
    F.shift1Legacy ⟨7205759403792794, -53⟩ false ⟨5404319552844595, -54⟩ = Dy.one := by decide +kernel

/-- non-vacuity of the float statement at the same input: the repaired transform returns 0 there -/
example : F.shift1 ⟨7205759403792794, -53⟩ false ⟨5404319552844595, -54⟩ = Dy.zero := by decide +kernel

end NautilusVerif
