/-
  C02 — the estimators in linear space.   STATEMENTS OF RECORD (estimator identities over ℝ; exact arithmetic).
  `Lemmas/EstimatorLemmas.lean`: shell `i` has bound volume `Vb i`, `N i` proposals, `n i` visible samples with
  likelihoods `L i j`.  The code works in log space (`logsumexp` = log of a sum, `+` = product); `C02EstTie.lean`
  shows that the scalar formulas regenerated from `update_shell_info` / `posterior` are these.
-/
import NautilusVerif.Lemmas.EstimatorLemmas
namespace NautilusVerif
open Estimator Finset

variable {m : ℕ}

/-- each shell volume is its bound volume times the fraction of proposals that stayed in the shell ... -/
theorem C02_shellVolume (logVb : ℝ) (n N : ℕ) (hn : 0 < n) (hN : 0 < N) :
    Real.exp (logVb + Real.log ((n : ℝ) / (N : ℝ))) = Real.exp logVb * ((n : ℝ) / (N : ℝ)) := shell_log_v_exp logVb n N hn hN

/-- ... never more than all of them (given `count ≤ proposals`, which is `C02_bookkeeping`) -/
theorem C02_shellVolume_le (Vb : Fin m → ℝ) (n N : Fin m → ℕ) (i : Fin m) (hV : 0 ≤ Vb i) (hN : 0 < N i) (h : n i ≤ N i) :
    shellVol Vb n N i ≤ Vb i := shellVol_le Vb n N i hV hN h

/-- the evidence is the sum over samples of likelihood × per-sample volume: combining the per-shell statistics
    (volume × mean likelihood) gives exactly that -/
theorem C02_evidence (Vb : Fin m → ℝ) (n N : Fin m → ℕ) (L : (i : Fin m) → Fin (n i) → ℝ) :
    Z Vb n N L = ∑ i, shellVol Vb n N i * (sumL n L i / (n i : ℝ)) := Z_eq_shell_sum Vb n N L

/-- the weights are those terms normalised to one -/
theorem C02_weights (Vb : Fin m → ℝ) (n N : Fin m → ℕ) (L : (i : Fin m) → Fin (n i) → ℝ) (hZ : Z Vb n N L ≠ 0) :
    ∑ i, ∑ j, w Vb n N L i j = 1 := weights_sum_one Vb n N L hZ

/-- n_eff is the Kish effective sample size of the weights (the normalisation cancels) -/
theorem C02_kish (Vb : Fin m → ℝ) (n N : Fin m → ℕ) (L : (i : Fin m) → Fin (n i) → ℝ) (hpos : ∀ i, 0 < n i) :
    (∑ i, shellVol Vb n N i * (sumL n L i / (n i : ℝ))) ^ 2 /
        (∑ i, (shellVol Vb n N i / (n i : ℝ)) ^ 2 * sumL2 n L i) =
      (∑ i, ∑ j, L i j * (shellVol Vb n N i / (n i : ℝ))) ^ 2 /
        (∑ i, ∑ j, (L i j * (shellVol Vb n N i / (n i : ℝ))) ^ 2) := kish_identity Vb n N L hpos

/-- the per-shell term the code sums: `Z_i² / nEff_i` with `nEff_i = (ΣL)²/ΣL²` -/
theorem C02_shellTerm (v : ℝ) (nn : ℕ) (sL sL2 : ℝ) (hs : sL ≠ 0) (hn : 0 < nn) :
    (v * (sL / (nn : ℝ))) ^ 2 / (sL ^ 2 / sL2) = (v / (nn : ℝ)) ^ 2 * sL2 := shell_term v nn sL sL2 hs hn

end NautilusVerif
