/-
  C03 — posterior rows are faithful (point, log-likelihood, blob) triples, once each.   STATEMENTS OF RECORD.

  In `Core` the three arrays of a shell are three separate lists of evaluation names and every masking /
  indexing / appending line of the Python code is transcribed per array; `Aligned` says they name the same
  evaluations in the same order.  Tie: `harness/c03.py` (replay over the evaluation-mode matrix; every returned
  row is checked against the call log of an instrumented pure likelihood).
-/
import NautilusVerif.Lemmas.CoreInv01
import NautilusVerif.Lemmas.CoreCounts
import NautilusVerif.Properties.C01
namespace NautilusVerif
open Core

/-- the parallel arrays stay aligned through every history, whatever the oracles return (no hypothesis) -/
theorem C03_aligned (env : Env) (nBatch : Nat) (ops : List Op) : Aligned (exec env (init nBatch) ops) :=
  aligned_exec env (init nBatch) ops (aligned_init nBatch)

/-- every posterior row is a point with *its* likelihood and *its* blob, in storage order -/
theorem C03_rows (env : Env) (nBatch : Nat) (ops : List Op) :
    posteriorRows (exec env (init nBatch) ops) =
      (((exec env (init nBatch) ops).shells.map (visible (exec env (init nBatch) ops))).flatten).map
        (fun p => (p, p, p)) :=
  posterior_rows _ (C03_aligned env nBatch ops)

/-- every evaluated point appears at most once -/
theorem C03_once (env : Env) (nBatch : Nat) (ops : List Op) (hw : WF env (init nBatch) ops)
    (hp : TPhase env (init nBatch) ops) :
    ((posteriorRows (exec env (init nBatch) ops)).map (·.1)).Nodup :=
  posterior_nodup _ (C03_aligned env nBatch ops) (inv01_exec_init env nBatch ops hw hp).2.2

/-- rows enter a shell only through `add_samples`: the rows evaluated in that call (with the names of their own
    evaluations in all three arrays), preceded by rows moved from the transfer set -/
theorem C03_append (env : Env) (s : St) (ha : Aligned s) (sh : Option Nat) (rounds : List Round)
    (idxT : List Nat) (hok : (addSamples env s sh rounds idxT).2 = .ok) :
    ∃ (evald moved : List Pt) (old : Shell) (new : Shell),
      evald.length = s.nBatch ∧
      (addSamples env s sh rounds idxT).1.nLike = s.nLike + s.nBatch ∧
      (∀ p ∈ evald, ∃ r ∈ rounds, p ∈ r.props) ∧
      s.shells[sh.getD (s.shells.length - 1)]? = some old ∧
      (addSamples env s sh rounds idxT).1.shells[sh.getD (s.shells.length - 1)]? = some new ∧
      new.pts = old.pts ++ moved ++ evald ∧ new.ls = old.ls ++ moved ++ evald ∧ new.bs = old.bs ++ moved ++ evald ∧
      (sh.isSome → moved = []) :=
  addSamples_batch env s ha sh rounds idxT hok

example : posteriorRows (exec C01Demo.env (init 2) (C01Demo.ops.take 6)) =
    [(0, 0, 0), (1, 1, 1), (3, 3, 3), (2, 2, 2)] := by decide

end NautilusVerif
