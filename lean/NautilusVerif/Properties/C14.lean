/-
  C14 — the equal-weight posterior is an unbiased, order-preserving resampling.   STATEMENTS OF RECORD.

  Model: `Model/Resample.lean`.  Tie: `Generated/C14.lean` (formulas and statement structure of the
  `if equal_weight:` block of `Sampler.posterior`, regenerated each run) + `harness/c14.py` (real
  `posterior(equal_weight=True)` with a scripted generator vs `Resample.resample` on the same exact values).
-/
import NautilusVerif.Model.Resample
import NautilusVerif.Lemmas.ResampleLemmas
namespace NautilusVerif
open Resample

/-! ## multiplicities -/
/-- every sample is repeated `⌊r⌋` or `⌊r⌋ + 1` times, whatever the draw -/
theorem C14_range (r u : ℚ) : reps r u = ⌊r⌋ ∨ reps r u = ⌊r⌋ + 1 := Resample.reps_range r u

/-- ... and the larger value is taken exactly when the uniform draw falls below the fractional part -/
theorem C14_up_iff (r u : ℚ) : reps r u = ⌊r⌋ + 1 ↔ u < Int.fract r := Resample.reps_up_iff r u

/-- **expectation exactly r** for a uniform draw on `[0,1)` (Lebesgue measure): the event "one more copy" has
    probability `fract r`, hence `E[reps] = ⌊r⌋ + fract r = r`. -/
theorem C14_mean (r : ℚ) :
    MeasureTheory.volume {u : ℝ | 0 ≤ u ∧ u < 1 ∧ u < ((Int.fract r : ℚ) : ℝ)} = ENNReal.ofReal ((Int.fract r : ℚ) : ℝ)
    ∧ ((⌊r⌋ : ℚ) + Int.fract r = r) := Resample.mean_spec r

/-- the same on the finite uniform space the generator actually draws from (`u = k / N`, `k < N`, `N = 2^53`):
    exact whenever `N * fract r` is an integer (always, when `r ≥ 1` is a double; up to `1/N` otherwise) -/
theorem C14_mean_grid (r : ℚ) (N : ℕ) (hN : 0 < N) (m : ℕ) (hm : (m : ℚ) = N * Int.fract r) :
    ((Finset.range N).filter (fun k : ℕ => reps r ((k : ℚ) / (N : ℚ)) = ⌊r⌋ + 1)).card = m :=
  Resample.mean_grid r N hN m hm

/-- with boost ≤ 1 (relative weight ≤ 1) no sample is repeated -/
theorem C14_noDup (w wmax boost u : ℚ) (hw : 0 ≤ w) (hle : w ≤ wmax) (hpos : 0 < wmax)
    (hb0 : 0 < boost) (hb1 : boost ≤ 1) (hu : 0 ≤ u) :
    0 ≤ reps (relWeight w wmax boost) u ∧ reps (relWeight w wmax boost) u ≤ 1 :=
  Resample.noDup w wmax boost u hw hle hpos hb0 hb1 hu

/-- a zero-weight sample is never returned -/
theorem C14_zero (wmax boost u : ℚ) (hu : 0 ≤ u) : reps (relWeight 0 wmax boost) u = 0 :=
  Resample.zero_weight wmax boost u hu

/-- multiplicities are never negative (so `toNat` in `repsAll` loses nothing) -/
theorem C14_nonneg (r u : ℚ) (hr : 0 ≤ r) : 0 ≤ reps r u := Resample.reps_nonneg r u hr

/-! ## rows -/
/-- rows keep their original order: the output is the input with each row replaced by adjacent copies of itself -/
theorem C14_order {α} (xs : List α) (ks : List ℕ) :
    expand xs ks = (List.zipWith (fun x k => List.replicate k x) xs ks).flatten := Resample.expand_flatten xs ks

theorem C14_count {α} (xs : List α) (ks : List ℕ) (h : xs.length = ks.length) :
    (expand xs ks).length = ks.sum := Resample.expand_length xs ks h

/-- repeating points, likelihoods and blobs separately (as the code does) is the same as repeating the rows:
    every copy keeps the likelihood and blob of its point -/
theorem C14_aligned {α β γ} (ps : List α) (ls : List β) (bs : List γ) (ks : List ℕ) :
    expand (List.zip ps (List.zip ls bs)) ks = List.zip (expand ps ks) (List.zip (expand ls ks) (expand bs ks)) :=
  Resample.expand_zip3 ps ls bs ks

/-- all returned weights are equal and normalised: `exp(0 - log N)` each, summing to one -/
theorem C14_weights (N : ℕ) (hN : 0 < N) : (N : ℝ) * Real.exp (0 - Real.log N) = 1 := Resample.weights_norm N hN

/-! ## non-vacuity -/
example : reps (7/2) (1/4) = 4 ∧ reps (7/2) (1/2) = 3 ∧ reps (relWeight 1 4 1) (1/8) = 1 ∧ reps 0 0 = 0 := by
  decide +kernel
example : resample ["a", "b", "c"] [7/4, 0, 1/2] [1/2, 0, 3/4] = ["a", "a"] := by decide +kernel

end NautilusVerif
