/-
  The control flow of `run()` — STATEMENTS OF RECORD shared by C01, C02, C10 and C12.

  `Model/Run.lean` is the acceptor of the event sequences `Sampler.run` can issue (entry marker, the `Core`
  operations in loop-body order, return marker; `discard_exploration` switches between calls).  Every branch condition
  the bookkeeping decides is evaluated by the model; the float comparisons are left open (every outcome accepted).
  These theorems discharge, for every accepted sequence, the phase hypotheses (`TPhase`, `RunShaped`) under which the
  operation-level theorems of C01 / C02 / C12 are stated, and give the budget and return-value clauses of C10 on the
  concrete `Core` state.  Tie: `harness/corerec.py` records the events of real `run()` calls; the driver evaluates
  `Run.accepts` on them (`run=true` after every event) — `harness/corechecks.py`.
-/
import NautilusVerif.Lemmas.RunLemmas
import NautilusVerif.Lemmas.CoreInv01
import NautilusVerif.Properties.C01
namespace NautilusVerif
open Core Run

/-- every event sequence `run()` can issue — any number of calls with any arguments and limits, any outcomes of the
    float comparisons, switches of `discard_exploration` between calls — obeys the phase discipline: bounds are inserted,
    exploration is ended and `add_samples(-1)` is called only while `not self.explored` -/
theorem Run_phase (env : Env) (nBatch : Nat) (es : List Ev) (pos' : Pos)
    (h : accepts env .idle (init nBatch) es = some pos') :
    RunShaped env (init nBatch) (opsOf es) ∧ TPhase env (init nBatch) (opsOf es) := by
  obtain ⟨h1, h2, _⟩ := accepts_phase env es .idle (init nBatch) pos' trivial h
  exact ⟨h1, h2⟩

/-- C01 for `run()`: at every event boundary of every history of `run()` calls, every stored sample is in the cube,
    inside the bound of its own shell and outside every later bound, and nothing is stored twice — the only hypothesis
    left is the soundness of the proposals (`WF`, property C07) -/
theorem C01_run (env : Env) (nBatch : Nat) (es : List Ev) (pos' : Pos)
    (h : accepts env .idle (init nBatch) es = some pos') (hw : WF env (init nBatch) (opsOf es)) :
    Inv01 env (execEv env (init nBatch) es) := by
  rw [← exec_opsOf]
  exact inv01_exec_init env nBatch (opsOf es) hw (Run_phase env nBatch es pos' h).2

/-- C02 / C12 for `run()`: alignment, cached counts = visible samples ≤ proposals, non-empty shells after
    exploration — for every history of `run()` calls, with no hypothesis on the numerics at all -/
theorem C02_run (env : Env) (nBatch : Nat) (es : List Ev) (pos' : Pos)
    (h : accepts env .idle (init nBatch) es = some pos') :
    Aligned (execEv env (init nBatch) es) ∧ Counts (execEv env (init nBatch) es) ∧
    ExploredShape (execEv env (init nBatch) es) := by
  rw [← exec_opsOf]
  exact counts_exec env nBatch (opsOf es) (Run_phase env nBatch es pos' h).1

/-- C12 for `run()`: once exploration has finished — at the top of the loop or between calls — whatever `run()` does
    afterwards (further calls, any limits, switches of `discard_exploration`), exploration never resumes, the list of
    bounds is frozen, no shell is added or removed, and every array of every shell only grows at its end -/
theorem C12_run_frozen (env : Env) (s : St) (pos pos' : Pos) (es : List Ev) (hl : PosLate pos)
    (hx : s.explored = true) (h : accepts env pos s es = some pos') :
    (execEv env s es).explored = true ∧ bounds (execEv env s es) = bounds s ∧
    (execEv env s es).shells.length = s.shells.length ∧
    ∀ (i : Nat) (a b : Shell), s.shells[i]? = some a → (execEv env s es).shells[i]? = some b →
      a.pts <+: b.pts ∧ a.ls <+: b.ls ∧ a.bs <+: b.bs ∧ b.endExp = a.endExp ∧ b.nSampleExp = a.nSampleExp ∧
      b.bound = a.bound := by
  rw [← exec_opsOf]
  exact frozen_exec env (opsOf es) s hx (accepts_late env es pos s pos' hl hx h)

/-- C10 for `run()`: a call `run(n_like_max = m)` entered with the counter below `m + n_batch` never takes it to
    `m + n_batch` or beyond ... -/
theorem C10_run_budget (env : Env) (cfg : Cfg) (m : Nat) (hm : cfg.nLikeMax = some m) (s : St) (es : List Ev)
    (pos' : Pos) (hn : ∀ e ∈ es, NoStart e) (hs : s.nLike < m + s.nBatch)
    (h : accepts env .idle s (.runStart cfg :: es) = some pos') :
    (execEv env s es).nLike < m + s.nBatch := by
  simp only [accepts] at h
  split at h
  · exact absurd h (by simp)
  rename_i pos1 hacc
  have hc : InCall cfg pos1 ∨ pos1 = .idle := by
    simp only [accept] at hacc
    split at hacc
    · split at hacc
      · cases hacc; exact Or.inl rfl
      · exact absurd hacc (by simp)
    · cases hacc; exact Or.inl rfl
  have hb : BudgetInv m pos1 s := by
    refine ⟨hs, fun c hc' => ?_⟩
    simp only [accept] at hacc
    split at hacc
    · split at hacc
      · cases hacc; cases hc'
      · exact absurd hacc (by simp)
    · cases hacc; cases hc'
  exact accepts_budget env cfg m hm es pos1 s pos' hc hn hb h

/-- ... and a call entered at or beyond the limit starts no batch at all -/
theorem C10_run_noBatchBeyond (env : Env) (cfg : Cfg) (m : Nat) (hm : cfg.nLikeMax = some m) (s : St) (es : List Ev)
    (pos' : Pos) (hn : ∀ e ∈ es, NoStart e) (hne : s.shells ≠ []) (hs : m ≤ s.nLike)
    (h : accepts env .idle s (.runStart cfg :: es) = some pos') :
    (execEv env s es).nLike = s.nLike := by
  simp only [accepts] at h
  split at h
  · exact absurd h (by simp)
  rename_i pos1 hacc
  have hp : pos1 = .top cfg := by
    simp only [accept] at hacc
    split at hacc
    · rename_i he; exact absurd (List.isEmpty_iff.mp he) hne
    · cases hacc; rfl
  subst hp
  exact accepts_noBatchBeyond env cfg m hm es (.top cfg) s pos' (Or.inl rfl) hn hs h

/-- C10 for `run()`: the return value is `True` exactly when exploration is finished, every shell shows at least
    `n_shell` points and the effective-sample-size comparison holds -/
theorem C10_run_return (cfg : Cfg) (s : St) (ret ok : Bool) (pos' : Pos)
    (h : accept (.top cfg) s (.runEnd ret ok) = some pos' ∨ accept (.sampled cfg) s (.runEnd ret ok) = some pos') :
    (ret = true ↔ s.explored = true ∧ (∀ sh ∈ s.shells, cfg.nShell ≤ sh.nShown) ∧ ok = true) :=
  runEnd_iff cfg s ret ok pos' h

/-- the sampling phase fills the *first* shell below `n_shell` -/
theorem C10_run_fill (cfg : Cfg) (s : St) (i : Nat) (rs : List Round) (it : List Nat) (pos' : Pos)
    (h : accept (.top cfg) s (.op (.addSamples (some i) rs it)) = some pos') :
    s.explored = true ∧ it = [] ∧
    ((∃ sh, s.shells[i]? = some sh ∧ sh.nShown < cfg.nShell ∧
        ∀ j sh', j < i → s.shells[j]? = some sh' → cfg.nShell ≤ sh'.nShown) ∨
     ((∀ sh ∈ s.shells, cfg.nShell ≤ sh.nShown) ∧ i < s.shells.length)) := by
  simp only [accept, acceptTop] at h
  split at h
  · rename_i hc
    simp only [Bool.and_eq_true, List.isEmpty_iff] at hc
    refine ⟨hc.1.1.2, hc.1.2, ?_⟩
    have hcs := hc.2
    unfold shellChoiceOK at hcs
    split at hcs
    · rename_i j hj
      have hij : i = j := by simpa using hcs
      subst hij
      obtain ⟨⟨sh, h1, h2⟩, h3⟩ := firstLow_some cfg s i hj
      exact Or.inl ⟨sh, h1, h2, h3⟩
    · rename_i hj
      exact Or.inr ⟨(firstLow_none cfg s).mp (by simp [hj]), by simpa using hcs⟩
  · exact absurd h (by simp)

/-- C05 / C01 across resumes: a history in which new sampler objects are resumed from the checkpoint between `run()` calls —
    each resume restoring the bookkeeping state exactly — is a history of `run()` calls; in particular C01 holds at every
    boundary of every segment -/
theorem C01_run_session (env : Env) (nBatch : Nat) (segs : List (List Ev))
    (h : acceptsSession env (init nBatch) segs = true) (hw : WF env (init nBatch) (opsOf segs.flatten)) :
    Inv01 env (execEv env (init nBatch) segs.flatten) :=
  C01_run env nBatch segs.flatten .idle (session_flatten env segs (init nBatch) h) hw

/-! ### non-vacuity: the demo history of C01 as two `run()` calls, the second one ending exploration -/
namespace RunDemo
def cfg1 : Cfg := { nShell := 1, discard := false, nLive := 1, nLikeMax := some 6 }
def cfg2 : Cfg := { nShell := 1, discard := true, nLive := 1, nLikeMax := none }
def es : List Ev :=
  [.runStart cfg1, .op (.addBound (some 0)), .op (.addSamples none [⟨[0, 1], [0, 1]⟩] []),
   .op (.addSamples none [⟨[2, 3], [2, 3]⟩] []), .op (.addBound (some 1)),
   .op (.addSamples none [⟨[4, 5], [5]⟩, ⟨[7], [7]⟩] [0]), .runEnd false false,
   .op (.setDiscard false),
   .runStart cfg2, .op (.addBound (some 2)), .op (.addSamples none [⟨[6, 9], [6, 9]⟩] []),
   .op (.endExploration true), .op (.addSamples (some 0) [⟨[10, 11], [10, 11]⟩] []), .runEnd false true]
def env : Env := { contains := fun b p => b == 0 || (b == 1 && [2, 4, 5, 7].contains p) || (b == 2 && [5, 6, 7, 9].contains p),
                   inCube := fun _ => true }
example : accepts env .idle (init 2) es = some .idle := by decide
example : WF env (init 2) (opsOf es) := by decide
example : (execEv env (init 2) es).shells.map (·.pts) = [[0, 1, 3, 10, 11], [2], [6, 9]] := by decide
/-- with the budget used up the model accepts no further batch -/
example : accepts env .idle (init 2) (es.take 6 ++ [.op (.addSamples none [⟨[12, 13], [12, 13]⟩] [])]) = none := by decide
/-- ... nor a bound insertion after exploration, nor filling a shell other than the first one below `n_shell` -/
example : accepts env .idle (init 2) (es.take 12 ++ [.op (.addBound (some 3))]) = none ∧
    accepts env .idle (init 2) (es.take 12 ++ [.op (.addSamples (some 1) [⟨[10, 11], [10, 11]⟩] [])]) = none := by decide
end RunDemo

end NautilusVerif
