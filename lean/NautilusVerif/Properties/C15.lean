/-
  C15 — the prior maps the unit cube to parameters as declared.   STATEMENTS OF RECORD.

  Model: `Model/PriorModel.lean`.  `add` is the repaired `Prior.add_parameter` (validate first, then append key
  and distribution together); `addLegacy` is the pinned-commit code, kept with the witnesses that it violates
  the property.  Tie: `harness/c15.py` runs every declaration word up to a bounded length through the real
  `Prior` and through this model and compares outcome class, the state left behind, `dimensionality`,
  `unit_to_physical` and `unit_to_dictionary` exactly.
-/
import NautilusVerif.Model.PriorModel
import NautilusVerif.Lemmas.PriorLemmas
namespace NautilusVerif
open PriorModel

/-- states reachable from the empty prior by any sequence of calls, successful or not -/
def PriorModel.Reachable (p : Prior) : Prop := ∃ ops, p = exec {} ops

/-- a rejected declaration leaves the prior unchanged -/
theorem C15_atomic (p : Prior) (k : KeyArg) (d : DistArg) (h : (add p k d).2 ≠ .ok) : (add p k d).1 = p :=
  PriorModel.add_atomic p k d h

/-- well-formedness of every reachable prior: keys are distinct, one distribution per key, every link points
    to an *earlier* key whose distribution is not itself a link (chains are collapsed at declaration time) -/
theorem C15_wf (p : Prior) (h : Reachable p) :
    p.keys.Nodup ∧ p.keys.length = p.dists.length ∧
    ∀ (i : Nat) (t : String), p.dists[i]? = some (Dist.link t) →
      ∃ j : Nat, j < i ∧ p.keys[j]? = some t ∧ ∃ d : Dist, p.dists[j]? = some d ∧ d.isLink = false := by
  obtain ⟨ops, rfl⟩ := h
  exact PriorModel.exec_wf ops

/-- dimensionality counts exactly the successfully declared free parameters -/
theorem C15_dim (p : Prior) (k : KeyArg) (d : DistArg) :
    dimensionality ({} : Prior) = 0 ∧
    ((add p k d).2 = .ok →
      dimensionality (add p k d).1 = dimensionality p +
        (match d with | .range _ _ => 1 | .isf _ _ => 1 | _ => 0)) ∧
    ((add p k d).2 ≠ .ok → dimensionality (add p k d).1 = dimensionality p) :=
  PriorModel.dim_step p k d

/-- each free parameter is the percent-point function of its own distribution applied to its own unit
    coordinate, in declaration order; the result has one entry per free parameter -/
theorem C15_physical (p : Prior) (u : List Rat) (h : u.length = dimensionality p) :
    unitToPhysical p u = .ok (List.zipWith (fun (ab : Rat × Rat) x => ab.1 + ab.2 * x)
      (p.dists.filterMap (fun d => match d with | .free a b => some (a, b) | _ => none)) u) :=
  PriorModel.physical_spec p u h

/-- a wrong number of coordinates is rejected -/
theorem C15_physical_rejects (p : Prior) (u : List Rat) (h : u.length ≠ dimensionality p) :
    unitToPhysical p u = .error .valueError := by
  unfold unitToPhysical; rw [if_pos (fun e => h e.symm)]

/-- the dictionary has exactly the declared keys, once each, and every key has the value the reference
    interpreter of the declaration list gives it (free ↦ its own coordinate, fixed ↦ its constant,
    link ↦ the value of its target) -/
theorem C15_dict (p : Prior) (hp : Reachable p) (u : List Rat) (h : u.length = dimensionality p)
    (hpos : 0 < u.length) :
    ∃ d, unitToDictionary p u = .ok d ∧ (d.map (·.1)).Perm p.keys ∧
      ∀ k, lookup d k = lookup (Spec.eval (toDecls p.keys p.dists) u []) k := by
  obtain ⟨ops, rfl⟩ := hp
  exact PriorModel.dict_spec ops u h hpos

/-- linked parameters equal their (ultimate, non-link) target -/
theorem C15_link_value (p : Prior) (hp : Reachable p) (u : List Rat) (h : u.length = dimensionality p)
    (d : List (String × Rat)) (hd : unitToDictionary p u = .ok d) (i : Nat) (k t : String)
    (hk : p.keys[i]? = some k) (ht : p.dists[i]? = some (Dist.link t)) :
    lookup d k = lookup d t ∧ (lookup d t).isSome := by
  obtain ⟨ops, rfl⟩ := hp
  exact PriorModel.link_value ops u h d hd i k t hk ht

/-- malformed declarations are rejected with ValueError / TypeError -/
theorem C15_rejects (p : Prior) (d : DistArg) (s : String) :
    (add p .nonStr d).2 = .typeError ∧
    (s ∈ p.keys → (add p (.str s) d).2 = .valueError) ∧
    (autoKey p.keys.length ∈ p.keys → (add p .auto d).2 = .valueError) ∧
    (s ∉ p.keys → (add p (.str s) .other).2 = .typeError) ∧
    (s ∉ p.keys → ∀ t, t ∉ p.keys → (add p (.str s) (.link t)).2 = .valueError) ∧
    (s ∉ p.keys → (add p (.str s) (.link s)).2 = .valueError) :=
  PriorModel.add_rejects p d s

/-- no other exception class ever comes out of a reachable prior (in particular the link-resolution loop
    always terminates within its fuel) -/
theorem C15_no_other_exception (p : Prior) (hp : Reachable p) (k : KeyArg) (d : DistArg) :
    (add p k d).2 ≠ .indexError := by
  obtain ⟨ops, rfl⟩ := hp
  exact PriorModel.add_no_indexError ops k d

/-- shape of the `range` declaration: strictly increasing, endpoints to endpoints -/
theorem C15_uniform (a b : Rat) (h : a < b) :
    (∀ u v : Rat, u < v → a + (b - a) * u < a + (b - a) * v) ∧ a + (b - a) * 0 = a ∧ a + (b - a) * 1 = b :=
  PriorModel.range_shape a b h

/-! ### non-vacuity: a concrete reachable prior with free, fixed and chained links -/
def PriorModel.demoOps : List (KeyArg × DistArg) :=
  [(.str "a", .range (-1) 1), (.str "f", .number (1/2)), (.str "b", .link "a"), (.str "c", .link "b"),
   (.auto, .isf 3 2), (.str "c", .number 0), (.str "z", .link "z"), (.nonStr, .number 1)]
example : exec {} demoOps =
    { keys := ["a", "f", "b", "c", "x_4"], dists := [.free (-1) 2, .fixed (1/2), .link "a", .link "a", .free 3 2] } := by
  decide +kernel
example : unitToDictionary (exec {} demoOps) [1/4, 1/2] =
    .ok [("a", -1/2), ("f", 1/2), ("x_4", 4), ("b", -1/2), ("c", -1/2)] := by decide +kernel

/-! ### the pinned-commit code violates the property (kept as witnesses; see known_findings.json D3) -/
theorem C15_legacy_not_atomic :
    addLegacy {} (.str "a") .other = ({ keys := ["a"], dists := [] }, .typeError) := by decide +kernel
theorem C15_legacy_autokey_collision :
    (execLegacy {} [(.str "x_1", .range 0 1), (.auto, .range 0 1)]).keys = ["x_1", "x_1"] := by decide +kernel
theorem C15_legacy_indexError : (addLegacy {} .auto (.link "x_0")).2 = .indexError := by decide +kernel

end NautilusVerif
