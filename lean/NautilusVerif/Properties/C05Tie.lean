/-
  C05 — tie theorems over the persistence tables of `Sampler` (regenerated from `write`, `write_shell_update`,
  the resume block of `__init__` and `run` on every run, `Generated/C05.lean`).  Finite tables: `decide` is the proof.
-/
import NautilusVerif.Generated.C05
namespace NautilusVerif
open Gen.C05

/-- key under which a sampler attribute is persisted -/
def C05.keyOf (a : String) : String := ((attrKey.find? (fun kv => kv.1 == a)).map (·.2)).getD a

/-- everything the resume path loads, and everything the incremental update overwrites, is stored by a full write -/
theorem C05_keys_subset : (∀ k ∈ resumeKeys, k ∈ writeKeys) ∧ (∀ k ∈ updateKeys, k ∈ writeKeys) := by decide

/-- **every field a batch (or a switch of `discard_exploration`) changes is covered by the incremental update**;
    `blobs_dtype` is not stored, it is re-derived from the stored blobs on resume -/
theorem C05_update_covers_batch : ∀ a ∈ batchMutated, a = "blobs_dtype" ∨ C05.keyOf a ∈ updateKeys := by decide

/-- every field that `run()` can change at all is restored by the resume path -/
theorem C05_resume_covers_run : ∀ a ∈ runMutated, a ∈ resumedAttrs := by decide

/-- every field that `run()` can change at all (end of exploration included) is stored by a full write -/
theorem C05_write_covers_run : ∀ a ∈ runMutated, a = "blobs_dtype" ∨ C05.keyOf a ∈ writeKeys := by decide

/-- every field that a bound insertion changes is stored by the full write that follows it -/
theorem C05_write_covers_bound : ∀ a ∈ boundMutated, C05.keyOf a ∈ writeKeys := by decide

/-- where `run()` writes: a full write follows every bound insertion and the end of exploration, a shell update
    follows every batch; bounds are only inserted, and exploration only ended, under `not self.explored`;
    the loop guard and both copies of the success expression are the expected ones -/
theorem C05_run_skeleton :
    runSkeleton =
      [["guard", "self.n_like < n_like_max and time() - t_start < timeout and (not success)"],
       ["add_bound", "not self.explored && (self.n_update_iter >= self.n_update or self.n_like_iter >= self.n_like_new_bound) and np.sum(self.shell_n) > self.n_live", "full-write-follows"],
       ["add_samples", "not self.explored", "shell-update-follows"],
       ["end_exploration", "not self.explored && self.f_live <= f_live", "full-write-follows"],
       ["add_samples", "not (not self.explored) && np.any(self.shell_n < n_shell)", "shell-update-follows"],
       ["add_samples", "not (not self.explored) && not (np.any(self.shell_n < n_shell)) && self.n_eff < n_eff", "shell-update-follows"],
       ["success", "self.explored and np.all(self.shell_n >= n_shell) and (self.n_eff >= n_eff) ||| self.explored and np.all(self.shell_n >= n_shell) and (self.n_eff >= n_eff)"]] := by
  rfl

/-- the resume path reads every stored bound through the class named by its stored tag ... -/
theorem C05_tie_boundReaders :
    resumeBoundReaders =
      [["UnitCube", "bound_{}", "group_i.attrs['type'] == 'UnitCube'"],
       ["NautilusBound", "bound_{}", "not (group_i.attrs['type'] == 'UnitCube')"]] := by rfl

end NautilusVerif
