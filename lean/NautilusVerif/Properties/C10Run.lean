/-
  C10 — the loop of `run()`: budget and return value.   STATEMENTS OF RECORD (loop level).

  `Model/Loop.lean`: `run()` iterates one batch while `n_like < n_like_max ∧ ¬success` (and no timeout); the guard and
  both copies of the success expression are tied to the source by `C05_run_skeleton` (`Properties/C05Tie.lean`).
  `cost` is `n_like`; by `C10_oneBatch` an iteration adds exactly `n_batch` to it.
-/
import NautilusVerif.Lemmas.LoopLemmas
namespace NautilusVerif
open Loop

variable {σ : Type} (step : σ → σ) (cost : σ → Nat) (done : σ → Bool)

/-- `run()` starts no new batch once the total has reached `n_like_max` -/
theorem C10_noBatchBeyond (m f : Nat) (s : σ) (h : m ≤ cost s) : runFuel step cost done m f s = s :=
  run_no_batch step cost done m f s h

/-- ... so the total never exceeds the limit by a full batch (`b` = what one iteration adds = `n_batch`) -/
theorem C10_budget (m f b : Nat) (s : σ) (hb : ∀ s, cost (step s) ≤ cost s + b) (hs : cost s < m + b) :
    cost (runFuel step cost done m f s) < m + b := run_budget step cost done m f b s hb hs

/-- `run()` returns `done` of the state it stops in: when it stops it has succeeded or used up its budget, and a
    successful state is never left -/
theorem C10_success (m f : Nat) (s : σ) (h : Stops step cost done m f s) :
    (done (runFuel step cost done m f s) = true ∨ m ≤ cost (runFuel step cost done m f s)) ∧
    (done s = true → runFuel step cost done m f s = s) :=
  ⟨run_result step cost done m f s h, fun hd => run_done step cost done m f s hd⟩

end NautilusVerif
