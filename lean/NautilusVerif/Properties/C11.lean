/-
  C11 — same seed, same result, however the likelihood is evaluated or observed.   STATEMENTS OF RECORD (model part).
  (partial: the OS scheduler and `multiprocessing` itself are not modelled — `C11_schedule` is about an abstract pool
  that stores results by task index, which is the documented contract of `Pool.map`; float determinism of identical
  numpy calls is trusted.  The effect tables are in `C11Tie.lean`.)
-/
import NautilusVerif.Lemmas.PoolLemmas
import NautilusVerif.Lemmas.CoreCounts
namespace NautilusVerif
open Pool

/-- for every completion schedule of the workers, the gathered results are `map f` of the inputs, in input order -/
theorem C11_schedule {α β : Type} (f : α → β) (xs : List α) (schedule : List Nat)
    (h : schedule.Perm (List.range xs.length)) :
    gather xs.length (arrivals f xs schedule) = xs.map (fun x => some (f x)) := gather_eq_map f xs schedule h

/-- scalar, vectorised and pooled evaluation are the same function of the batch when the likelihood is a function of
    its argument: all three are `map` (the pooled one by `C11_schedule`) -/
theorem C11_modes {α β : Type} (f : α → β) (xs : List α) :
    (xs.map f) = (List.range xs.length).filterMap (fun i => (xs[i]?).map f) := map_eq_index_map f xs

/-- observing the model between operations changes nothing: an observation is the identity on the state (this is
    what the generated effect tables say about the real accessors) -/
theorem C11_observe_pure (env : Core.Env) (s : Core.St) (ops₁ ops₂ : List Core.Op) :
    Core.exec env (Core.exec env s ops₁) ops₂ = Core.exec env s (ops₁ ++ ops₂) := by
  unfold Core.exec; rw [List.foldl_append]

end NautilusVerif
