/-
  C08 / C07 — the two-level proposal cache of `NautilusBound` (outer `Union`, network rejection, pool merge, hand-out).
  STATEMENTS OF RECORD.

  `Model/SampleBuf.lean` transcribes `Union.sample`, `NautilusBound.sample` (serial loop and pool branch with
  `_reset_and_sample` and the merge), `reset`.  Everything random or numeric is an oracle supplied with the operation and
  universally quantified here.  The reported volume of a level is `V · (1 − n_reject / n_sample)` (`C08_tie_formulas`); these
  theorems say that the two counters of *each* level are exact — whatever sequence of calls, serial or through a pool of any
  size, with or without `return_points` — so that this fraction is (points that reached the cache) / (proposals drawn).
  Tie: `harness/bufrec.py` records real bounds (instance-level hooks that travel into pool workers) and the driver replays
  the same calls through the model (`harness/c08.py`, stage "buf").
-/
import NautilusVerif.Lemmas.SampleBufLemmas
namespace NautilusVerif
open SampleBuf

/-- after any sequence of `reset` / `sample` calls: at both levels rejections never exceed proposals, proposals come in
    whole rounds of 1000, `n_sample − n_reject` is exactly the number of points that were cached (still cached, handed out,
    or left in a worker copy), and every proposal of the network level is a point the outer union handed out -/
theorem C08_buf_exact : ∀ (ops : List Op) (b b' : NB), OK b → run b ops = some b' → OK b'
  | [], b, b', h, hr => by simp only [run, Option.some.injEq] at hr; subst hr; exact h
  | o :: os, b, b', h, hr => by
    simp only [run] at hr
    split at hr
    · exact absurd hr (by simp)
    rename_i b1 pts hs
    refine C08_buf_exact os b1 b' ?_ hr
    cases o with
    | reset => simp only [step, Option.some.injEq, Prod.mk.injEq] at hs; obtain ⟨rfl, _⟩ := hs; exact ok_init
    | sample n r f => exact (sample_spec b b1 n r f pts h hs).1

theorem C08_buf_exact_init (ops : List Op) (b' : NB) (hr : run {} ops = some b') : OK b' :=
  C08_buf_exact ops {} b' ok_init hr

/-- the merge of the pool branch: worker counters go to the level they belong to (adding the workers' *own* counters to the
    outer level — or the outer ones to the inner level — breaks `Linked`, hence the volume) -/
theorem C08_buf_merge (b w : NB) (hb : OK b) (hw : OK w) (hwo : w.inner.out = []) : OK (merge b w) := merge_ok b w hb hw hwo

/-- `sample(n)` hands out exactly `n` points — serially or through a pool of any size (the pool branch does not loop: that
    it always produces enough is `perJob_enough`) — and they are the first `n` of the cache; with `return_points=False`
    nothing leaves the cache and at least `n` points are cached afterwards -/
theorem C08_buf_handout (b b' : NB) (n : Nat) (ret : Bool) (f : Fill) (pts : List Pt) (h : OK b)
    (hs : sample b n ret f = some (b', pts)) :
    (ret = true → pts.length = n ∧ b'.inner.out = b.inner.out ++ pts) ∧
    (ret = false → pts = [] ∧ n ≤ b'.inner.buf.length ∧ b'.inner.out = b.inner.out) := (sample_spec b b' n ret f pts h hs).2

/-- the serial loop is first-in first-out: what has been handed out followed by what is cached is the stream of accepted
    points in the order the rounds produced them — no proposal is handed out twice, none is lost or reordered; and every
    accepted point is one the outer union handed out -/
theorem C08_buf_fifo (rs : List Round) (b b' : NB) (n : Nat) (h : OK b) (hs : fillSerial b n rs = some b') :
    b'.inner.out ++ b'.inner.buf = b.inner.out ++ b.inner.buf ++ (rs.map (·.accepted)).flatten := by
  obtain ⟨_, _, h3, h4, _⟩ := fillSerial_spec rs b b' n h hs
  rw [h3, h4, List.append_assoc]

/-- C07: the cache is sound — every point the serial loop adds came out of the outer union in this very call (and, by the
    oracle, passed the networks): nothing enters the cache on any other way -/
theorem C07_buf_sound (rs : List Round) (b b' : NB) (n : Nat) (h : OK b) (hs : fillSerial b n rs = some b') :
    ∃ extra, b'.outer.out = b.outer.out ++ extra ∧ ∀ p ∈ b'.inner.buf, p ∈ b.inner.buf ∨ p ∈ extra :=
  fillSerial_sound rs b b' n h hs

/-- C07: the caller receives the inverse phase shift of the cached points, applied exactly once, and only to what is handed
    out: the cache itself stays in the shifted frame -/
theorem C07_buf_frame (unsh : Pt → Pt) (pts : List Pt) :
    handOut true unsh pts = pts.map unsh ∧ handOut false unsh pts = pts := ⟨rfl, rfl⟩

/-- the acceptance fraction that enters the volume -/
theorem C08_buf_fraction (l : Lvl) (h : LvlOK l) :
    acceptedCount l ≤ l.nSample ∧ acceptedCount l = l.buf.length + l.out.length + l.discarded := accepted_le l h

/-! non-vacuity: a worker merge on small numbers -/
example : OK (merge {} { inner := { buf := [1, 2], nSample := 1000, nReject := 998 },
                         outer := { buf := [9], nSample := 2000, nReject := 999, out := List.range 1000 } }) := by
  refine merge_ok _ _ ok_init ⟨⟨by decide, by decide, by decide⟩, ⟨by decide, by simp, by decide⟩, by simp [Linked], rfl⟩ rfl

end NautilusVerif
