/-
  C02 — log_z, n_eff, eta and weights are exactly the estimators of the stored samples.   STATEMENTS OF RECORD.
  (bookkeeping part; the estimator identities over the reals are in `Properties/C02Est.lean`)
-/
import NautilusVerif.Lemmas.CoreCounts
namespace NautilusVerif
open Core

/-- per-shell bookkeeping stays aligned with the stored arrays after every operation of every run-shaped history,
    whatever the numerics return: the three arrays are aligned, the cached count is the number of visible samples,
    and it never exceeds the number of proposals it is divided by (so a shell volume is never more than its bound's) -/
theorem C02_bookkeeping (env : Env) (nBatch : Nat) (ops : List Op) (hr : RunShaped env (init nBatch) ops) :
    Aligned (exec env (init nBatch) ops) ∧ Counts (exec env (init nBatch) ops) ∧
    ExploredShape (exec env (init nBatch) ops) := counts_exec env nBatch ops hr

theorem C02_lengths (env : Env) (nBatch : Nat) (ops : List Op) :
    ∀ sh ∈ (exec env (init nBatch) ops).shells, sh.ls.length = sh.pts.length ∧ sh.bs.length = sh.pts.length :=
  lengths_exec env nBatch ops

end NautilusVerif
