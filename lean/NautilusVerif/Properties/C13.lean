/-
  C13 — a union of ellipsoids stays well-formed under any split / trim / sample order.   STATEMENTS OF RECORD.

  Model: `Model/UnionRec.lean` (`split`, `trim`, `sample` are the repaired code; `splitLegacy`, `trimLegacy` the
  pinned code with the witnesses below).  All numerics (mixture fit, volumes, overlap test, densities) are
  oracles and every theorem holds for *every* oracle sequence.  Tie: `harness/c13.py` replays exhaustive
  operation words on real `Union` objects with the observed oracle values and compares all records after each op.
-/
import NautilusVerif.Model.UnionRec
import NautilusVerif.Lemmas.UnionLemmas
namespace NautilusVerif
open UnionRec

/-- one consistent record per ellipsoid (bound, points, volume, may-split flag) after any operation sequence
    from a freshly computed union, whatever the numerics return -/
theorem C13_records (nDim nMin n : Nat) (ops : List Op) : InvU (exec (compute nDim nMin n) ops) :=
  inv_exec _ ops (inv_compute nDim nMin n)

theorem C13_records_step (u : U) (op : Op) (h : InvU u) : InvU (step u op).1 := inv_step u op h

/-- the points of all ellipsoids are exactly the construction points not yet trimmed away -/
theorem C13_points (u : U) (a : Bool) (os : List SplitOracle) (o : TrimOracle) (n : Nat) (rej : List Nat) :
    (split u a os).1.pts.flatten.Perm u.pts.flatten ∧
    ((trim u o).2 = .ret true → (trim u o).1.pts = u.pts.eraseIdx o.index ∧ o.index < u.pts.length) ∧
    ((trim u o).2 ≠ .ret true → (trim u o).1.pts = u.pts) ∧
    (sample u n rej).1.pts = u.pts :=
  ⟨split_points u a os, (trim_points u o).1, (trim_points u o).2, (sample_points u n rej).1⟩

/-- every ellipsoid produced by a split holds at least the configured minimum number of points -/
theorem C13_minPoints (u : U) (a : Bool) (os : List SplitOracle) (h : (split u a os).2 = .ret true) :
    ∃ (i : Nat) (P A B : List Pt), u.pts[i]? = some P ∧
      (split u a os).1.pts = u.pts.eraseIdx i ++ [A, B] ∧
      u.nMin ≤ A.length ∧ u.nMin ≤ B.length ∧ (A ++ B).Perm P := split_min u a os h

/-- a successful split never increases the summed ellipsoid volume -/
theorem C13_volume (u : U) (hu : InvU u) (a : Bool) (os : List SplitOracle) (vol : List Pt → Rat)
    (hc : ∀ o ∈ os, o.grows = false → ∀ P, u.pts[o.index]? = some P →
        vol (clusters u o).1 + vol (clusters u o).2 ≤ vol P)
    (h : (split u a os).2 = .ret true) :
    ((split u a os).1.logv.map vol).sum ≤ (u.logv.map vol).sum := split_volume u hu a os vol hc h

/-- a refused operation leaves ellipsoids and points unchanged -/
theorem C13_refused (u : U) (op : Op) (h : (step u op).2 = .ret false) :
    (step u op).1.bounds = u.bounds ∧ (step u op).1.pts = u.pts ∧ (step u op).1.logv = u.logv ∧
    (step u op).1.block.length = u.block.length ∧
    ∀ i : Nat, u.block[i]? = some true → (step u op).1.block[i]? = some true := refused u op h

/-- no operation raises -/
theorem C13_noRaise (nDim nMin n : Nat) (ops : List Op) (op : Op) (w : String) :
    (step (exec (compute nDim nMin n) ops) op).2 ≠ .raised w :=
  no_raise _ (C13_records nDim nMin n ops) op w

/-! ### non-vacuity: a successful split, a blocked one, a trim and a sample on a concrete union -/
def UnionRec.demoSplit : SplitOracle :=
  { index := 0, labels := [false, false, false, true, true, true, true, false], rank0 := [0, 1, 2, 7, 3, 4, 5, 6],
    rank1 := [6, 5, 4, 3, 7, 2, 1, 0], overlap := false, grows := false }
example : (split (compute 1 2 8) true [demoSplit]).2 = .ret true ∧
    (split (compute 1 2 8) true [demoSplit]).1.pts = [[0, 1, 2, 7], [3, 4, 5, 6]] := by decide +kernel
example : (exec (compute 1 2 8) [.split true [demoSplit], .trim ⟨1, true⟩, .sample 5 [990, 3]]).pts = [[0, 1, 2, 7]] := by
  decide +kernel

/-! ### the pinned code violates the property (witnesses; see known_findings.json D2, D6) -/

/-- D2: `split, split, trim, split` — `trim` leaves `block` one entry too long and the next `split` raises -/
theorem C13_legacy_trim_then_split_raises :
    let u0 := compute 1 2 12
    let s1 : SplitOracle := { index := 0, labels := [false,false,false,false,false,false,true,true,true,true,true,true],
                              rank0 := [], rank1 := [], overlap := false, grows := false }
    let u1 := (splitLegacy u0 true [s1]).1
    let s2 : SplitOracle := { index := 0, labels := [false,false,false,true,true,true], rank0 := [], rank1 := [],
                              overlap := false, grows := false }
    let u2 := (splitLegacy u1 true [s2]).1
    let u3 := (trimLegacy u2 ⟨0, true⟩).1
    (splitLegacy u3 true [s2]).2 = .raised "ValueError" := by decide +kernel

/-- D6: with `nMin = 6` and 12 points, a 5/7 mixture assignment whose top-up takes 6 high-scoring points that
    were all in the larger cluster leaves that cluster with a single point (`< nMin`) -/
theorem C13_legacy_split_below_minimum :
    let o : SplitOracle := { index := 0, labels := [true,true,true,true,true,false,false,false,false,false,false,false],
                             rank0 := [], rank1 := [5,6,7,8,9,10,0,1,2,3,4,11], overlap := false, grows := false }
    (splitLegacy (compute 0 6 12) true [o]).1.pts = [[11], [0,1,2,3,4,5,6,7,8,9,10]] := by decide +kernel

end NautilusVerif
