/-
  C11 — tie theorems over the effect tables regenerated from the source on every run (`Generated/C11.lean`):
  finite tables, `decide` is the proof.
-/
import NautilusVerif.Generated.C11
namespace NautilusVerif
open Gen.C11

/-- every read-only accessor (evidence, effective sample size, efficiency, live fraction, live volume, the weighted
    posterior, shell-bound occupation, shell association, status line) assigns no attribute of the sampler and draws
    no random number, transitively through every method it calls -/
theorem C11_accessors_pure :
    (accessorEffects.map (·.1) =
      ["log_z", "n_eff", "eta", "f_live", "log_v_live", "evidence", "effective_sample_size",
       "asymptotic_sampling_efficiency", "posterior", "shell_bound_occupation", "shell_association", "print_status"]) ∧
    ∀ e ∈ accessorEffects, e.2.1.filter (· ≠ "rng") = [] ∧ e.2.2 = [] := by decide

/-- writing a checkpoint or a status line changes no sampler state and consumes no random numbers -/
theorem C11_fileSilent : ∀ e ∈ writerEffects, e.2.1 = [] ∧ e.2.2 = [] := by decide

/-- the methods of the bounds that accessors and writers reach (`contains`, `transform`, `write`, `update`, `n_ell`,
    `n_net`, closed-form `log_v`) are effect-free as well -/
theorem C11_bound_methods_pure : ∀ e ∈ boundMethodEffects, e.2.1 = [] ∧ e.2.2 = [] := by decide

/-- `NautilusPool.map` is an *ordered* map on every back-end, likelihood results are consumed in proposal order, and the
    single generator is created from the seed -/
theorem C11_ordered_map :
    poolMapReturns = ["list(self.pool.gather(self.pool.map(func, iterable)))", "list(self.pool.map(func, iterable))"] ∧
    evaluateAssignments = ["args = list(map(transform, np.copy(points)))", "args = transform(np.copy(points))",
      "result = self.likelihood(args)", "result = list(zip(*result))",
      "result = list(self.pool_l.map(self.likelihood, args))", "result = list(map(self.likelihood, args))"] ∧
    rngCreation = ["self.rng = np.random.default_rng(seed)"] := ⟨rfl, rfl, rfl⟩

end NautilusVerif
