/-
  C10 — likelihood calls: exact count, one batch per step, budget and support kept.   STATEMENTS OF RECORD.
  (operation level; the loop of `run()` — guard, budget, return value — is in `Properties/C10Run.lean`)
-/
import NautilusVerif.Lemmas.CoreCounts
import NautilusVerif.Lemmas.CoreInv01
namespace NautilusVerif
open Core

/-- a step that succeeds evaluates exactly one batch and counts exactly that -/
theorem C10_oneBatch (env : Env) (s : St) (ha : Aligned s) (sh : Option Nat) (rounds : List Round)
    (idxT : List Nat) (hok : (addSamples env s sh rounds idxT).2 = .ok) :
    ∃ evald : List Pt, evald.length = s.nBatch ∧
      (addSamples env s sh rounds idxT).1.nLike = s.nLike + s.nBatch ∧
      (∀ p ∈ evald, ∃ r ∈ rounds, p ∈ r.props) := by
  obtain ⟨evald, _, _, _, h1, h2, h3, _⟩ := addSamples_batch env s ha sh rounds idxT hok
  exact ⟨evald, h1, h2, h3⟩

/-- nothing else moves the counter -/
theorem C10_counterOnlyThere (env : Env) (s : St) (op : Op)
    (h : ∀ sh rs it, op = .addSamples sh rs it → (step env s op).2 ≠ .ok) : (step env s op).1.nLike = s.nLike :=
  nLike_other env s op h

/-- every evaluated point lies in the unit hypercube (given that proposals do: C07 / C16) -/
theorem C10_support (env : Env) (s : St) (ha : Aligned s) (sh : Option Nat) (rounds : List Round) (idxT : List Nat)
    (hop : OpOK env s (.addSamples sh rounds idxT)) (hok : (addSamples env s sh rounds idxT).2 = .ok) :
    ∃ evald : List Pt, evald.length = s.nBatch ∧ ∀ p ∈ evald, env.inCube p = true := by
  obtain ⟨evald, h1, _, h3⟩ := C10_oneBatch env s ha sh rounds idxT hok
  refine ⟨evald, h1, fun p hp => ?_⟩
  obtain ⟨r, hr, hpr⟩ := h3 p hp
  exact (hop.1 r hr p hpr).1

end NautilusVerif
