/-
  C08 — proposals are uniform over the bound and reported volumes are calibrated.   STATEMENTS OF RECORD.
  (partial: the theorems are about the sampling *scheme* on a finite uniform space and about Lebesgue measure; that the
  float / PRNG implementation realises the scheme is validated statistically by `harness/c08.py`, not proved)
-/
import NautilusVerif.Lemmas.ProbLemmas
import NautilusVerif.Lemmas.VolumeReal
namespace NautilusVerif
open Prob Finset MeasureTheory

variable {X : Type} [DecidableEq X] [Fintype X] {k : ℕ}

/-- every cell of the region `contains()` accepts is returned with the same probability `1 / Σ|E j|`: overlapping
    ellipsoids are not over-represented -/
theorem C08_uniform (E : Fin k → Finset X) (C : Finset X) (x : X) (hx : x ∈ region E C) :
    outProb E C x = 1 / totalVol E := outProb_uniform E C x hx

theorem C08_zero (E : Fin k → Finset X) (C : Finset X) (x : X) (hx : x ∉ region E C) : outProb E C x = 0 :=
  outProb_zero E C x hx

/-- the reported volume, (sum of member volumes) × (expected acceptance fraction), is the measure of the region -/
theorem C08_volume (E : Fin k → Finset X) (C : Finset X) (hV : 0 < totalVol E) :
    totalVol E * ∑ x, outProb E C x = ((region E C).card : ℚ) := volume_calibrated E C hV

/-- what the 1/multiplicity correction repairs: without it a cell is proposed `mult` times too often -/
theorem C08_uncorrected_overcounts (E : Fin k → Finset X) (x : X) (hV : 0 < totalVol E) :
    ∑ i, ((E i).card : ℚ) / totalVol E * (if x ∈ E i then 1 / ((E i).card : ℚ) else 0) = (mult E x : ℚ) / totalVol E :=
  uncorrected_overcounts E x hV

/-- network rejection of uniform outer proposals: uniform on the intersection, acceptance = volume ratio -/
theorem C08_nested (A S : Finset X) (x : X) (hA : 0 < A.card) :
    (if x ∈ A then (1 : ℚ) / A.card else 0) * (if x ∈ S then 1 else 0) = (if x ∈ A ∩ S then (1 : ℚ) / A.card else 0) ∧
    ∑ y ∈ A, (1 : ℚ) / A.card * (if y ∈ S then 1 else 0) = ((A ∩ S).card : ℚ) / A.card := nested_rejection A S x hA

theorem C08_poolMerge (n r : List ℕ) (h : n.length = r.length) :
    (1 : ℚ) - ((r.sum : ℕ) : ℚ) / ((n.sum : ℕ) : ℚ) = (((n.sum : ℕ) : ℚ) - ((r.sum : ℕ) : ℚ)) / ((n.sum : ℕ) : ℚ) ∨ n.sum = 0 :=
  pool_merge n r h

/-- the acceptance test `u > 1 - 1/m` has probability `1/m` under a uniform draw -/
theorem C08_accept (m : ℕ) (hm : 1 ≤ m) :
    volume {u : ℝ | 0 ≤ u ∧ u < 1 ∧ u > 1 - 1 / (m : ℝ)} = ENNReal.ofReal (1 / (m : ℝ)) := VolumeReal.accept_measure m hm

/-- the radius `u^(1/d)` has the law of the radius of a uniform point of the `d`-ball -/
theorem C08_radial (d : ℕ) (hd : 0 < d) (t : ℝ) (ht0 : 0 ≤ t) (ht1 : t ≤ 1) :
    volume {u : ℝ | 0 ≤ u ∧ u < 1 ∧ u ^ ((1 : ℝ) / d) ≤ t} = ENNReal.ofReal (t ^ d) := VolumeReal.radial_law d hd t ht0 ht1

/-- the closed-form ellipsoid log-volume is `log(|det B| · vol(unit d-ball))` -/
theorem C08_ellVolume (logdetB : ℝ) (d : ℕ) :
    Real.exp (logdetB + (d : ℝ) * Real.log 2 + (d : ℝ) * Real.log (Real.Gamma (3 / 2)) -
        Real.log (Real.Gamma ((d : ℝ) / 2 + 1))) =
      Real.exp logdetB * (Real.pi ^ ((d : ℝ) / 2) / Real.Gamma ((d : ℝ) / 2 + 1)) := VolumeReal.ellipsoid_logv_formula logdetB d

theorem C08_unitBall (d : ℕ) :
    volume (Metric.ball (0 : EuclideanSpace ℝ (Fin d)) 1) =
      ENNReal.ofReal (Real.pi ^ ((d : ℝ) / 2) / Real.Gamma ((d : ℝ) / 2 + 1)) := VolumeReal.unit_ball_volume d

/-! non-vacuity: two overlapping members on six cells, one member cell outside the cube -/
def C08Demo.E : Fin 2 → Finset (Fin 6) := fun i => if i = 0 then {0, 1, 2} else {2, 3, 4}
def C08Demo.C : Finset (Fin 6) := {0, 1, 2, 3}
example : (2 : Fin 6) ∈ region C08Demo.E C08Demo.C ∧ (4 : Fin 6) ∉ region C08Demo.E C08Demo.C ∧
    mult C08Demo.E 2 = 2 := by decide
example : outProb C08Demo.E C08Demo.C 2 = 1 / totalVol C08Demo.E ∧ outProb C08Demo.E C08Demo.C 4 = 0 :=
  ⟨C08_uniform _ _ _ (by decide), C08_zero _ _ _ (by decide)⟩

end NautilusVerif
