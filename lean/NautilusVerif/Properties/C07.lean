/-
  C07 — bounds are sound: samples lie inside, construction points are enclosed.   STATEMENTS OF RECORD.

  `Model/BoundAlg.lean`: bound classes as expressions over leaves; `Sampled` is the set of points some execution of
  `sample` (serial or pooled) can return.  Leaf laws over the reals are in `Lemmas/EllipsoidReal.lean`.
  Exact arithmetic: a point within a few ulp of an ellipsoid surface, a network threshold or the wrap position may
  be classified differently by two float evaluations; that is covered by no theorem (see DESIGN §5).
-/
import NautilusVerif.Lemmas.BoundLemmas
import NautilusVerif.Lemmas.EllipsoidReal
namespace NautilusVerif
open BoundAlg

/-- **every point returned by `sample()` satisfies `contains()` of the same bound**, for every bound expression
    (cube, ellipsoid, mixture, union, nautilus bound with or without shift; arbitrary nesting), given the leaf laws
    (an ellipsoid's samples lie in it: `C07_ell_sample`) and that the shift is undone by its inverse (C16) -/
theorem C07_sound (L : Leaves) (hinv : ∀ q, L.sh (L.unsh q) = q) (b : Bd) (p : Pt) (h : Sampled L b p) :
    contains L b p = true := sampled_contains L hinv b p h

/-- a union restricted to the unit cube returns only points of the cube -/
theorem C07_unit (L : Leaves) (ms : List Bd) (p : Pt) (h : Sampled L (.union ms true) p) : L.cube p = true :=
  sampled_union_unit L ms p h

theorem C07_unit_nautilus (L : Leaves) (hcube : ∀ q, L.cube q = true → L.cube (L.unsh q) = true) (s : Bool)
    (ms ns : List Bd) (p : Pt) (h : Sampled L (.nautilus s (.union ms true) ns) p) : L.cube p = true :=
  sampled_nautilus_unit L hcube s ms ns p h

/-- a neural or nautilus bound never contains a point outside its outer ellipsoidal bound -/
theorem C07_inner_outer (L : Leaves) (o : Nat) (n : Option Nat) (s : Bool) (ob : Bd) (ns : List Bd) (p : Pt) :
    (contains L (.neural o n) p = true → L.ell o p = true) ∧
    (contains L (.nautilus s ob ns) p = true → contains L ob (if s then L.sh p else p) = true) :=
  inner_outer L o n s ob ns p

/-- construction points stay contained however they are regrouped into members by splits (with C13_points: a split
    only regroups the points; with `C07_ell_encloses`: each member contains the points it was computed from) -/
theorem C07_union_encloses (L : Leaves) (mp : List (Bd × List Pt)) (unit : Bool)
    (h : ∀ bp ∈ mp, ∀ p ∈ bp.2, contains L bp.1 p = true)
    (hc : unit = true → ∀ bp ∈ mp, ∀ p ∈ bp.2, L.cube p = true) :
    ∀ bp ∈ mp, ∀ p ∈ bp.2, contains L (.union (mp.map (·.1)) unit) p = true := union_encloses L mp unit h hc

/-- `contains` of a union is any-of -/
theorem C07_any_of (L : Leaves) (ms : List Bd) (p : Pt) :
    containsAny L ms p = true ↔ ∃ b ∈ ms, contains L b p = true := containsAny_iff L ms p

/-! ### leaf laws over ℝ -/

/-- ellipsoid sampling draws a radius `u^(1/d) < 1` along a unit direction: strictly inside the unit ball of the frame -/
theorem C07_ell_sample {d : ℕ} (hd : 0 < d) (z : EuclideanSpace ℝ (Fin d)) (hz : z ≠ 0) (u : ℝ)
    (hu0 : 0 ≤ u) (hu1 : u < 1) : ‖(u ^ ((1 : ℝ) / d)) • (‖z‖⁻¹ • z)‖ ^ 2 < 1 :=
  EllipsoidReal.sample_in_unit_ball hd z hz u hu0 hu1

/-- `contains(transform(y, inverse=True))` tests `‖y‖² < 1`: the frame map is undone exactly -/
theorem C07_frame_roundtrip {d : ℕ} (B Binv : Matrix (Fin d) (Fin d) ℝ) (h : Binv * B = 1) (c y : Fin d → ℝ) :
    Binv.mulVec ((B.mulVec y + c) - c) = y := EllipsoidReal.frame_roundtrip B Binv h c y

/-- the MVEE is rescaled so that the farthest construction point is on the surface and then enlarged by `enl > 1`:
    every construction point is strictly inside -/
theorem C07_ell_encloses (q scale enl : ℝ) (hq0 : 0 ≤ q) (hs : 0 < scale) (hq : q ≤ scale) (he : 1 < enl) :
    q / scale / enl ^ 2 < 1 := EllipsoidReal.enclosed_after_enlarge q scale enl hq0 hs hq he

theorem C07_quadform_div {d : ℕ} (A : Matrix (Fin d) (Fin d) ℝ) (v : Fin d → ℝ) (k : ℝ) :
    v ⬝ᵥ (Matrix.mulVec (Matrix.of (fun i j => A i j / k)) v) = (v ⬝ᵥ A.mulVec v) / k :=
  EllipsoidReal.quadform_div A v k

/-! ### non-vacuity -/
namespace C07Demo
def L : Leaves := { cube := fun p => p != 9, ell := fun e p => (e == 0 && p < 3) || (e == 1 && (p == 2 || p == 4)),
                    mixCube := fun _ _ => true, net := fun _ p => p != 1, sh := fun p => p, unsh := fun p => p }
def b : Bd := .nautilus false (.union [.ell 0, .mix 1 true true] true) [.neural 0 (some 0)]
example : (List.range 6).map (contains L b) = [true, false, true, false, false, false] := by decide
example : Sampled L b 2 := by
  have h : Sampled L (.union [.ell 0, .mix 1 true true] true) 2 :=
    .union _ _ _ (.there _ _ _ (.here _ _ _ (.mix 1 true true 2 (fun _ => rfl) (fun _ => rfl)))) (fun _ => rfl)
  exact Sampled.nautilus false _ _ 2 h (Or.inr (by decide))
end C07Demo

end NautilusVerif
