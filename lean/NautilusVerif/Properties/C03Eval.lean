/-
  C03 / C10 / C11 — `evaluate_likelihood`.   STATEMENTS OF RECORD.

  `Model/Eval.lean` transcribes the method (statement list tied by `Core_tie_evaluateLikelihood`): the prior transform is
  applied to a copy of the batch, the likelihood is evaluated by `map`, by one vectorised call or through an ordered pool,
  results are split into likelihoods and blobs, the counter grows by the number of results.
-/
import NautilusVerif.Lemmas.EvalLemmas
namespace NautilusVerif
open Eval

/-- whatever the evaluation mode — scalar, vectorised (for a likelihood that acts row by row), a pool whose workers finish in
    *any* order — the results are, in proposal order, the likelihood (and blob) of the transformed row; the rows handed in are
    not altered even by a prior that writes into its argument; `n_like` grows by exactly the number of rows -/
theorem C03_eval_modes {P A R : Type} (mode : Mode) (prior : P → A × P) (like : A → R) (likeVec : List A → List R)
    (points : List P) (hvec : ∀ as, likeVec as = as.map like)
    (hsched : ∀ s, mode = .pool s → s.Perm (List.range points.length)) :
    evaluate mode prior like likeVec points = (points.map (fun p => some (like (prior p).1)), points, points.length) :=
  evaluate_spec mode prior like likeVec points hvec hsched

/-- two modes never differ (C11: scalar versus vectorised, size of the likelihood pool, worker scheduling) -/
theorem C11_eval_mode_independent {P A R : Type} (m₁ m₂ : Mode) (prior : P → A × P) (like : A → R) (likeVec : List A → List R)
    (points : List P) (hvec : ∀ as, likeVec as = as.map like)
    (h₁ : ∀ s, m₁ = .pool s → s.Perm (List.range points.length))
    (h₂ : ∀ s, m₂ = .pool s → s.Perm (List.range points.length)) :
    evaluate m₁ prior like likeVec points = evaluate m₂ prior like likeVec points := by
  rw [evaluate_spec m₁ prior like likeVec points hvec h₁, evaluate_spec m₂ prior like likeVec points hvec h₂]

/-- likelihoods and blobs split from the same result list stay aligned -/
theorem C03_split_aligned {L B : Type} (res : List (L × B)) : (split res).1.zip (split res).2 = res := split_aligned res

/-- what the copy is for: without it a prior that modifies its argument in place changes the stored rows
    (prior: double the coordinate in place and return it) -/
theorem C03_nocopy_alters_rows :
    (evaluateNoCopy (fun p : Nat => (2 * p, 2 * p)) (fun a => a + 1) [1, 2, 3]).2.1 ≠ [1, 2, 3] ∧
    (evaluate .scalar (fun p : Nat => (2 * p, 2 * p)) (fun a => a + 1) (fun as => as.map (· + 1)) [1, 2, 3]).2.1 = [1, 2, 3] := by
  decide

/-- non-vacuity: a pool of three tasks finishing in the order 2, 0, 1 -/
example : (evaluate (.pool [2, 0, 1]) (fun p : Nat => (p + 10, p)) (fun a => a * a) (fun as => as.map (fun a => a * a)) [1, 2, 3]).1 =
    [some 121, some 144, some 169] := by decide

end NautilusVerif
