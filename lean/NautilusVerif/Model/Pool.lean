/-
  `Pool` — a task pool with an arbitrary completion schedule (import-free).
  `n` tasks are handed out; workers finish them in *any* order; every result is stored under its task index
  (what an ordered `map` does).  The schedule is the list of task indices in completion order.
-/
namespace NautilusVerif
namespace Pool

/-- results arrive as (task index, value) in completion order and are looked up by index -/
def gather {β : Type} (n : Nat) (arrivals : List (Nat × β)) : List (Option β) :=
  (List.range n).map (fun i => (arrivals.find? (fun r => r.1 == i)).map (·.2))

/-- the arrivals produced by evaluating `f` on task `i` when the schedule says so -/
def arrivals {α β : Type} (f : α → β) (xs : List α) (schedule : List Nat) : List (Nat × β) :=
  schedule.filterMap (fun i => (xs[i]?).map (fun x => (i, f x)))

end Pool
end NautilusVerif
