/-
  A sort-based duplicate test (import-free).  The driver evaluates the `NoDup` invariant on real sampler states after
  every operation; `List.Nodup`'s decision procedure is quadratic, which dominates the replay for histories with 10⁴
  stored points.  `nodupFast_iff` (Lemmas/NodupFastLemmas.lean) shows this test decides the same proposition.
-/
namespace NautilusVerif

/-- no two adjacent elements are equal -/
def adjacentDistinct : List Nat → Bool
  | a :: b :: rest => a != b && adjacentDistinct (b :: rest)
  | _ => true

def nodupFast (l : List Nat) : Bool := adjacentDistinct (l.mergeSort (fun a b => decide (a ≤ b)))

end NautilusVerif
