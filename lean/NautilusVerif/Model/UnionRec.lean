/-
  Model of `nautilus/bounds/union.py` (`Union`): the per-ellipsoid records under split / trim / sample.
  Import-free and executable.

  A point is its row index in the construction array.  An ellipsoid is identified by the point set it was
  computed from, its volume by the point set of the ellipsoid it was read off.  The four parallel Python lists
  `bounds`, `points_bounds`, `log_v_all`, `block` are four parallel Lean lists — the property is *about* their
  staying aligned.  Everything numeric is an oracle supplied with the operation (and universally quantified in
  the theorems):
    * `index`   = argmax(where(~block, log_v_all, -inf))
    * `labels`  = argmax(p, axis=1) of the fitted two-component mixture (false = 0, true = 1)
    * `rank0/1` = argsort(-p[:, 0]) / argsort(-p[:, 1])
    * `overlap` = ellipsoids_overlap(others + new)
    * `grows`   = logsumexp(new volumes) > old volume
    * trim: `index` = argmin(log density), `drop` = density test
    * sample: number of rejected proposals per refill of 1000
-/
namespace NautilusVerif
namespace UnionRec

abbrev Pt := Nat

structure U where
  nDim : Nat
  nMin : Nat
  bounds : List (List Pt)
  pts : List (List Pt)
  logv : List (List Pt)
  block : List Bool
  cache : Nat := 0
  nSample : Nat := 0
  nReject : Nat := 0
deriving Repr, DecidableEq

inductive Out
  | ret (b : Bool)
  | raised (what : String)
  | badOracle              -- the supplied oracle values are not ones the numerics could have produced
deriving Repr, DecidableEq

structure SplitOracle where
  index : Nat
  labels : List Bool
  rank0 : List Nat
  rank1 : List Nat
  overlap : Bool
  grows : Bool
deriving Repr, DecidableEq

structure TrimOracle where
  index : Nat
  drop : Bool
deriving Repr, DecidableEq

/-- `Union.compute(points, n_points_min=nMin)` for `n` construction points -/
def compute (nDim nMin n : Nat) : U :=
  let P := List.range n
  { nDim, nMin, bounds := [P], pts := [P], logv := [P], block := [decide (n < 2 * nMin)] }

def countL (labels : List Bool) (v : Bool) : Nat := (labels.filter (· == v)).length

/-- `labels[idxs] = v` -/
def setLabels (labels : List Bool) (idxs : List Nat) (v : Bool) : List Bool :=
  labels.mapIdx (fun i l => if idxs.contains i then v else l)

/-- `points[labels == v]` -/
def select (P : List Pt) (labels : List Bool) (v : Bool) : List Pt :=
  (P.zip labels).filterMap (fun pl => if pl.2 == v then some pl.1 else none)

/-- `self.reset()` -/
def reset (u : U) : U := { u with cache := 0, nSample := 0, nReject := 0 }

def allBlocked (u : U) : Bool := u.block.all id

/-- numpy broadcasting of two 1-d shapes fails unless equal or one of them is 1 -/
def broadcastOk (a b : Nat) : Bool := a == b || a == 1 || b == 1

/-- the two-cluster assignment after the top-up (`labels[argsort(-p[:, label])[:n_points_min]] = label`).
    `minlength2 = false` reproduces `np.bincount(labels)` without `minlength` (pinned code): if no point has
    label 1 the count vector has length one. -/
def topUp (nMin : Nat) (o : SplitOracle) (minlength2 : Bool) : List Bool :=
  let c0 := countL o.labels false
  let c1 := countL o.labels true
  let counts := if c1 == 0 && !minlength2 then [c0] else [c0, c1]
  if counts.all (fun c => decide (nMin ≤ c)) then o.labels
  else
    let small : Bool := decide (c1 < c0) && counts.length == 2     -- np.argmin: first minimum
    setLabels o.labels ((if small then o.rank1 else o.rank0).take nMin) small

/-- one attempt of the repaired `split`.  `none` = recurse after blocking `index`. -/
def splitAttempt (u : U) (allowOverlap : Bool) (o : SplitOracle) : Option (U × Out) :=
  match u.pts[o.index]?, u.block[o.index]? with
  | some P, some false =>
    if o.labels.length ≠ P.length then some (u, .badOracle) else
    let labels := topUp u.nMin o true
    if !(decide (u.nMin ≤ countL labels false) && decide (u.nMin ≤ countL labels true)) then none
    else
      let A := select P labels false
      let B := select P labels true
      if !allowOverlap && o.overlap then some (u, .ret false)
      else if o.grows then none
      else
        let bounds' := u.bounds.eraseIdx o.index ++ [A, B]
        some (reset { u with
          bounds := bounds'
          pts := u.pts.eraseIdx o.index ++ [A, B]
          logv := bounds'
          block := u.block.eraseIdx o.index ++ [decide (A.length < 2 * u.nMin), decide (B.length < 2 * u.nMin)] },
          .ret true)
  | _, _ => some (u, .badOracle)

/-- the repaired `Union.split`; one oracle per (recursive) attempt -/
def split (u : U) (allowOverlap : Bool) : List SplitOracle → U × Out
  | [] => if allBlocked u then (u, .ret false) else (u, .badOracle)
  | o :: os =>
    if allBlocked u then (u, .ret false)
    else if !broadcastOk u.block.length u.logv.length then (u, .raised "ValueError")
    else match splitAttempt u allowOverlap o with
      | some r => r
      | none => split { u with block := u.block.set o.index true } allowOverlap os

/-- the repaired `Union.trim` -/
def trim (u : U) (o : TrimOracle) : U × Out :=
  if u.bounds.length == 1 then (u, .ret false)
  else if !(decide (o.index < u.bounds.length) && decide (o.index < u.pts.length)) then (u, .badOracle)
  else if o.drop then
    let bounds' := u.bounds.eraseIdx o.index
    (reset { u with bounds := bounds', pts := u.pts.eraseIdx o.index, logv := bounds',
                    block := u.block.eraseIdx o.index }, .ret true)
  else (u, .ret false)

/-- `Union.sample(n)`: refill the cache in rounds of 1000 proposals, `rej` of which are rejected -/
def sample (u : U) (n : Nat) : List Nat → U × Out
  | [] => if n ≤ u.cache then ({ u with cache := u.cache - n }, .ret true) else (u, .badOracle)
  | rej :: rs =>
    if n ≤ u.cache then ({ u with cache := u.cache - n }, .ret true)
    else if 1000 < rej then (u, .badOracle)
    else sample { u with cache := u.cache + (1000 - rej), nSample := u.nSample + 1000,
                         nReject := u.nReject + rej } n rs

inductive Op
  | split (allowOverlap : Bool) (os : List SplitOracle)
  | trim (o : TrimOracle)
  | sample (n : Nat) (rej : List Nat)
deriving Repr, DecidableEq

def step (u : U) : Op → U × Out
  | .split a os => split u a os
  | .trim o => trim u o
  | .sample n r => sample u n r

def exec (u : U) (ops : List Op) : U := ops.foldl (fun u op => (step u op).1) u

/-! ### the code at the pinned commit -/

/-- pinned `split`: `np.bincount` without `minlength`, no re-check after the top-up; `Ellipsoid.compute`
    raises when a cluster has no more points than dimensions -/
def splitLegacy (u : U) (allowOverlap : Bool) : List SplitOracle → U × Out
  | [] => if allBlocked u then (u, .ret false) else (u, .badOracle)
  | o :: os =>
    if allBlocked u then (u, .ret false)
    else if !broadcastOk u.block.length u.logv.length then (u, .raised "ValueError")
    else match u.pts[o.index]?, u.block[o.index]? with
      | some P, some false =>
        if o.labels.length ≠ P.length then (u, .badOracle) else
        let labels := topUp u.nMin o false
        let A := select P labels false
        let B := select P labels true
        if A.length ≤ u.nDim || B.length ≤ u.nDim then (u, .raised "ValueError")
        else if !allowOverlap && o.overlap then (u, .ret false)
        else if o.grows then splitLegacy { u with block := u.block.set o.index true } allowOverlap os
        else
          let bounds' := u.bounds.eraseIdx o.index ++ [A, B]
          (reset { u with
            bounds := bounds'
            pts := u.pts.eraseIdx o.index ++ [A, B]
            logv := bounds'
            block := u.block.eraseIdx o.index ++ [decide (A.length < 2 * u.nMin), decide (B.length < 2 * u.nMin)] },
            .ret true)
      | _, _ => (u, .badOracle)

/-- pinned `trim`: `block` is not shrunk -/
def trimLegacy (u : U) (o : TrimOracle) : U × Out :=
  if u.bounds.length == 1 then (u, .ret false)
  else if !(decide (o.index < u.bounds.length) && decide (o.index < u.pts.length)) then (u, .badOracle)
  else if o.drop then
    let bounds' := u.bounds.eraseIdx o.index
    (reset { u with bounds := bounds', pts := u.pts.eraseIdx o.index, logv := bounds' }, .ret true)
  else (u, .ret false)

/-! ### printing -/
def Out.str : Out → String
  | .ret b => if b then "True" else "False"
  | .raised w => "raised:" ++ w
  | .badOracle => "bad-oracle"

def listStr (l : List Nat) : String := "[" ++ ",".intercalate (l.map toString) ++ "]"

def U.str (u : U) : String :=
  "bounds=" ++ " ".intercalate (u.bounds.map listStr) ++ " | pts=" ++ " ".intercalate (u.pts.map listStr) ++
  " | logv=" ++ " ".intercalate (u.logv.map listStr) ++
  " | block=" ++ String.ofList (u.block.map (fun b => if b then '1' else '0')) ++
  s!" | cache={u.cache} ns={u.nSample} nr={u.nReject}"

end UnionRec
end NautilusVerif
