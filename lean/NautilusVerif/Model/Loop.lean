/-
  `Loop` — the `while` loop of `Sampler.run` as iteration of a deterministic step (import-free).

      while (self.n_like < n_like_max) and (time() - t_start < timeout) and not success:  <one batch>
      return success

  `step` is one loop iteration (everything the iteration reads is part of the state `σ`: stored samples,
  counters, every bound's proposal cache and the generator state), `cost` is `n_like`, `done` is the success
  predicate.  A timeout is a stop after an arbitrary number of iterations.  `fuel` bounds the number of
  iterations so that the definition is total; the theorems speak about runs that stop within their fuel.
-/
namespace NautilusVerif
namespace Loop

variable {σ : Type}

def guard (cost : σ → Nat) (done : σ → Bool) (m : Nat) (s : σ) : Bool := decide (cost s < m) && !done s

def runFuel (step : σ → σ) (cost : σ → Nat) (done : σ → Bool) (m : Nat) : Nat → σ → σ
  | 0, s => s
  | f + 1, s => if guard cost done m s then runFuel step cost done m f (step s) else s

/-- the run ended because its guard became false (not because the fuel ran out) -/
def Stops (step : σ → σ) (cost : σ → Nat) (done : σ → Bool) (m fuel : Nat) (s : σ) : Prop :=
  guard cost done m (runFuel step cost done m fuel s) = false

def iter (step : σ → σ) : Nat → σ → σ
  | 0, s => s
  | n + 1, s => iter step n (step s)

end Loop
end NautilusVerif
