/-
  Invariants of the `Core` state machine, stated with bounded quantifiers only so that each is decidable and can
  be *evaluated* by the driver on the abstraction of a real `Sampler` state (import-free).
-/
import NautilusVerif.Model.Core
namespace NautilusVerif
namespace Core

def bounds (s : St) : List BId := s.shells.map (·.bound)

/-- C01: every stored sample lies in the cube, inside the bound of its own shell and outside every later bound -/
def InShells (env : Env) (s : St) : Prop :=
  ∀ shi ∈ s.shells.zipIdx, ∀ p ∈ shi.1.pts,
    env.inCube p = true ∧ env.contains shi.1.bound p = true ∧
    ∀ b ∈ (bounds s).drop (shi.2 + 1), env.contains b p = false

/-- unused transfer candidates lie in the cube and in the newest bound (only meaningful while exploring) -/
def TransfersInLast (env : Env) (s : St) : Prop :=
  s.explored = false →
  ∀ tj ∈ s.tPts.zip s.tShell, 0 ≤ tj.2 →
    env.inCube tj.1 = true ∧ ∀ b ∈ (bounds s).getLast?, env.contains b tj.1 = true

def unusedTransfers (s : St) : List Pt :=
  ((s.tPts.zip s.tShell).filter (fun tj => decide (0 ≤ tj.2))).map (·.1)

/-- no sample is stored twice, nor both stored and still waiting as a transfer candidate -/
def NoDup (s : St) : Prop := (allStored s ++ (if s.explored then [] else unusedTransfers s)).Nodup

def Inv01 (env : Env) (s : St) : Prop := InShells env s ∧ TransfersInLast env s ∧ NoDup s

/-- C03: the three arrays of every shell, and of the transfer set, name the same evaluations in the same order -/
def Aligned (s : St) : Prop :=
  (∀ sh ∈ s.shells, sh.ls = sh.pts ∧ sh.bs = sh.pts) ∧ s.tLs = s.tPts ∧ s.tBs = s.tPts ∧
  s.tShell.length = s.tPts.length

/-- C02 (counting part): the cached count is the number of visible rows and never exceeds the number of
    proposals it is divided by -/
def Counts (s : St) : Prop :=
  ∀ sh ∈ s.shells,
    sh.nShown = (visible s sh).length ∧
    (if s.discard && s.explored then sh.nShown + sh.nSampleExp ≤ sh.nSample ∧ sh.endExp ≤ sh.pts.length
     else sh.nShown ≤ sh.nSample)

/-- C12: once explored, every shell is non-empty and the exploration split point is inside the arrays -/
def ExploredShape (s : St) : Prop :=
  s.explored = true → ∀ sh ∈ s.shells, sh.pts ≠ [] ∧ sh.endExp ≤ sh.pts.length ∧ sh.nSampleExp ≤ sh.nSample

instance (env : Env) (s : St) : Decidable (InShells env s) := by unfold InShells; infer_instance
instance (env : Env) (s : St) : Decidable (TransfersInLast env s) := by unfold TransfersInLast; infer_instance
instance (s : St) : Decidable (NoDup s) := by unfold NoDup; infer_instance
instance (env : Env) (s : St) : Decidable (Inv01 env s) := by unfold Inv01; infer_instance
instance (s : St) : Decidable (Aligned s) := by unfold Aligned; infer_instance
instance (s : St) : Decidable (Counts s) := by unfold Counts; infer_instance
instance (s : St) : Decidable (ExploredShape s) := by unfold ExploredShape; infer_instance

end Core
end NautilusVerif
