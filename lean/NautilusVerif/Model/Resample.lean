/-
  Model of the equal-weight branch of `Sampler.posterior` (nautilus/sampler.py), import-free.

      repeats = np.exp(log_w - np.amax(log_w)) * equal_weight_boost
      repeats = np.floor(repeats).astype(int) + (self.rng.random(len(repeats)) < repeats - np.floor(repeats)).astype(int)
      points = np.repeat(points, repeats, axis=0); log_l = np.repeat(log_l, repeats, axis=0); blobs = np.repeat(...)
      log_w = np.zeros(np.sum(repeats));  ...;  log_w = log_w - logsumexp(log_w)

  For `r ≥ 0` both `floor r` and `r - floor r` are exact in binary64, so the float test `u < r - floor r`
  is the exact test on the rational values of the doubles `r`, `u`: the model below is bit-faithful.
-/
namespace NautilusVerif
namespace Resample

/-- relative weight times boost, in linear space: `exp(log_w - amax(log_w)) * boost` -/
def relWeight (w wmax boost : Rat) : Rat := w / wmax * boost

/-- number of copies of a sample with relative weight `r` when the uniform draw is `u` -/
def reps (r u : Rat) : Int := r.floor + (if u < r - (r.floor : Rat) then 1 else 0)

/-- `np.repeat(xs, ks, axis=0)` -/
def expand {α} : List α → List Nat → List α
  | x :: xs, k :: ks => List.replicate k x ++ expand xs ks
  | _, _ => []

/-- all multiplicities of one call -/
def repsAll (rs us : List Rat) : List Nat := List.zipWith (fun r u => (reps r u).toNat) rs us

/-- the rows returned: (point, log_l, blob) ids repeated -/
def resample {α} (rows : List α) (rs us : List Rat) : List α := expand rows (repsAll rs us)

end Resample
end NautilusVerif
