/-
  Model of `nautilus/prior.py` (`Prior`), import-free and executable.

  Python values are abstracted as follows.
  * `key` argument:  `None` | a `str` | anything else.
  * `dist` argument: a tuple `(a, b)` | a `numbers.Number` | an object with an `isf` attribute | a `str` | other.
    Objects with `isf` are *parameters* of the model: a free distribution is represented by the affine
    percent-point function `u ↦ a + b * u` (scipy's `uniform(loc=a, scale=b)` is exactly that;
    the harness uses affine stubs for "scipy distributions" so that results compare exactly).
  * Exceptions are outcomes; a method that raises half-way returns the half-mutated object.
-/
namespace NautilusVerif
namespace PriorModel

inductive KeyArg
  | auto                 -- key=None
  | str (s : String)
  | nonStr               -- e.g. key=1.0
deriving Repr, DecidableEq

inductive DistArg
  | range (a b : Rat)    -- tuple (a, b)  ↦ uniform(loc=a, scale=b-a)
  | number (v : Rat)     -- fixed parameter
  | isf (a b : Rat)      -- object with `isf`; percent-point function u ↦ a + b*u
  | link (s : String)    -- a string naming another parameter
  | other                -- anything else (list, None, ...)
deriving Repr, DecidableEq

inductive Dist
  | free (a b : Rat)     -- has `isf`
  | fixed (v : Rat)      -- numbers.Number
  | link (t : String)    -- str
deriving Repr, DecidableEq

def Dist.isFree : Dist → Bool | .free _ _ => true | _ => false
def Dist.isLink : Dist → Bool | .link _ => true | _ => false

structure Prior where
  keys : List String := []
  dists : List Dist := []
deriving Repr, DecidableEq

inductive Outcome | ok | typeError | valueError | indexError
deriving Repr, DecidableEq

def autoKey (n : Nat) : String := "x_" ++ toString n

/-- `while isinstance(self.dists[self.keys.index(dist)], str): dist = self.dists[self.keys.index(dist)]`
    with explicit fuel; `none` = `IndexError` (or fuel exhausted, which `resolve_fuel_enough` excludes). -/
def resolve (keys : List String) (dists : List Dist) : Nat → String → Option String
  | 0, _ => none
  | fuel+1, s =>
    match dists[keys.idxOf s]? with
    | none => none
    | some (.link t) => resolve keys dists fuel t
    | some _ => some s

/-! ### the code at the pinned commit: key appended before the distribution is validated -/
def addLegacy (p : Prior) (k : KeyArg) (d : DistArg) : Prior × Outcome :=
  let step1 : Except Outcome (Prior × String) :=
    match k with
    | .auto => .ok ({ p with keys := p.keys ++ [autoKey p.keys.length] }, "None")   -- str(None)
    | .nonStr => .error .typeError
    | .str s => if s ∈ p.keys then .error .valueError else .ok ({ p with keys := p.keys ++ [s] }, s)
  match step1 with
  | .error e => (p, e)
  | .ok (p1, strKey) =>
    match d with
    | .range a b => ({ p1 with dists := p1.dists ++ [.free a (b - a)] }, .ok)
    | .number v => ({ p1 with dists := p1.dists ++ [.fixed v] }, .ok)
    | .isf a b => ({ p1 with dists := p1.dists ++ [.free a b] }, .ok)
    | .link s =>
      if s ∉ p1.keys ∨ s = strKey then (p1, .valueError)
      else match resolve p1.keys p1.dists (p1.dists.length + 1) s with
        | none => (p1, .indexError)
        | some t => ({ p1 with dists := p1.dists ++ [.link t] }, .ok)
    | .other => (p1, .typeError)

/-! ### the repaired code: validate everything, then append key and distribution together -/
def add (p : Prior) (k : KeyArg) (d : DistArg) : Prior × Outcome :=
  let key? : Except Outcome String :=
    match k with
    | .auto => .ok (autoKey p.keys.length)
    | .nonStr => .error .typeError
    | .str s => .ok s
  match key? with
  | .error e => (p, e)
  | .ok key =>
    if key ∈ p.keys then (p, .valueError) else
    let dist? : Except Outcome Dist :=
      match d with
      | .range a b => .ok (.free a (b - a))
      | .number v => .ok (.fixed v)
      | .isf a b => .ok (.free a b)
      | .link s =>
        if s ∉ p.keys then .error .valueError
        else match resolve p.keys p.dists (p.dists.length + 1) s with
          | none => .error .indexError
          | some t => .ok (.link t)
      | .other => .error .typeError
    match dist? with
    | .error e => (p, e)
    | .ok dist => ({ keys := p.keys ++ [key], dists := p.dists ++ [dist] }, .ok)

def exec (p : Prior) (ops : List (KeyArg × DistArg)) : Prior := ops.foldl (fun p kd => (add p kd.1 kd.2).1) p
def execLegacy (p : Prior) (ops : List (KeyArg × DistArg)) : Prior :=
  ops.foldl (fun p kd => (addLegacy p kd.1 kd.2).1) p

/-- `Prior.dimensionality`: number of entries that are neither a number nor a string -/
def dimensionality (p : Prior) : Nat := (p.dists.filter Dist.isFree).length

/-- the loop of `unit_to_physical` on one point: consumes one coordinate per free distribution, in order.
    (`isf(1 - u)` of the affine stub / scipy `uniform` is `a + b*u`.) -/
def physLoop : List Dist → List Rat → List Rat
  | [], _ => []
  | .free a b :: ds, u :: us => (a + b * u) :: physLoop ds us
  | .free _ _ :: _, [] => []                       -- unreachable after the dimensionality check
  | _ :: ds, us => physLoop ds us

def unitToPhysical (p : Prior) (u : List Rat) : Except Outcome (List Rat) :=
  if dimensionality p ≠ u.length then .error .valueError else .ok (physLoop p.dists u)

def lookup (d : List (String × Rat)) (k : String) : Option Rat := (d.find? (fun kv => kv.1 == k)).map (·.2)

/-- Python dict assignment: overwrite in place if present, else append -/
def assign (d : List (String × Rat)) (k : String) (v : Rat) : List (String × Rat) :=
  if d.any (fun kv => kv.1 == k) then d.map (fun kv => if kv.1 == k then (k, v) else kv) else d ++ [(k, v)]

/-- first loop of `physical_to_dictionary`: free ↦ next coordinate, fixed ↦ constant -/
def dictLoop1 : List String → List Dist → List Rat → List (String × Rat) → List (String × Rat)
  | k :: ks, .free _ _ :: ds, x :: xs, acc => dictLoop1 ks ds xs (assign acc k x)
  | k :: ks, .fixed v :: ds, xs, acc => dictLoop1 ks ds xs (assign acc k v)
  | _ :: ks, _ :: ds, xs, acc => dictLoop1 ks ds xs acc
  | _, _, _, acc => acc

/-- second loop: `param_dict[key] = param_dict[dist]` for links; `none` = KeyError -/
def dictLoop2 : List String → List Dist → List (String × Rat) → Option (List (String × Rat))
  | k :: ks, .link t :: ds, acc =>
    match lookup acc t with
    | none => none
    | some v => dictLoop2 ks ds (assign acc k v)
  | _ :: ks, _ :: ds, acc => dictLoop2 ks ds acc
  | _, _, acc => some acc

/-- does the first loop reach its `elif isinstance(dist, numbers.Number)` branch? -/
def hasFixed : List String → List Dist → Bool
  | _ :: _, .fixed _ :: _ => true
  | _ :: ks, _ :: ds => hasFixed ks ds
  | _, _ => false

def physicalToDictionary (p : Prior) (phys : List Rat) : Except Outcome (List (String × Rat)) :=
  if dimensionality p ≠ phys.length then .error .valueError
  -- `np.ones(phys_points[..., 0].shape)`: with zero free parameters there is no column 0 → IndexError
  else if phys.isEmpty && hasFixed p.keys p.dists then .error .indexError
  else match dictLoop2 p.keys p.dists (dictLoop1 p.keys p.dists phys []) with
    | none => .error .indexError      -- KeyError
    | some d => .ok d

def unitToDictionary (p : Prior) (u : List Rat) : Except Outcome (List (String × Rat)) :=
  match unitToPhysical p u with
  | .error e => .error e
  | .ok phys => physicalToDictionary p phys

/-! ### reference interpreter of a declaration list (the specification) -/
namespace Spec

/-- a *well-formed declaration*: key and what it is -/
inductive Decl
  | free (key : String) (a b : Rat)
  | fixed (key : String) (v : Rat)
  | link (key : String) (target : String)
deriving Repr, DecidableEq

def Decl.key : Decl → String | .free k _ _ => k | .fixed k _ => k | .link k _ => k

/-- value of every declared key for unit coordinates `u` (free parameters consume `u` left to right);
    a link takes the value its target had been given by the earlier declarations -/
def eval : List Decl → List Rat → List (String × Rat) → List (String × Rat)
  | [], _, acc => acc
  | .free k a b :: ds, x :: us, acc => eval ds us (acc ++ [(k, a + b * x)])
  | .free _ _ _ :: ds, [], acc => eval ds [] acc
  | .fixed k v :: ds, us, acc => eval ds us (acc ++ [(k, v)])
  | .link k t :: ds, us, acc =>
    match lookup acc t with
    | some v => eval ds us (acc ++ [(k, v)])
    | none => eval ds us acc

end Spec

/-- the declaration list a prior state stands for -/
def toDecls : List String → List Dist → List Spec.Decl
  | k :: ks, .free a b :: ds => .free k a b :: toDecls ks ds
  | k :: ks, .fixed v :: ds => .fixed k v :: toDecls ks ds
  | k :: ks, .link t :: ds => .link k t :: toDecls ks ds
  | _, _ => []

/-! ### printing for the driver -/
def ratStr (r : Rat) : String := if r.den == 1 then toString r.num else s!"{r.num}/{r.den}"
def Dist.str : Dist → String
  | .free a b => s!"free({ratStr a},{ratStr b})"
  | .fixed v => s!"fixed({ratStr v})"
  | .link t => s!"link({t})"
def Outcome.str : Outcome → String
  | .ok => "ok" | .typeError => "TypeError" | .valueError => "ValueError" | .indexError => "IndexError"
def Prior.str (p : Prior) : String :=
  "keys=" ++ ",".intercalate p.keys ++ " dists=" ++ ",".intercalate (p.dists.map Dist.str)

end PriorModel
end NautilusVerif
