/-
  `Run` — the control flow of `Sampler.run` (nautilus/sampler.py l. 417-500) as a labelled transition system over
  the `Core` state machine, import-free and executable.

  `run()` is modelled by the *events it can issue*: the marker `runStart cfg` (entry, with the arguments the
  bookkeeping sees), the `Core` operations in the order the loop body issues them, and `runEnd ret` (return).
  Between calls the user may switch `discard_exploration`.  `accept` is the acceptor of that language: it follows
  the loop body line by line and evaluates every branch condition that the bookkeeping state decides —

      len(self.bounds) == 0                         → the first `add_bound()` before the loop
      self.n_like < n_like_max                      → an iteration is only started below the budget
      not self.explored                             → exploration branch (add_bound? add_samples(-1) end?)
      np.sum(self.shell_n) > self.n_live            → necessary for a bound insertion
      np.any(self.shell_n < n_shell) / flatnonzero(...)[0]   → which shell is filled next
      success = explored and all(shell_n >= n_shell) and n_eff >= target   → the return value

  — and leaves the float comparisons (`n_update_iter`, `f_live`, `n_eff`, the `argmax`) to the environment: every
  outcome of those is accepted.  The theorems (`Lemmas/RunLemmas.lean`) hold for every accepted event sequence;
  the replay checks that every event sequence recorded from the real `run()` is accepted.
-/
import NautilusVerif.Model.Core
namespace NautilusVerif
namespace Run
open Core

/-- the arguments of one `run()` call (and the construction parameter `n_live`) that the bookkeeping sees -/
structure Cfg where
  nShell : Nat
  discard : Bool
  nLive : Nat
  nLikeMax : Option Nat        -- `none` = infinity
deriving Repr, DecidableEq

inductive Ev
  | op (o : Op)
  | runStart (cfg : Cfg)
  | runEnd (ret : Bool) (neffOK : Bool)      -- `neffOK`: the float comparison `self.n_eff >= n_eff` at return
deriving Repr, DecidableEq

/-- position in the body of `run()` -/
inductive Pos
  | idle                       -- outside `run()`
  | fresh (cfg : Cfg)          -- entered with no bound yet: `self.add_bound()` is next
  | top (cfg : Cfg)            -- at the loop guard
  | bounded (cfg : Cfg)        -- exploration iteration, `add_bound` done: `add_samples(-1)` is next
  | sampled (cfg : Cfg)        -- exploration iteration, `add_samples(-1)` done: the `f_live` test is next
deriving Repr, DecidableEq

/-- `np.flatnonzero(self.shell_n < n_shell)[0]` -/
def firstLow (cfg : Cfg) (s : St) : Option Nat := s.shells.findIdx? (fun sh => decide (sh.nShown < cfg.nShell))

def shownTotal (s : St) : Nat := (s.shells.map (·.nShown)).sum

/-- the loop guard, as far as the state decides it: `self.n_like < n_like_max` -/
def belowBudget (cfg : Cfg) (s : St) : Bool :=
  match cfg.nLikeMax with
  | none => true
  | some m => decide (s.nLike < m)

/-- the success expression with the float comparison supplied -/
def success (cfg : Cfg) (s : St) (neffOK : Bool) : Bool := s.explored && (firstLow cfg s).isNone && neffOK

/-- the shell the sampling phase fills next: the first one below `n_shell` (`elif np.any(self.shell_n < n_shell)`),
    otherwise (`elif self.n_eff < n_eff`) the `argmax` of a float expression — some existing shell -/
def shellChoiceOK (cfg : Cfg) (s : St) (i : Nat) : Bool :=
  match firstLow cfg s with
  | some j => i == j
  | none => decide (i < s.shells.length)

/-- events accepted at the loop guard -/
def acceptTop (cfg : Cfg) (s : St) : Ev → Option Pos
  | .op (.addBound _) =>
      if belowBudget cfg s && !s.explored && decide (cfg.nLive < shownTotal s) then some (.bounded cfg) else none
  | .op (.addSamples none _ _) =>
      if belowBudget cfg s && !s.explored then some (.sampled cfg) else none
  | .op (.addSamples (some i) _ idxT) =>
      if belowBudget cfg s && s.explored && idxT.isEmpty && shellChoiceOK cfg s i then some (.top cfg) else none
  | .runEnd ret neffOK => if ret == success cfg s neffOK then some .idle else none
  | _ => none

/-- one event.  `s` is the state *before* the event. -/
def accept (pos : Pos) (s : St) (e : Ev) : Option Pos :=
  match pos, e with
  | .idle, .runStart cfg =>
      -- `if len(self.bounds) == 0: self.add_bound()`.  A sampler without bounds has not finished exploring
      -- (`explored` is only set inside the loop, after `add_samples(-1)` has stored a batch).
      if s.shells.isEmpty then (if !s.explored then some (.fresh cfg) else none) else some (.top cfg)
  | .idle, .op (.setDiscard _) => some .idle
  | .fresh cfg, .op (.addBound (some _)) => some (.top cfg)
  | .top cfg, e => acceptTop cfg s e
  | .bounded cfg, .op (.addSamples none _ _) => some (.sampled cfg)
  | .sampled cfg, .op (.endExploration d) => if d == cfg.discard then some (.top cfg) else none
  | .sampled cfg, e => acceptTop cfg s e
  | _, _ => none

/-- the bookkeeping effect of an event -/
def apply (env : Env) (s : St) : Ev → St
  | .op o => (step env s o).1
  | _ => s

/-- does `run()` (and the user between calls) produce this event sequence?  Returns the final position. -/
def accepts (env : Env) : Pos → St → List Ev → Option Pos
  | pos, _, [] => some pos
  | pos, s, e :: es =>
    match accept pos s e with
    | none => none
    | some pos' => accepts env pos' (apply env s e) es

def opsOf : List Ev → List Op
  | [] => []
  | .op o :: es => o :: opsOf es
  | _ :: es => opsOf es

def execEv (env : Env) (s : St) (es : List Ev) : St := es.foldl (apply env) s

end Run
end NautilusVerif
