/-
  Dyadic model of IEEE-754 binary64 arithmetic (no Mathlib, executable).

  A finite double is an integer mantissa times a power of two, `m * 2^e`.  Every
  operation first computes the *exact* dyadic result and then rounds it to 53
  significant bits with ties-to-even (`round53`), which is what the hardware
  does for + and - (no overflow / subnormal handling: all values met by the
  modelled code are in [-2, 2] and far from the subnormal range unless they are
  exactly representable anyway; subnormal *inputs* are exactly representable
  and additions with them are still correctly rounded to 53 bits because the
  result exponent is large).
-/
namespace NautilusVerif

structure Dy where
  m : Int
  e : Int
deriving Repr, DecidableEq, Inhabited

namespace Dy

/-- strip trailing zero bits of the mantissa (canonical form; 0 is `⟨0,0⟩`). -/
def normGo : Nat → Int → Int → Dy
  | 0, m, e => ⟨m, e⟩
  | f+1, m, e => if m % 2 == 0 then normGo f (m / 2) (e + 1) else ⟨m, e⟩

def norm (x : Dy) : Dy :=
  if x.m == 0 then ⟨0, 0⟩ else normGo (x.m.natAbs.log2 + 1) x.m x.e

def zero : Dy := ⟨0, 0⟩
def one : Dy := ⟨1, 0⟩
def half : Dy := ⟨1, -1⟩
def ofInt (n : Int) : Dy := norm ⟨n, 0⟩

/-- bring two dyadics to a common exponent -/
def align (x y : Dy) : Int × Int × Int :=
  let e := min x.e y.e
  (x.m * 2 ^ (x.e - e).toNat, y.m * 2 ^ (y.e - e).toNat, e)

/-- exact sum -/
def addX (x y : Dy) : Dy := let (a, b, e) := align x y; norm ⟨a + b, e⟩
def neg (x : Dy) : Dy := ⟨-x.m, x.e⟩
def subX (x y : Dy) : Dy := addX x (neg y)
def lt (x y : Dy) : Bool := let (a, b, _) := align x y; decide (a < b)
def le (x y : Dy) : Bool := let (a, b, _) := align x y; decide (a ≤ b)
def beq (x y : Dy) : Bool := let (a, b, _) := align x y; a == b
/-- exact halving -/
def halve (x : Dy) : Dy := norm ⟨x.m, x.e - 1⟩

/-- floor as an integer -/
def floor (x : Dy) : Int :=
  if x.e ≥ 0 then x.m * 2 ^ x.e.toNat else Int.fdiv x.m (2 ^ (-x.e).toNat)

/-- round to 53 significant bits, ties to even -/
def round53 (x : Dy) : Dy :=
  let a := x.m.natAbs
  let bl := if a == 0 then 0 else a.log2 + 1
  if bl ≤ 53 then norm x else
  let k := bl - 53
  let q := a >>> k
  let r := a - (q <<< k)
  let h := 1 <<< (k - 1)
  let q' := if r > h then q + 1 else if r < h then q else (if q % 2 == 1 then q + 1 else q)
  let s : Int := if x.m < 0 then -1 else 1
  norm ⟨s * q', x.e + k⟩

/-- IEEE addition / subtraction -/
def add (x y : Dy) : Dy := round53 (addX x y)
def sub (x y : Dy) : Dy := round53 (subX x y)

/-- numpy's `x % 1` for a finite double `x` (npy_remainder with b = 1):
    `mod = fmod(x, 1)` is exact and has the sign of `x`; a negative non-zero
    remainder gets `+ 1` (a rounded addition); a zero remainder becomes +0. -/
def mod1 (a : Dy) : Dy :=
  let fl := floor a
  let r := addX a (ofInt (-fl))          -- a - floor a, exact, in [0,1)
  if a.m ≥ 0 then r
  else if r.m == 0 then r
  else add (addX r (ofInt (-1))) one     -- fmod = r - 1 in (-1,0); then `+ 1`, rounded

/-- IEEE multiplication (exact product, then rounded) -/
def mul (x y : Dy) : Dy := round53 (norm ⟨x.m * y.m, x.e + y.e⟩)

def toString (x : Dy) : String := s!"{x.m} {x.e}"

end Dy
end NautilusVerif
