/-
  `Eval` — `Sampler.evaluate_likelihood` (nautilus/sampler.py), import-free.

  The batch of proposed rows goes through the prior transform and the likelihood in one of three ways (scalar `map`,
  one vectorised call, an ordered pool `map` whose workers finish in any order); the results are split into
  log-likelihoods and blobs and the call counter is increased by the number of results.

  A prior *function* may write into the array it is given.  `Prior` therefore returns the argument it produces **and** what
  it leaves in the buffer it was handed; the code hands it `np.copy(points)`, the model keeps both buffers apart.
-/
import NautilusVerif.Model.Pool
namespace NautilusVerif
namespace Eval

/-- how the likelihood is evaluated -/
inductive Mode
  | scalar                         -- `list(map(self.likelihood, args))`
  | vectorized                     -- `self.likelihood(args)` on the whole batch
  | pool (schedule : List Nat)     -- `self.pool_l.map(self.likelihood, args)`; `schedule` = completion order of the workers
deriving Repr

variable {P A R : Type}

/-- the prior transform applied to a *copy* of every row: (arguments, the copy afterwards) -/
def transformRows (prior : P → A × P) (buf : List P) : List A × List P := ((buf.map prior).map (·.1), (buf.map prior).map (·.2))

/-- `evaluate_likelihood(points)`.  `likeVec` is what a vectorised likelihood returns for a batch.
    Returns (results in proposal order, the caller's `points` afterwards, increment of `n_like`). -/
def evaluate (mode : Mode) (prior : P → A × P) (like : A → R) (likeVec : List A → List R) (points : List P) :
    List (Option R) × List P × Nat :=
  let copy := points                                  -- `np.copy(points)`
  let (args, _copyAfter) := transformRows prior copy  -- the transform may scribble into the copy only
  let res : List (Option R) :=
    match mode with
    | .scalar => args.map (fun a => some (like a))
    | .vectorized => (likeVec args).map some
    | .pool schedule => Pool.gather args.length (Pool.arrivals like args schedule)
  (res, points, res.length)

/-- the variant without the copy (what a "the copy is wasteful" edit produces): the caller's array is what the prior left -/
def evaluateNoCopy (prior : P → A × P) (like : A → R) (points : List P) : List (Option R) × List P × Nat :=
  let (args, after) := transformRows prior points
  (args.map (fun a => some (like a)), after, args.length)

/-- splitting the results of a likelihood that returns `(log_l, blob)` -/
def split {L B : Type} (res : List (L × B)) : List L × List B := (res.map (·.1), res.map (·.2))

end Eval
end NautilusVerif
