/-
  `BoundAlg` — the algebra of bound classes of `nautilus/bounds` (import-free, executable).

  A bound is an expression over *leaves* (an ellipsoid test, a network verdict, the unit-cube test, the cube part
  of a cube-ellipsoid mixture).  `contains` is the transcription of each class's `contains`; `Sampled` is the set of
  points some execution of `sample` can return (serial or through a pool: a pool merges what worker copies of the
  same bound return).  Points are identities; the phase shift is a pair of maps on identities.
-/
namespace NautilusVerif
namespace BoundAlg

abbrev Pt := Nat

/-- answers of the leaves for every point -/
structure Leaves where
  cube : Pt → Bool                 -- UnitCube.contains (all coordinates in [0,1))
  ell : Nat → Pt → Bool            -- Ellipsoid e: sum(transform(p)**2) < 1
  mixCube : Nat → Pt → Bool        -- cube part of mixture e on its cube dimensions
  net : Nat → Pt → Bool            -- emulator verdict of neural bound n (predict > score_predict_min - 1e-9)
  sh : Pt → Pt                     -- PhaseShift.transform(p)
  unsh : Pt → Pt                   -- PhaseShift.transform(p, inverse=True)

inductive Bd
  | cube
  | ell (e : Nat)
  | mix (e : Nat) (hasCube hasEll : Bool)
  | union (members : List Bd) (unit : Bool)
  | neural (outer : Nat) (net : Option Nat)
  | nautilus (shift : Bool) (outer : Bd) (neurals : List Bd)

mutual
  def contains (L : Leaves) : Bd → Pt → Bool
    | .cube, p => L.cube p
    | .ell e, p => L.ell e p
    | .mix e hc he, p => (!hc || L.mixCube e p) && (!he || L.ell e p)
    | .union ms unit, p => containsAny L ms p && (!unit || L.cube p)
    | .neural o n, p => L.ell o p && (match n with | some k => L.net k p | none => true)
    | .nautilus s o ns, p =>
      let q := if s then L.sh p else p
      contains L o q && (ns.isEmpty || containsAny L ns q)
  def containsAny (L : Leaves) : List Bd → Pt → Bool
    | [], _ => false
    | b :: bs, p => contains L b p || containsAny L bs p
end

mutual
  /-- `Sampled L b p`: some execution of `b.sample` can return `p` -/
  inductive Sampled (L : Leaves) : Bd → Pt → Prop
    | cube (p : Pt) : L.cube p = true → Sampled L .cube p
    | ell (e : Nat) (p : Pt) : L.ell e p = true → Sampled L (.ell e) p                 -- leaf law, see C07_ell_sample
    | mix (e : Nat) (hc he : Bool) (p : Pt) :
        (hc = true → L.mixCube e p = true) → (he = true → L.ell e p = true) → Sampled L (.mix e hc he) p
    | union (ms : List Bd) (unit : Bool) (p : Pt) :
        SampledAny L ms p → (unit = true → L.cube p = true) → Sampled L (.union ms unit) p
    | nautilus (s : Bool) (o : Bd) (ns : List Bd) (q : Pt) :
        Sampled L o q → (ns.isEmpty = true ∨ containsAny L ns q = true) →
        Sampled L (.nautilus s o ns) (if s then L.unsh q else q)
  inductive SampledAny (L : Leaves) : List Bd → Pt → Prop
    | here (b : Bd) (bs : List Bd) (p : Pt) : Sampled L b p → SampledAny L (b :: bs) p
    | there (b : Bd) (bs : List Bd) (p : Pt) : SampledAny L bs p → SampledAny L (b :: bs) p
end

end BoundAlg
end NautilusVerif
