/-
  `SampleBuf` — the two-level proposal cache of `NautilusBound` over its outer `Union`
  (nautilus/bounds/union.py `Union.sample`, nautilus/bounds/nautilus.py `NautilusBound.sample`, `_reset_and_sample`,
  `reset`), import-free and executable.

  A point is an identity.  Each level keeps `points` (the cache), `n_sample` and `n_reject`.  Everything random or
  numeric is supplied with the operation: which of the 1000 proposals of a refill survive (`kept`), which outer points the
  networks accept (`accepted`), and what the worker copies of a pool did.  The model transcribes the loops, the counter
  updates, the slicing of the cache, the merge of the pool branch and the single place where the inverse phase shift is
  applied.  Ghost fields (`out`, `discarded`) record what left a cache; the code does not have them, the theorems are
  about them, the replay compares the real fields only.
-/
namespace NautilusVerif
namespace SampleBuf

abbrev Pt := Nat

/-- one level of cache: `points`, `n_sample`, `n_reject` (+ ghosts) -/
structure Lvl where
  buf : List Pt := []
  nSample : Nat := 0
  nReject : Nat := 0
  out : List Pt := []            -- ghost: points handed out by `sample`, in order
  discarded : Nat := 0           -- ghost: accepted points of worker copies that were never handed out (outer level of the pool path)
deriving Repr, DecidableEq

structure NB where
  inner : Lvl := {}              -- NautilusBound.points / n_sample / n_reject   (cache is in the *shifted* frame)
  outer : Lvl := {}              -- outer_bound (Union)
deriving Repr, DecidableEq

def batch : Nat := 1000

/-- one pass of the `while` body of `Union.sample`: 1000 proposals, `kept` survive the cube cut and the thinning -/
def refill (l : Lvl) (kept : List Pt) : Lvl :=
  { l with buf := l.buf ++ kept, nSample := l.nSample + batch, nReject := l.nReject + (batch - kept.length) }

/-- `Union.sample(n)`: `while len(self.points) < n: <refill>`, then hand out the first `n`.  One list per pass of the loop;
    `none` = the supplied passes are not ones the loop could have made. -/
def unionSample (l : Lvl) (n : Nat) : List (List Pt) → Option (Lvl × List Pt)
  | [] => if n ≤ l.buf.length then some ({ l with buf := l.buf.drop n, out := l.out ++ l.buf.take n }, l.buf.take n) else none
  | k :: ks =>
    if n ≤ l.buf.length then none
    else if batch < k.length then none
    else unionSample (refill l k) n ks

/-- one pass of the serial `while` body of `NautilusBound.sample` -/
structure Round where
  outerPasses : List (List Pt)     -- the refills `self.outer_bound.sample(1000)` needed
  accepted : List Pt               -- `points[in_bound]`
deriving Repr, DecidableEq

def innerRound (b : NB) (r : Round) : Option NB :=
  match unionSample b.outer batch r.outerPasses with
  | none => none
  | some (o', props) =>
    if r.accepted.isSublist props then   -- `points[in_bound]` keeps order
      some { outer := o', inner := refill b.inner r.accepted }
    else none

/-- the serial branch: `while len(self.points) < n_points: <round>` -/
def fillSerial (b : NB) (n : Nat) : List Round → Option NB
  | [] => if n ≤ b.inner.buf.length then some b else none
  | r :: rs =>
    if n ≤ b.inner.buf.length then none
    else match innerRound b r with
      | none => none
      | some b' => fillSerial b' n rs

/-- `self.reset()` (both levels; ghosts restart with the counters) -/
def reset (_b : NB) : NB := {}

/-- `_reset_and_sample(n)` on a worker copy: reset, then fill serially without handing anything out -/
def worker (b : NB) (n : Nat) (rs : List Round) : Option NB := fillSerial (reset b) n rs

/-- the merge of the pool branch, one worker result at a time (l. 231-236): the worker's cache and its own counters go to
    this level, the counters of the worker's *outer* bound go to the outer level; the worker's outer cache is dropped -/
def merge (b w : NB) : NB :=
  { inner := { b.inner with buf := b.inner.buf ++ w.inner.buf, nSample := b.inner.nSample + w.inner.nSample,
                            nReject := b.inner.nReject + w.inner.nReject }
    outer := { b.outer with nSample := b.outer.nSample + w.outer.nSample, nReject := b.outer.nReject + w.outer.nReject,
                            out := b.outer.out ++ w.outer.out,
                            discarded := b.outer.discarded + w.outer.buf.length + w.outer.discarded } }

/-- `n_points_per_job = max(n_points - len(self.points), 10000) // n_jobs + 1` -/
def perJob (b : NB) (n jobs : Nat) : Nat := (max (n - b.inner.buf.length) 10000) / jobs + 1

/-- the pool branch: every job is a worker copy of *this* bound -/
def fillPool (b : NB) (n : Nat) (jobs : List (List Round)) : Option NB :=
  jobs.foldl (fun acc rs => match acc, worker b (perJob b n jobs.length) rs with
    | some a, some w => some (merge a w)
    | _, _ => none) (some b)

inductive Fill
  | serial (rs : List Round)
  | pool (jobs : List (List Round))
deriving Repr, DecidableEq

/-- the filling part of `NautilusBound.sample`: nothing to do if the cache is long enough, else the serial loop or the pool -/
def fill (b : NB) (n : Nat) (f : Fill) : Option NB :=
  if n ≤ b.inner.buf.length then (match f with | .serial [] => some b | .pool [] => some b | _ => none)
  else match f with
    | .serial rs => fillSerial b n rs
    | .pool jobs => if jobs.isEmpty then none else fillPool b n jobs

/-- `NautilusBound.sample(n_points, return_points, pool)`.  Returns the points handed out *before* the inverse shift; the
    caller receives `unsh` of each (exactly once) when the bound has a phase shift. -/
def sample (b : NB) (n : Nat) (ret : Bool) (f : Fill) : Option (NB × List Pt) :=
  match fill b n f with
  | none => none
  | some b' =>
    if ret then
      some ({ b' with inner := { b'.inner with buf := b'.inner.buf.drop n, out := b'.inner.out ++ b'.inner.buf.take n } },
            b'.inner.buf.take n)
    else some (b', [])

/-- what the caller of `sample` receives -/
def handOut (shift : Bool) (unsh : Pt → Pt) (pts : List Pt) : List Pt := if shift then pts.map unsh else pts

inductive Op
  | reset
  | sample (n : Nat) (ret : Bool) (f : Fill)
deriving Repr, DecidableEq

def step (b : NB) : Op → Option (NB × List Pt)
  | .reset => some (reset b, [])
  | .sample n r f => sample b n r f

/-- any sequence of `reset` / `sample` calls on one bound (`none`: the supplied oracle values are not ones the loops make) -/
def run (b : NB) : List Op → Option NB
  | [] => some b
  | o :: os => match step b o with
    | none => none
    | some (b', _) => run b' os

/-! ### what the theorems are about -/

/-- accepted proposals of a level = proposals − rejections -/
def acceptedCount (l : Lvl) : Nat := l.nSample - l.nReject

/-- counters account for every point: accepted = cached + handed out + discarded, rejections never exceed proposals,
    proposals come in whole batches -/
def LvlOK (l : Lvl) : Prop :=
  l.nReject ≤ l.nSample ∧ l.nSample - l.nReject = l.buf.length + l.out.length + l.discarded ∧ batch ∣ l.nSample

/-- every proposal of the inner level is a point the outer level handed out -/
def Linked (b : NB) : Prop := b.inner.nSample = b.outer.out.length

def OK (b : NB) : Prop := LvlOK b.inner ∧ LvlOK b.outer ∧ Linked b ∧ b.inner.discarded = 0

end SampleBuf
end NautilusVerif
