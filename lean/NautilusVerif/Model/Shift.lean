/-
  Model of `nautilus/bounds/periodic.py` (`PhaseShift`), import-free.

  * `Shift.Q`  – exact arithmetic over core `Rat` (the algorithm).
  * `Shift.F`  – bit-exact model over `Dy` doubles (what numpy computes).

  `transform`:  points_t[:, dim] = (points_t[:, dim] ± (-centers[i] + 0.5)) % 1
  followed (since the fix commit for C16) by folding an exact 1.0 back to 0.0.
  `compute`:    x = sort(points[:, dim]); dx = append(diff(x), x[0] - (x[-1] - 1))
                centers[i] = (x[argmax dx] + amax(dx) / 2.0 + 0.5) % 1
-/
import NautilusVerif.Model.Dyadic
namespace NautilusVerif
namespace Shift

/-! ### generic list helpers (numpy semantics) -/

/-- insertion sort with a Boolean `≤` -/
def insertBy {α} (le : α → α → Bool) (a : α) : List α → List α
  | [] => [a]
  | b :: bs => if le a b then a :: b :: bs else b :: insertBy le a bs

def sortBy {α} (le : α → α → Bool) : List α → List α
  | [] => []
  | a :: as => insertBy le a (sortBy le as)

/-- `np.diff` -/
def diffBy {α} (sub : α → α → α) : List α → List α
  | a :: b :: rest => sub b a :: diffBy sub (b :: rest)
  | _ => []

/-- `np.argmax` : index of the first maximal element, with the maximum. -/
def argmaxGo {α} (lt : α → α → Bool) : List α → Nat → Nat → α → Nat × α
  | [], _, bi, bv => (bi, bv)
  | a :: as, i, bi, bv => if lt bv a then argmaxGo lt as (i+1) i a else argmaxGo lt as (i+1) bi bv

def argmax {α} (lt : α → α → Bool) : List α → Option (Nat × α)
  | [] => none
  | a :: as => some (argmaxGo lt as 1 0 a)

/-! ### exact model -/
namespace Q

def fract (x : Rat) : Rat := x - (x.floor : Rat)

/-- forward shift of one coordinate -/
def fwd (c x : Rat) : Rat := fract (x + (-c + 1/2))
/-- inverse shift of one coordinate -/
def inv (c y : Rat) : Rat := fract (y - (-c + 1/2))

def shift1 (c : Rat) (inverse : Bool) (x : Rat) : Rat := if inverse then inv c x else fwd c x

/-- cyclic gaps of a sorted list: consecutive differences, then the wrap gap -/
def gaps (xs : List Rat) : List Rat :=
  match xs, xs.getLast? with
  | x0 :: _, some xl => diffBy (fun b a => b - a) xs ++ [x0 - (xl - 1)]
  | _, _ => []

/-- `PhaseShift.compute` for one periodic dimension, on the *sorted* column -/
def centreSorted (xs : List Rat) : Option Rat :=
  match argmax (fun a b => decide (a < b)) (gaps xs) with
  | none => none
  | some (k, g) => match xs[k]? with
    | none => none
    | some xk => some (fract (xk + g / 2 + 1/2))

def centre (col : List Rat) : Option Rat := centreSorted (sortBy (fun a b => decide (a ≤ b)) col)

/-- `PhaseShift.transform` on one point: coordinate `periodic[i]` is shifted with `centers[i]`
    (later entries for the same dimension are applied on top, as the Python loop does). -/
def transform (periodic : List Nat) (centers : List Rat) (inverse : Bool) (p : List Rat) : List Rat :=
  (periodic.zip centers).foldl (fun p (dc : Nat × Rat) =>
      p.mapIdx (fun j x => if j = dc.1 then shift1 dc.2 inverse x else x)) p

end Q

/-! ### bit-exact model -/
namespace F
open Dy

/-- the code as it was at the pinned commit: no fold of 1.0 -/
def shift1Legacy (c : Dy) (inverse : Bool) (x : Dy) : Dy :=
  -- (points + (-1 if inverse else +1) * (-centers[i] + 0.5)) % 1, every operation rounded
  Dy.mod1 (Dy.add x (Dy.mul (if inverse then ⟨-1, 0⟩ else ⟨1, 0⟩) (Dy.add (Dy.neg c) Dy.half)))

/-- fold an exact 1.0 (or anything ≥ 1) back to 0 -/
def fold1 (r : Dy) : Dy := if Dy.le Dy.one r then Dy.zero else r

/-- the repaired transform -/
def shift1 (c : Dy) (inverse : Bool) (x : Dy) : Dy := fold1 (shift1Legacy c inverse x)

def gaps (xs : List Dy) : List Dy :=
  match xs, xs.getLast? with
  | x0 :: _, some xl => diffBy (fun b a => Dy.sub b a) xs ++ [Dy.sub x0 (Dy.sub xl Dy.one)]
  | _, _ => []

/-- `(x[argmax dx] + amax(dx) / 2.0 + 0.5) % 1` with every `+` rounded -/
def centreSorted (xs : List Dy) : Option Dy :=
  match argmax Dy.lt (gaps xs) with
  | none => none
  | some (k, g) => match xs[k]? with
    | none => none
    | some xk => some (Dy.mod1 (Dy.add (Dy.add xk (Dy.halve g)) Dy.half))

def centre (col : List Dy) : Option Dy := centreSorted (sortBy Dy.le col)

end F
end Shift
end NautilusVerif
