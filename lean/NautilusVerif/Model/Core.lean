/-
  `Core` — the bookkeeping state machine of `nautilus.sampler.Sampler`, import-free and executable.

  A *point* is an identity (`Pt = Nat`, the serial number of a proposed row).  All geometry and all numbers are
  an environment / oracles:
    * `Env.contains b p` – the answer of `bounds[b].contains(point p)`; `Env.inCube p`
    * what `bounds[i].sample` returned in each round of `sample_shell`, which rows survived the round, and the
      transfer indices `rng.choice` picked
    * float comparisons of the `run()` loop
  The three parallel numpy arrays of a shell (`points[i]`, `log_l[i]`, `blobs[i]`) are three parallel lists of
  evaluation names; every masking / indexing / appending line of the Python code is transcribed per array.
  Lines refer to nautilus/sampler.py.
-/
namespace NautilusVerif
namespace Core

abbrev Pt := Nat
abbrev BId := Nat

structure Env where
  contains : BId → Pt → Bool
  inCube : Pt → Bool

structure Shell where
  bound : BId
  pts : List Pt := []          -- Sampler.points[i]
  ls : List Pt := []           -- Sampler.log_l[i]   (entry = name of the evaluation whose value is stored)
  bs : List Pt := []           -- Sampler.blobs[i]
  nSample : Nat := 0           -- shell_n_sample[i]
  nSampleExp : Nat := 0        -- shell_n_sample_exp[i]
  endExp : Nat := 0            -- shell_end_exp[i]
  nShown : Nat := 0            -- shell_n[i]
deriving Repr, DecidableEq

structure St where
  nBatch : Nat
  shells : List Shell := []
  tPts : List Pt := []         -- points_t
  tLs : List Pt := []          -- log_l_t
  tBs : List Pt := []          -- blobs_t
  tShell : List Int := []      -- shell_t   (-1 = already transferred)
  explored : Bool := false
  discard : Bool := false      -- _discard_exploration
  nLike : Nat := 0
deriving Repr, DecidableEq

inductive Out
  | ok
  | okB (b : Bool)             -- return value of add_bound
  | badOracle (why : String)   -- observed values are not ones the code could have produced
  | raised (what : String)
deriving Repr, DecidableEq

/-- one iteration of the `while n_sample < self.n_batch` loop of `sample_shell` -/
structure Round where
  props : List Pt              -- returned by `self.bounds[index].sample(...)`
  kept : List Pt               -- rows appended to `points_all` at the end of the round
deriving Repr, DecidableEq

/-! ### update_shell_info (counting part), l. 899-918 -/

def start (s : St) (sh : Shell) : Nat := if s.discard && s.explored then sh.endExp else 0

/-- `shell_n = len(self.log_l[index][start:])` -/
def shown (s : St) (sh : Shell) : Nat := (sh.ls.drop (start s sh)).length

def updateShellInfo (s : St) (i : Nat) : St :=
  { s with shells := s.shells.modify i (fun sh => { sh with nShown := shown s sh }) }

def updateAll (s : St) : St :=
  { s with shells := s.shells.map (fun sh => { sh with nShown := shown s sh }) }

/-! ### add_bound, l. 971-1080 -/

def maskKeep (env : Env) (b : BId) (l key : List Pt) (keep : Bool) : List Pt :=
  ((l.zip key).filter (fun pk => env.contains b pk.2 == keep)).map (·.1)

/-- `add_bound` when the candidate bound `b` is accepted.  The mask is computed from `points[shell]` and applied to
    all three arrays; transfer arrays are rebuilt from scratch. -/
def addBoundOk (env : Env) (s : St) (b : BId) : St :=
  let old := s.shells
  let s1 : St := { s with shells := old ++ [{ bound := b }] }
  if old.isEmpty then s1 else
  -- l. 1056-1072: for shell in range(len(self.bounds) - 1)
  let moved (sh : Shell) (arr : List Pt) := maskKeep env b arr sh.pts false
  let taken (sh : Shell) (arr : List Pt) := maskKeep env b arr sh.pts true
  let old' := old.map (fun sh => { sh with pts := moved sh sh.pts, ls := moved sh sh.ls, bs := moved sh sh.bs })
  let s2 : St := { s1 with
    shells := old' ++ [{ bound := b }]
    tPts := (old.map (fun sh => taken sh sh.pts)).flatten
    tLs := (old.map (fun sh => taken sh sh.ls)).flatten
    tBs := (old.map (fun sh => taken sh sh.bs)).flatten
    tShell := ((old.zipIdx).map (fun (shi : Shell × Nat) => List.replicate (taken shi.1 shi.1.pts).length (shi.2 : Int))).flatten }
  -- update_shell_info(shell) for every earlier shell
  { s2 with shells := (s2.shells.zipIdx).map (fun (shi : Shell × Nat) =>
      if shi.2 < old.length then { shi.1 with nShown := shown s2 shi.1 } else shi.1) }

/-- `add_bound`: `res = none` — the candidate was rejected (or there was nothing to zoom into) -/
def addBound (env : Env) (s : St) (res : Option BId) : St × Out :=
  match res with
  | none => if s.shells.isEmpty then (s, .badOracle "first bound cannot be rejected") else (s, .okB false)
  | some b => (addBoundOk env s b, .okB true)

/-! ### shell_association, l. 1181-1210 -/

/-- index of the last bound (among the first `n`) containing `p`; -1 if none -/
def assoc (env : Env) (bounds : List BId) (p : Pt) : Int :=
  match ((bounds.zipIdx).reverse.find? (fun bi => env.contains bi.1 p)) with
  | some bi => (bi.2 : Int)
  | none => -1

/-! ### sample_shell, l. 748-827 -/

def positionsWhere {α} (l : List α) (f : α → Bool) : List Nat :=
  ((l.zipIdx).filter (fun ai => f ai.1)).map (·.2)

/-- transfers of one round: for shell = 0 .. nb-2 consume `min(|idx_1|, |idx_2|)` indices from the stream -/
def transferLoop (env : Env) (earlier : List BId) (inShell kept : List Pt) :
    Nat → Nat → List Int → List Nat → List Nat → Option (List Int × List Nat × List Nat)
  | 0, _, tShell, stream, acc => some (tShell, stream, acc)
  | fuel+1, sh, tShell, stream, acc =>
    let idx1 := positionsWhere tShell (fun t => t == (sh : Int))
    let idx2 := inShell.filter (fun p => assoc env earlier p == (sh : Int))
    let n := min idx1.length idx2.length
    let pick := stream.take n
    let removed := idx2.filter (fun p => !kept.contains p)
    if pick.length ≠ n || !pick.all (fun j => idx1.contains j) || !pick.Nodup || removed.length ≠ n then none
    else
      let tShell' := (tShell.zipIdx).map (fun (ti : Int × Nat) => if pick.contains ti.2 then (-1 : Int) else ti.1)
      transferLoop env earlier inShell kept fuel (sh + 1) tShell' (stream.drop n) (acc ++ pick)

/-- the rounds of `sample_shell`.  Returns (points, n_bound, idx_t, shell_t afterwards). -/
def sampleRounds (env : Env) (bounds : List BId) (index : Nat) (useT : Bool) (nBatch : Nat) :
    List Round → Nat → Nat → List Pt → List Int → List Nat → List Nat → Option (List Pt × Nat × List Nat × List Int)
  | [], nS, nB, pts, tShell, stream, idxT =>
    if nS == nBatch && stream.isEmpty then some (pts, nB, idxT, tShell) else none
  | r :: rs, nS, nB, pts, tShell, stream, idxT =>
    if nBatch ≤ nS then none                                  -- the loop would already have ended
    else if r.props.length ≠ nBatch - nS then none            -- `sample(self.n_batch - n_sample)`
    else
      let later := bounds.drop (index + 1)
      let inShell := r.props.filter (fun p => later.all (fun b => !env.contains b p))
      if useT && !tShell.isEmpty then
        let earlier := bounds.take (bounds.length - 1)
        match transferLoop env earlier inShell r.kept (bounds.length - 1) 0 tShell stream [] with
        | none => none
        | some (tShell', stream', picked) =>
          if r.kept ≠ inShell.filter (fun p => r.kept.contains p) then none
          else if (inShell.filter (fun p => !r.kept.contains p)).length ≠ picked.length then none
          else sampleRounds env bounds index useT nBatch rs (nS + r.kept.length) (nB + (nBatch - nS))
                 (pts ++ r.kept) tShell' stream' (idxT ++ picked)
      else
        if r.kept ≠ inShell then none
        else sampleRounds env bounds index useT nBatch rs (nS + r.kept.length) (nB + (nBatch - nS))
               (pts ++ r.kept) tShell stream idxT

def getD {α} (l : List α) (i : Nat) (d : α) : α := (l[i]?).getD d

/-- `add_samples(shell)`, l. 1082-1133.  `shellArg = none` is the Python index `-1`. -/
def addSamples (env : Env) (s : St) (shellArg : Option Nat) (rounds : List Round) (idxT : List Nat) : St × Out :=
  if s.shells.isEmpty then (s, .badOracle "no shells") else
  let last := s.shells.length - 1
  let idx := shellArg.getD last
  if idx ≥ s.shells.length then (s, .badOracle "shell index") else
  let useT := shellArg.isNone && !s.tShell.isEmpty
  let bounds := s.shells.map (·.bound)
  match sampleRounds env bounds idx useT s.nBatch rounds 0 0 [] s.tShell idxT [] with
  | none => (s, .badOracle "rounds")
  | some (points, nBound, idxT', tShell') =>
    -- l. 1106: the assertion sits in the transfer branch only
    if useT && points.length + idxT'.length ≠ nBound then (s, .raised "AssertionError") else
    -- l. 1109-1116: transferred rows are appended to the last shell first
    let shells1 :=
      if useT && !idxT'.isEmpty then
        s.shells.modify last (fun sh => { sh with
          pts := sh.pts ++ idxT'.map (fun j => getD s.tPts j 0)
          ls := sh.ls ++ idxT'.map (fun j => getD s.tLs j 0)
          bs := sh.bs ++ idxT'.map (fun j => getD s.tBs j 0) })
      else s.shells
    -- l. 1122-1131
    let shells2 := shells1.modify idx (fun sh => { sh with
      nSample := sh.nSample + nBound
      pts := sh.pts ++ points, ls := sh.ls ++ points, bs := sh.bs ++ points })
    let s' : St := { s with shells := shells2, tShell := tShell', nLike := s.nLike + points.length }
    (updateShellInfo s' idx, .ok)

/-! ### end of exploration, l. 452-477, and the `discard_exploration` setter, l. 516-536 -/

def setDiscard (s : St) (b : Bool) : St := updateAll { s with discard := b }

def endExploration (s : St) (discard : Bool) : St :=
  let kept := s.shells.filter (fun sh => sh.nShown != 0)
  let kept' := kept.map (fun sh => { sh with nSampleExp := sh.nSample, endExp := sh.pts.length })
  setDiscard { s with shells := kept', explored := true } discard

/-! ### operations -/

inductive Op
  | addBound (res : Option BId)
  | addSamples (shell : Option Nat) (rounds : List Round) (idxT : List Nat)
  | endExploration (discard : Bool)
  | setDiscard (b : Bool)
deriving Repr, DecidableEq

def step (env : Env) (s : St) : Op → St × Out
  | .addBound r => addBound env s r
  | .addSamples sh rs it => addSamples env s sh rs it
  | .endExploration d => (endExploration s d, .ok)
  | .setDiscard b => (setDiscard s b, .ok)

def exec (env : Env) (s : St) (ops : List Op) : St := ops.foldl (fun s op => (step env s op).1) s

def init (nBatch : Nat) : St := { nBatch }

/-! ### views -/

/-- rows currently visible in shell `sh` (what `posterior()` concatenates) -/
def visible (s : St) (sh : Shell) : List Pt := sh.pts.drop (start s sh)
def visibleLs (s : St) (sh : Shell) : List Pt := sh.ls.drop (start s sh)
def visibleBs (s : St) (sh : Shell) : List Pt := sh.bs.drop (start s sh)

/-- `posterior()` rows as (point, log-likelihood, blob) names, l. 594-607 -/
def posteriorRows (s : St) : List (Pt × Pt × Pt) :=
  (s.shells.map (fun sh => (visible s sh).zip ((visibleLs s sh).zip (visibleBs s sh)))).flatten

def allStored (s : St) : List Pt := (s.shells.map (·.pts)).flatten

end Core
end NautilusVerif
