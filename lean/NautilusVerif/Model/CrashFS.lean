/-
  `CrashFS` — a file-system model at the level of system calls, for "a kill at any instant leaves an atomic,
  loadable checkpoint" (import-free, executable).

  Paths: `0` is the checkpoint, other numbers are other paths (`1` = the temporary sibling).  Files are inodes;
  a path is a link to an inode; descriptors refer to inodes, so writes through a descriptor follow the inode
  across a `rename`.  The *content* of an inode is the list of ids of the mutations applied to it — two contents
  are equal iff the same mutations happened.  A process kill after `k` system calls leaves exactly the state
  `run (tr.take k)`: completed `pwrite`s are in the page cache and survive the process (trusted; power loss is
  not in the property).
-/
namespace NautilusVerif
namespace CrashFS

abbrev Path := Nat
def ck : Path := 0

inductive Sys
  | openat (fd : Nat) (p : Path) (write trunc creat : Bool)
  | mutate (fd : Nat)            -- write / pwrite / ftruncate / sendfile / copy_file_range into `fd`
  | close (fd : Nat)
  | unlink (p : Path)
  | rename (src dst : Path)
  | link (src dst : Path)        -- `link(2)`: `dst` becomes a second name of the inode of `src` (fails if `dst` exists)
  | mark                         -- `write()` / `write_shell_update()` has returned: a checkpoint is complete
deriving Repr, DecidableEq

structure Inode where
  content : List Nat := []
  writers : Nat := 0
deriving Repr, DecidableEq

structure FSt where
  inodes : List Inode := []
  link : List (Path × Nat) := []
  fds : List (Nat × Nat × Bool) := []
  installed : Option (List Nat) := none     -- content of the checkpoint when it was last completed / moved into place
  clock : Nat := 0
deriving Repr, DecidableEq

def lookup (l : List (Nat × Nat)) (k : Nat) : Option Nat := (l.find? (fun kv => kv.1 == k)).map (·.2)

def inoOf (s : FSt) (p : Path) : Option Nat := lookup s.link p

def fdInfo (s : FSt) (fd : Nat) : Option (Nat × Bool) := (s.fds.find? (fun f => f.1 == fd)).map (·.2)

def modInode (s : FSt) (i : Nat) (f : Inode → Inode) : FSt := { s with inodes := s.inodes.modify i f }

def contentOf (s : FSt) (i : Nat) : List Nat := ((s.inodes[i]?).map (·.content)).getD []

def apply (s0 : FSt) (op : Sys) : FSt :=
  let s := { s0 with clock := s0.clock + 1 }
  match op with
  | .openat fd p w t c =>
    match inoOf s p with
    | some i =>
      let s1 := modInode s i (fun n => { content := if t then n.content ++ [s0.clock] else n.content,
                                          writers := n.writers + (if w then 1 else 0) })
      { s1 with fds := (fd, i, w) :: s1.fds.filter (fun f => f.1 != fd) }
    | none =>
      if c then
        let i := s.inodes.length
        { s with inodes := s.inodes ++ [{ content := [], writers := if w then 1 else 0 }],
                 link := (p, i) :: s.link,
                 fds := (fd, i, w) :: s.fds.filter (fun f => f.1 != fd) }
      else s
  | .mutate fd =>
    match fdInfo s fd with
    | some (i, _) => modInode s i (fun n => { n with content := n.content ++ [s0.clock] })
    | none => s
  | .close fd =>
    match fdInfo s fd with
    | some (i, w) =>
      let s1 := if w then modInode s i (fun n => { n with writers := n.writers - 1 }) else s
      { s1 with fds := s1.fds.filter (fun f => f.1 != fd) }
    | none => s
  | .unlink p => { s with link := s.link.filter (fun kv => kv.1 != p) }
  | .rename src dst =>
    match inoOf s src with
    | some i =>
      let link' := (dst, i) :: s.link.filter (fun kv => kv.1 != src && kv.1 != dst)
      { s with link := link', installed := if dst == ck then some (contentOf s i) else s.installed }
    | none => s
  | .link src dst =>
    match inoOf s src, inoOf s dst with
    | some i, none => { s with link := (dst, i) :: s.link }
    | _, _ => s
  | .mark =>
    match inoOf s ck with
    | some i => { s with installed := some (contentOf s i) }
    | none => s

def run (tr : List Sys) : FSt := tr.foldl apply {}

/-- the property: once a checkpoint has been completed, the checkpoint path exists and holds exactly the content it
    had when it was completed (the last completed one — or, after a `rename`, the new one: never a mixture) -/
def Safe (s : FSt) : Prop :=
  match s.installed with
  | none => True
  | some c => ∃ i, inoOf s ck = some i ∧ contentOf s i = c

instance (s : FSt) : Decidable (Safe s) := by
  unfold Safe
  cases s.installed with
  | none => exact isTrue trivial
  | some c =>
    cases h : inoOf s ck with
    | none => exact isFalse (by rintro ⟨i, hi, _⟩; simp [h] at hi)
    | some i =>
      by_cases hc : contentOf s i = c
      · exact isTrue ⟨i, rfl, hc⟩
      · exact isFalse (by rintro ⟨j, hj, hjc⟩; simp [h] at hj; subst hj; exact hc hjc)

/-- index of the first system call after which a kill would leave an unsafe checkpoint -/
def firstUnsafe (tr : List Sys) : Option Nat :=
  (List.range (tr.length + 1)).find? (fun k => !decide (Safe (run (tr.take k))))

/-- the *discipline* of an atomic writer, checked operation by operation against the current state: the checkpoint
    path is never opened for writing / truncation / creation, never mutated through a descriptor, never removed or
    renamed away; it is only ever replaced by renaming a file onto it that nobody holds open for writing -/
def opOK (s : FSt) : Sys → Bool
  | .openat _ p w t c => !(p == ck && (w || t || c))
  | .mutate fd =>
    match fdInfo s fd, inoOf s ck with
    | some (i, _), some j => i != j
    | _, _ => true
  | .close _ => true
  | .unlink p => p != ck
  | .rename src dst =>
    src != ck &&
    (dst != ck ||
      match inoOf s src with
      | some i => ((s.inodes[i]?).map (·.writers)).getD 0 == 0 && !(s.fds.any (fun f => f.2.1 == i && f.2.2))
      | none => true)
  | .link _ _ => false           -- an atomic writer never gives a file on these paths a second name
  | .mark => (inoOf s ck).isSome

def atomicGo (s : FSt) : List Sys → Bool
  | [] => true
  | op :: ops => opOK s op && atomicGo (apply s op) ops

def atomicOK (tr : List Sys) : Bool := atomicGo {} tr

end CrashFS
end NautilusVerif
