/-
  `Persist` — persistence tables (import-free).  A class is described by what its `write` stores, what its `read`
  restores and what `update` overwrites; each entry carries the guard under which the Python statement runs.
  The tables themselves are *generated* from the source (`Generated/C09.lean`, `Generated/C05.lean`).
-/
namespace NautilusVerif
namespace Persist

/-- one statement of `write` / `read`: attribute, key in the HDF5 group, guarding flag and its polarity
    (`flag = ""`: unconditional; `key = ""` on the read side: the attribute is set to a constant, e.g. `None`;
    `attr = "?f"` on the write side: the statement stores flag `f` itself, e.g. `attrs['unit'] = cube is not None`) -/
structure Entry where
  attr : String
  key : String
  flag : String
  pol : Bool
deriving Repr, DecidableEq

structure ClassTable where
  name : String
  writes : List Entry
  reads : List Entry
  updates : List (String × String × String)     -- (attribute, key, own | nested)
  used : List String                             -- attributes the behavioural methods read
  sampleWrites : List String                     -- attributes `sample` assigns
  flags : List String
deriving Repr

/-- a valuation lists the flags that are true -/
def holds (v : List String) (e : Entry) : Bool := e.flag == "" || (v.contains e.flag == e.pol)

def valuations : List String → List (List String)
  | [] => [[]]
  | f :: fs => (valuations fs) ++ (valuations fs).map (f :: ·)

def setByRead (t : ClassTable) (v : List String) : List String := (t.reads.filter (holds v)).map (·.attr)

/-- every attribute a behavioural method reads is assigned by `read`, under every valuation of the guards -/
def readCovers (t : ClassTable) : Bool :=
  (valuations t.flags).all fun v => t.used.all fun a => (setByRead t v).contains a

/-- every (attribute, key) pair `read` fetches was stored by `write` under the same valuation, same key -/
def writeCovers (t : ClassTable) : Bool :=
  (valuations t.flags).all fun v => (t.reads.filter (holds v)).all fun e =>
    e.key == "" || (t.writes.filter (holds v)).any (fun w => w.attr == e.attr && w.key == e.key)

/-- every guard `read` tests is determined by what `write` stored: the flag itself (`?f`) or the presence of a
    group that is created exactly under that guard -/
def flagsStored (t : ClassTable) : Bool :=
  t.flags.all fun f => f == "rng_is_none" ||
    t.writes.any (fun w => w.attr == "?" ++ f || (w.flag == f && w.pol))

/-- every persisted attribute that `sample` changes is overwritten by `update` -/
def updateCovers (t : ClassTable) : Bool :=
  t.sampleWrites.all fun a => !(t.writes.any (fun w => w.attr == a)) || t.updates.any (fun u => u.1 == a)

/-- ... and `update` writes an attribute under the key `write` uses for it -/
def updateKeysMatch (t : ClassTable) : Bool :=
  t.updates.all fun u => u.2.2 == "nested" || t.writes.any (fun w => w.attr == u.1 && w.key == u.2.1)

def wellFormed (t : ClassTable) : Bool :=
  readCovers t && writeCovers t && flagsStored t && updateCovers t && updateKeysMatch t

/-! ### which class reads which stored bound (`Sampler.__init__`, resume block)

  `Sampler.write` stores `bounds[i]` under `bound_i` through the `write` of its own class, which records the class in
  `attrs['type']`.  `bounds[0]` is the unit cube as long as its shell exists; the end of exploration removes empty shells,
  the cube's included (`Core.endExploration`), after which `bounds[0]` is a `NautilusBound`. -/

inductive Kind | cube | nautilus
deriving Repr, DecidableEq

/-- the class tags a full write stores, in order -/
def storeKinds (ks : List Kind) : List Kind := ks

/-- the resume path as first found: `bound_0` through `UnitCube.read`, every other through `NautilusBound.read` -/
def loadKindsByPosition (tags : List Kind) : List Kind :=
  (tags.zipIdx).map (fun ti => if ti.2 == 0 then Kind.cube else Kind.nautilus)

/-- the resume path that dispatches on the stored tag: `UnitCube.read` iff `attrs['type'] == 'UnitCube'` -/
def loadKindsByTag (tags : List Kind) : List Kind :=
  tags.map (fun t => if t == Kind.cube then Kind.cube else Kind.nautilus)

end Persist
end NautilusVerif
